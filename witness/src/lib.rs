//! E3: compile-time witnesses for capabilities the type system enforces (C23, C24).
//! Run with `cargo +nightly test --doc --offline` (nightly checks the error code of compile_fail).
//! Every compile_fail witness has a compiling twin that differs only in the offending call, so a
//! witness whose paths are merely wrong cannot pass silently.

/// C23: the database types are Send + Sync, i.e. `&Db` may be shared between reader threads.
/// ```
/// fn assert_sync<T: Send + Sync>() {}
/// assert_sync::<agdb::Db>();
/// assert_sync::<agdb::DbFile>();
/// assert_sync::<agdb::DbMemory>();
/// assert_sync::<agdb::DbAny>();
/// ```
pub struct C23Sync;

/// C23: read queries go through `&self` (compiling twin of the next witness).
/// ```
/// let db = agdb::DbMemory::new("c23_read_twin").unwrap();
/// let shared: &agdb::DbMemory = &db;
/// let _ = shared.exec(agdb::QueryBuilder::select().node_count().query());
/// ```
pub struct C23ReadTwin;

/// C23/C24: a shared reference cannot run a mutating query.
/// ```compile_fail,E0596
/// let db = agdb::DbMemory::new("c23_read_only").unwrap();
/// let shared: &agdb::DbMemory = &db;
/// let _ = shared.exec_mut(agdb::QueryBuilder::insert().nodes().count(1).query());
/// ```
pub struct C23SharedCannotMutate;

/// C24: `exec` (the read entry point used for read-role users) rejects a mutating query at compile time.
/// ```compile_fail,E0277
/// let db = agdb::DbMemory::new("c24_exec_rejects").unwrap();
/// let _ = db.exec(agdb::QueryBuilder::insert().nodes().count(1).query());
/// ```
pub struct C24ExecRejectsMutation;

/// C24 twin: the same query is accepted by `exec_mut`.
/// ```
/// let mut db = agdb::DbMemory::new("c24_exec_mut_twin").unwrap();
/// let _ = db.exec_mut(agdb::QueryBuilder::insert().nodes().count(1).query());
/// ```
pub struct C24ExecMutTwin;

/// C24: an immutable transaction cannot run a mutating query either.
/// ```compile_fail,E0277
/// let db = agdb::DbMemory::new("c24_transaction_rejects").unwrap();
/// let _ = db.transaction(|t| -> Result<(), agdb::DbError> {
///     t.exec(agdb::QueryBuilder::insert().nodes().count(1).query())?;
///     Ok(())
/// });
/// ```
pub struct C24TransactionRejectsMutation;

/// C24 twin: a read query inside an immutable transaction compiles.
/// ```
/// let db = agdb::DbMemory::new("c24_transaction_twin").unwrap();
/// let _ = db.transaction(|t| -> Result<(), agdb::DbError> {
///     t.exec(agdb::QueryBuilder::select().node_count().query())?;
///     Ok(())
/// });
/// ```
pub struct C24TransactionTwin;
