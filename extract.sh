#!/bin/bash
# Run the agdb-facts driver over /repo's workspace members; facts land in $1 (dir).
# usage: extract.sh <facts_dir> [repo_dir] [target_dir]
set -u
FACTS=${1:?facts dir}
REPO=${2:-/repo}
TARGET=${3:-/verif/.cache/target-nightly}
DRV=/verif/driver/target/release/agdb-facts
mkdir -p "$FACTS" "$TARGET"
SYSROOT=$(rustc +nightly --print sysroot)
export LD_LIBRARY_PATH="$SYSROOT/lib"
# force the wrapper to run for workspace members (cargo would replay cached output)
for c in agdb agdb_derive agdb_api agdb_server; do
  rm -rf "$TARGET"/debug/.fingerprint/${c}-[0-9a-f]* 2>/dev/null
done
cd "$REPO" || exit 2
AGDB_FACTS_DIR="$FACTS" RUSTFLAGS="-Zmir-opt-level=0 -Awarnings" \
RUSTC_WORKSPACE_WRAPPER="$DRV" CARGO_TARGET_DIR="$TARGET" CARGO_NET_OFFLINE=true \
cargo +nightly check --offline --locked -p agdb -p agdb_derive -p agdb_api -p agdb_server 2>&1
