#!/bin/bash
# Build the fact extractor and warm the nightly dependency cache (offline).
set -e
cd "$(dirname "$0")"
export CARGO_NET_OFFLINE=true
(cd driver && cargo build --release --offline 2>&1 | tail -3)
mkdir -p .cache
# one extraction compiles all dependencies with the flags the checks use
python3 - <<'PY'
import sys
sys.path.insert(0, ".")
from lib import facts as F
d, fresh = F.ensure_facts("/repo")
print("facts ready in", d, "(fresh)" if fresh else "(cached)")
PY
# warm the compile-time witness crate (E3)
(cd witness && cp /repo/Cargo.lock . 2>/dev/null; CARGO_TARGET_DIR=/verif/.cache/target-witness cargo +nightly test --doc --offline 2>&1 | tail -3)
