// minimal JSON helpers (no dependencies)

pub fn s(x: &str) -> String {
    let mut o = String::with_capacity(x.len() + 2);
    o.push('"');
    for c in x.chars() {
        match c {
            '"' => o.push_str("\\\""),
            '\\' => o.push_str("\\\\"),
            '\n' => o.push_str("\\n"),
            '\r' => o.push_str("\\r"),
            '\t' => o.push_str("\\t"),
            c if (c as u32) < 0x20 => o.push_str(&format!("\\u{:04x}", c as u32)),
            c => o.push(c),
        }
    }
    o.push('"');
    o
}

pub fn arr(items: &[String]) -> String {
    let mut o = String::from("[");
    for (i, it) in items.iter().enumerate() {
        if i > 0 {
            o.push(',');
        }
        o.push_str(it);
    }
    o.push(']');
    o
}

pub struct Obj(String);

impl Obj {
    pub fn new() -> Self {
        Obj(String::from("{"))
    }
    fn key(&mut self, k: &str) {
        if self.0.len() > 1 {
            self.0.push(',');
        }
        self.0.push('"');
        self.0.push_str(k);
        self.0.push_str("\":");
    }
    pub fn str(&mut self, k: &str, v: &str) -> &mut Self {
        self.key(k);
        self.0.push_str(&s(v));
        self
    }
    pub fn raw(&mut self, k: &str, v: &str) -> &mut Self {
        self.key(k);
        self.0.push_str(v);
        self
    }
    pub fn num(&mut self, k: &str, v: i128) -> &mut Self {
        self.key(k);
        self.0.push_str(&v.to_string());
        self
    }
    pub fn bool(&mut self, k: &str, v: bool) -> &mut Self {
        self.key(k);
        self.0.push_str(if v { "true" } else { "false" });
        self
    }
    pub fn opt_str(&mut self, k: &str, v: Option<&str>) -> &mut Self {
        match v {
            Some(v) => self.str(k, v),
            None => self.raw(k, "null"),
        }
    }
    pub fn done(&mut self) -> String {
        let mut o = std::mem::take(&mut self.0);
        o.push('}');
        o
    }
}
