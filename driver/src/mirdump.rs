// MIR body -> JSON
use crate::json::{self, Obj};
use rustc_hir::def::DefKind;
use rustc_middle::mir::*;
use rustc_middle::ty::print::{with_crate_prefix, with_no_trimmed_paths};
use rustc_middle::ty::{self, Instance, Ty, TyCtxt, TypingEnv};
use rustc_span::def_id::{DefId, LocalDefId};
use rustc_span::{ExpnKind, Span};

pub fn fix_crate(tcx: TyCtxt<'_>, s: String) -> String {
    let cn = tcx.crate_name(rustc_span::def_id::LOCAL_CRATE);
    s.replace("crate::", &format!("{}::", cn))
}

pub fn def_name(tcx: TyCtxt<'_>, def: DefId) -> String {
    let s = with_no_trimmed_paths!(with_crate_prefix!(tcx.def_path_str(def)));
    fix_crate(tcx, s)
}

pub fn def_name_args<'tcx>(tcx: TyCtxt<'tcx>, def: DefId, args: ty::GenericArgsRef<'tcx>) -> String {
    let s = with_no_trimmed_paths!(with_crate_prefix!(tcx.def_path_str_with_args(def, args)));
    fix_crate(tcx, s)
}

pub fn ty_str<'tcx>(tcx: TyCtxt<'tcx>, t: Ty<'tcx>) -> String {
    let s = with_no_trimmed_paths!(with_crate_prefix!(format!("{}", t)));
    fix_crate(tcx, s)
}

pub fn span_info(tcx: TyCtxt<'_>, span: Span) -> (String, usize, Option<String>) {
    let sm = tcx.sess.source_map();
    let exp = if span.from_expansion() {
        let ed = span.ctxt().outer_expn_data();
        Some(match ed.kind {
            ExpnKind::Macro(_, name) => format!("macro:{}", name),
            ExpnKind::Desugaring(k) => format!("desugar:{:?}", k),
            ExpnKind::AstPass(k) => format!("astpass:{:?}", k),
            ExpnKind::Root => "root".to_string(),
        })
    } else {
        None
    };
    let cs = span.source_callsite();
    let loc = sm.lookup_char_pos(cs.lo());
    let file = match &loc.file.name {
        rustc_span::FileName::Real(r) => match r.local_path() {
            Some(p) => p.to_string_lossy().to_string(),
            None => format!("{:?}", r),
        },
        other => format!("{:?}", other),
    };
    (file, loc.line, exp)
}

fn place_json<'tcx>(tcx: TyCtxt<'tcx>, body: &Body<'tcx>, p: &Place<'tcx>) -> String {
    let mut items = vec![format!("{}", p.local.as_usize())];
    let mut cur = PlaceTy::from_ty(body.local_decls[p.local].ty);
    for elem in p.projection.iter() {
        let s = match elem {
            ProjectionElem::Deref => "*".to_string(),
            ProjectionElem::Field(f, _) => {
                let mut name = format!(".{}", f.as_usize());
                match cur.ty.kind() {
                    ty::Adt(adt, _) => {
                        let v = match cur.variant_index {
                            Some(v) => adt.variant(v),
                            None => {
                                if adt.is_enum() {
                                    adt.variant(rustc_abi::VariantIdx::from_u32(0))
                                } else {
                                    adt.non_enum_variant()
                                }
                            }
                        };
                        if let Some(fd) = v.fields.get(f) {
                            name = format!(".{}", fd.name);
                        }
                    }
                    _ => {}
                }
                name
            }
            ProjectionElem::Index(l) => format!("[_{}]", l.as_usize()),
            ProjectionElem::ConstantIndex { offset, from_end, .. } => {
                format!("[c{}{}]", if from_end { "-" } else { "" }, offset)
            }
            ProjectionElem::Subslice { from, to, from_end } => {
                format!("[{}..{}{}]", from, if from_end { "-" } else { "" }, to)
            }
            ProjectionElem::Downcast(name, idx) => match name {
                Some(n) => format!("as {}", n),
                None => format!("as #{}", idx.as_usize()),
            },
            ProjectionElem::OpaqueCast(_) => "opaque".to_string(),
            ProjectionElem::UnwrapUnsafeBinder(_) => "unbinder".to_string(),
        };
        items.push(json::s(&s));
        cur = cur.projection_ty(tcx, elem);
    }
    json::arr(&items)
}

fn const_json<'tcx>(tcx: TyCtxt<'tcx>, owner: LocalDefId, c: &ConstOperand<'tcx>) -> String {
    let mut o = Obj::new();
    let ty = c.const_.ty();
    o.str("ty", &ty_str(tcx, ty));
    if let ty::FnDef(def, args) = ty.kind() {
        o.str("fn", &def_name(tcx, *def));
        o.str("fnfull", &def_name_args(tcx, *def, args));
        if let Some(r) = resolve(tcx, owner, *def, args) {
            o.str("res", &r);
        }
    } else {
        let s = with_no_trimmed_paths!(format!("{}", c.const_));
        let s = if s.len() > 300 { format!("{}…", &s[..s.char_indices().nth(300).map(|x| x.0).unwrap_or(s.len())]) } else { s };
        o.str("c", &s);
        // integer value if available
        if ty.is_integral() || ty.is_bool() || ty.is_char() {
            let env = TypingEnv::post_analysis(tcx, owner.to_def_id());
            if let Some(si) = c.const_.try_eval_scalar_int(tcx, env) {
                let size = si.size();
                let v: i128 = if ty.is_signed() { si.to_int(size) } else { si.to_uint(size) as i128 };
                o.num("v", v);
            }
        }
    }
    o.done()
}

pub fn resolve<'tcx>(
    tcx: TyCtxt<'tcx>,
    owner: LocalDefId,
    def: DefId,
    args: ty::GenericArgsRef<'tcx>,
) -> Option<String> {
    // only trait items need resolution
    if tcx.trait_of_assoc(def).is_none() {
        return None;
    }
    // revealing opaque types inside borrowck would be a query cycle
    {
        use rustc_middle::ty::TypeVisitableExt;
        if args.has_opaque_types() {
            return None;
        }
    }
    let env = TypingEnv::post_analysis(tcx, owner.to_def_id());
    let r = std::panic::catch_unwind(std::panic::AssertUnwindSafe(|| Instance::try_resolve(tcx, env, def, args)));
    match r {
        Ok(Ok(Some(inst))) => {
            let d = inst.def_id();
            if d != def {
                Some(def_name(tcx, d))
            } else {
                None
            }
        }
        _ => None,
    }
}

fn operand_json<'tcx>(tcx: TyCtxt<'tcx>, owner: LocalDefId, body: &Body<'tcx>, op: &Operand<'tcx>) -> String {
    match op {
        Operand::Copy(p) => format!("{{\"cp\":{}}}", place_json(tcx, body, p)),
        Operand::Move(p) => format!("{{\"mv\":{}}}", place_json(tcx, body, p)),
        Operand::Constant(c) => format!("{{\"k\":{}}}", const_json(tcx, owner, c)),
        other => format!("{{\"other\":{}}}", json::s(&format!("{:?}", other))),
    }
}

fn rvalue_json<'tcx>(tcx: TyCtxt<'tcx>, owner: LocalDefId, body: &Body<'tcx>, rv: &Rvalue<'tcx>) -> String {
    let mut o = Obj::new();
    match rv {
        Rvalue::Use(op, ..) => {
            o.str("k", "use").raw("o", &operand_json(tcx, owner, body, op));
        }
        Rvalue::Repeat(op, n) => {
            o.str("k", "repeat").raw("o", &operand_json(tcx, owner, body, op)).str("n", &format!("{}", n));
        }
        Rvalue::Ref(_, bk, p) => {
            o.str("k", "ref")
                .bool("mut", matches!(bk, BorrowKind::Mut { .. }))
                .raw("p", &place_json(tcx, body, p));
        }
        Rvalue::RawPtr(_, p) => {
            o.str("k", "rawptr").raw("p", &place_json(tcx, body, p));
        }
        Rvalue::Cast(ck, op, ty) => {
            o.str("k", "cast")
                .str("ck", &format!("{:?}", ck))
                .raw("o", &operand_json(tcx, owner, body, op))
                .str("ty", &ty_str(tcx, *ty));
        }
        Rvalue::BinaryOp(bop, ab) => {
            o.str("k", "bin")
                .str("op", &format!("{:?}", bop))
                .raw("a", &operand_json(tcx, owner, body, &ab.0))
                .raw("b", &operand_json(tcx, owner, body, &ab.1));
        }
        Rvalue::UnaryOp(uop, a) => {
            o.str("k", "un").str("op", &format!("{:?}", uop)).raw("a", &operand_json(tcx, owner, body, a));
        }
        Rvalue::Discriminant(p) => {
            o.str("k", "discr").raw("p", &place_json(tcx, body, p));
            // enum variants table for decoding switch values
            let pty = p.ty(&body.local_decls, tcx).ty;
            if let ty::Adt(adt, _) = pty.kind() {
                if adt.is_enum() {
                    let mut vs = Vec::new();
                    for (idx, d) in adt.discriminants(tcx) {
                        vs.push(format!("[{},{}]", d.val, json::s(adt.variant(idx).name.as_str())));
                    }
                    o.str("enum", &def_name(tcx, adt.did()));
                    o.raw("variants", &json::arr(&vs));
                }
            }
        }
        Rvalue::Aggregate(kind, ops) => {
            o.str("k", "agg");
            match &**kind {
                AggregateKind::Array(_) => {
                    o.str("what", "array");
                }
                AggregateKind::Tuple => {
                    o.str("what", "tuple");
                }
                AggregateKind::Adt(def, vidx, _, _, _) => {
                    let adt = tcx.adt_def(*def);
                    let v = adt.variant(*vidx);
                    o.str("what", "adt");
                    o.str("adt", &def_name(tcx, *def));
                    o.str("variant", v.name.as_str());
                    let fields: Vec<String> = v.fields.iter().map(|f| json::s(f.name.as_str())).collect();
                    o.raw("fields", &json::arr(&fields));
                }
                AggregateKind::Closure(def, _) => {
                    o.str("what", "closure").str("def", &def_name(tcx, *def));
                }
                AggregateKind::Coroutine(def, _) => {
                    o.str("what", "coroutine").str("def", &def_name(tcx, *def));
                }
                AggregateKind::CoroutineClosure(def, _) => {
                    o.str("what", "coroutine_closure").str("def", &def_name(tcx, *def));
                }
                AggregateKind::RawPtr(..) => {
                    o.str("what", "rawptr");
                }
            }
            let v: Vec<String> = ops.iter().map(|x| operand_json(tcx, owner, body, x)).collect();
            o.raw("ops", &json::arr(&v));
        }
        Rvalue::CopyForDeref(p) => {
            o.str("k", "use").raw("o", &format!("{{\"cp\":{}}}", place_json(tcx, body, p)));
        }
        other => {
            o.str("k", "other").str("s", &format!("{:?}", other));
        }
    }
    o.done()
}

fn bb(t: BasicBlock) -> String {
    format!("{}", t.as_usize())
}

fn unwind_json(u: &UnwindAction) -> String {
    match u {
        UnwindAction::Cleanup(b) => bb(*b),
        _ => "null".to_string(),
    }
}

pub fn dump_body<'tcx>(tcx: TyCtxt<'tcx>, def: LocalDefId, body: &Body<'tcx>, promoted: Option<usize>) -> String {
    let did = def.to_def_id();
    let mut o = Obj::new();
    match promoted {
        None => {
            o.str("t", "body");
            o.str("path", &def_name(tcx, did));
        }
        Some(i) => {
            o.str("t", "promoted");
            o.str("path", &format!("{}::promoted[{}]", def_name(tcx, did), i));
            o.str("owner", &def_name(tcx, did));
            o.num("idx", i as i128);
        }
    }
    let kind = tcx.def_kind(did);
    o.str("kind", &format!("{:?}", kind));
    let (file, line, _) = span_info(tcx, body.span);
    o.str("file", &file).num("line", line as i128);
    let sm = tcx.sess.source_map();
    o.num("end_line", sm.lookup_char_pos(body.span.hi()).line as i128);
    o.bool("coroutine", tcx.is_coroutine(did));
    // parent (for closures / coroutines): the enclosing typeck root and immediate parent
    if matches!(kind, DefKind::Closure | DefKind::InlineConst | DefKind::SyntheticCoroutineBody) {
        let parent = tcx.local_parent(def);
        o.str("parent", &def_name(tcx, parent.to_def_id()));
        let root = tcx.typeck_root_def_id(did);
        o.str("root", &def_name(tcx, root));
    }
    // impl info
    if matches!(kind, DefKind::AssocFn | DefKind::AssocConst { .. }) {
        let parent = tcx.parent(did);
        if matches!(tcx.def_kind(parent), DefKind::Impl { .. }) {
            let self_ty = tcx.type_of(parent).instantiate_identity().skip_normalization();
            o.str("impl_self", &ty_str(tcx, self_ty));
            if let Some(tr) = tcx.impl_opt_trait_ref(parent) {
                let tr = tr.instantiate_identity().skip_normalization();
                o.str("impl_trait", &def_name(tcx, tr.def_id));
                let full = with_no_trimmed_paths!(with_crate_prefix!(format!("{}", tr)));
                o.str("impl_trait_full", &fix_crate(tcx, full));
            }
        } else if matches!(tcx.def_kind(parent), DefKind::Trait) {
            o.str("trait_default", &def_name(tcx, parent));
        }
    }
    if matches!(kind, DefKind::Fn | DefKind::AssocFn) {
        o.str("vis", &format!("{:?}", tcx.visibility(did)));
        o.str("name", tcx.item_name(did).as_str());
    }
    o.num("argc", body.arg_count as i128);
    // locals
    let mut names: Vec<Option<String>> = vec![None; body.local_decls.len()];
    for vdi in &body.var_debug_info {
        if let VarDebugInfoContents::Place(p) = &vdi.value {
            if p.projection.is_empty() && names[p.local.as_usize()].is_none() {
                names[p.local.as_usize()] = Some(vdi.name.to_string());
            }
        }
    }
    let mut locals = Vec::new();
    for (l, d) in body.local_decls.iter_enumerated() {
        let mut lo = Obj::new();
        lo.str("ty", &ty_str(tcx, d.ty));
        if let Some(n) = &names[l.as_usize()] {
            lo.str("n", n);
        }
        if d.mutability.is_mut() && d.is_user_variable() {
            lo.bool("m", true);
        }
        locals.push(lo.done());
    }
    o.raw("locals", &json::arr(&locals));
    // captured upvars debug names (closures): var_debug_info with projections on _1
    let mut caps = Vec::new();
    for vdi in &body.var_debug_info {
        if let VarDebugInfoContents::Place(p) = &vdi.value {
            if !p.projection.is_empty() {
                caps.push(format!("[{},{}]", json::s(&vdi.name.to_string()), place_json(tcx, body, p)));
            }
        }
    }
    if !caps.is_empty() {
        o.raw("captures", &json::arr(&caps));
    }
    // blocks
    let mut blocks = Vec::new();
    for (_b, data) in body.basic_blocks.iter_enumerated() {
        let mut bo = Obj::new();
        if data.is_cleanup {
            bo.bool("cleanup", true);
        }
        let mut stmts = Vec::new();
        for st in &data.statements {
            match &st.kind {
                StatementKind::Assign(b) => {
                    let (p, rv) = &**b;
                    let (_, line, exp) = span_info(tcx, st.source_info.span);
                    let mut so = Obj::new();
                    so.raw("l", &place_json(tcx, body, p));
                    so.raw("r", &rvalue_json(tcx, def, body, rv));
                    so.num("ln", line as i128);
                    if let Some(e) = exp {
                        so.str("x", &e);
                    }
                    stmts.push(so.done());
                }
                StatementKind::SetDiscriminant { place, variant_index } => {
                    let mut so = Obj::new();
                    so.raw("setdiscr", &place_json(tcx, body, place));
                    so.num("variant", variant_index.as_usize() as i128);
                    stmts.push(so.done());
                }
                _ => {}
            }
        }
        bo.raw("s", &json::arr(&stmts));
        let term = data.terminator();
        let (_, tline, texp) = span_info(tcx, term.source_info.span);
        let mut to = Obj::new();
        to.num("ln", tline as i128);
        if let Some(e) = texp {
            to.str("x", &e);
        }
        match &term.kind {
            TerminatorKind::Goto { target } => {
                to.str("k", "goto").raw("t", &bb(*target));
            }
            TerminatorKind::SwitchInt { discr, targets } => {
                to.str("k", "switch").raw("d", &operand_json(tcx, def, body, discr));
                let mut ts = Vec::new();
                for (v, t) in targets.iter() {
                    ts.push(format!("[{},{}]", v, bb(t)));
                }
                to.raw("ts", &json::arr(&ts));
                to.raw("else", &bb(targets.otherwise()));
            }
            TerminatorKind::UnwindResume => {
                to.str("k", "resume");
            }
            TerminatorKind::UnwindTerminate(_) => {
                to.str("k", "terminate");
            }
            TerminatorKind::Return => {
                to.str("k", "return");
            }
            TerminatorKind::Unreachable => {
                to.str("k", "unreachable");
            }
            TerminatorKind::Drop { place, target, unwind, .. } => {
                to.str("k", "drop")
                    .raw("p", &place_json(tcx, body, place))
                    .raw("t", &bb(*target))
                    .raw("u", &unwind_json(unwind));
            }
            TerminatorKind::Call { func, args, destination, target, unwind, .. } => {
                to.str("k", "call");
                to.raw("f", &operand_json(tcx, def, body, func));
                let a: Vec<String> = args.iter().map(|x| operand_json(tcx, def, body, &x.node)).collect();
                to.raw("a", &json::arr(&a));
                to.raw("d", &place_json(tcx, body, destination));
                to.raw("t", &target.map(bb).unwrap_or("null".to_string()));
                to.raw("u", &unwind_json(unwind));
            }
            TerminatorKind::TailCall { func, args, .. } => {
                to.str("k", "tailcall");
                to.raw("f", &operand_json(tcx, def, body, func));
                let a: Vec<String> = args.iter().map(|x| operand_json(tcx, def, body, &x.node)).collect();
                to.raw("a", &json::arr(&a));
            }
            TerminatorKind::Assert { cond, expected, msg, target, unwind } => {
                to.str("k", "assert");
                to.raw("c", &operand_json(tcx, def, body, cond));
                to.bool("e", *expected);
                let kind = match &**msg {
                    AssertKind::BoundsCheck { .. } => "BoundsCheck".to_string(),
                    AssertKind::Overflow(op, ..) => format!("Overflow({:?})", op),
                    AssertKind::OverflowNeg(_) => "OverflowNeg".to_string(),
                    AssertKind::DivisionByZero(_) => "DivisionByZero".to_string(),
                    AssertKind::RemainderByZero(_) => "RemainderByZero".to_string(),
                    other => format!("{:?}", other).split('(').next().unwrap_or("other").to_string(),
                };
                to.str("ak", &kind);
                if let AssertKind::BoundsCheck { len, index } = &**msg {
                    to.raw("len", &operand_json(tcx, def, body, len));
                    to.raw("idx", &operand_json(tcx, def, body, index));
                }
                to.raw("t", &bb(*target)).raw("u", &unwind_json(unwind));
            }
            TerminatorKind::Yield { value, resume, drop, .. } => {
                to.str("k", "yield");
                to.raw("v", &operand_json(tcx, def, body, value));
                to.raw("t", &bb(*resume));
                to.raw("drop", &drop.map(bb).unwrap_or("null".to_string()));
            }
            TerminatorKind::CoroutineDrop => {
                to.str("k", "coroutine_drop");
            }
            TerminatorKind::FalseEdge { real_target, imaginary_target } => {
                to.str("k", "falseedge").raw("t", &bb(*real_target)).raw("imag", &bb(*imaginary_target));
            }
            TerminatorKind::FalseUnwind { real_target, unwind } => {
                to.str("k", "falseunwind").raw("t", &bb(*real_target)).raw("u", &unwind_json(unwind));
            }
            TerminatorKind::InlineAsm { .. } => {
                to.str("k", "asm");
            }
        }
        bo.raw("term", &to.done());
        blocks.push(bo.done());
    }
    o.raw("blocks", &json::arr(&blocks));
    o.done()
}

#[allow(dead_code)]
pub fn unused(_: &dyn Fn(ty::Ty<'_>)) {}
