// HIR-level facts: ADT field tables, impl tables, match tables, unsafe blocks
use crate::json::{self, Obj};
use crate::mirdump::{def_name, fix_crate, span_info, ty_str};
use rustc_hir as hir;
use rustc_hir::def::{DefKind, Res};
use rustc_hir::intravisit::{self, Visitor};
use rustc_middle::ty::print::{with_crate_prefix, with_no_trimmed_paths};
use rustc_middle::ty::{self, TyCtxt, TypeckResults, TypingEnv};
use rustc_span::def_id::LocalDefId;

fn trunc(s: String, n: usize) -> String {
    if s.chars().count() > n {
        let cut = s.char_indices().nth(n).map(|x| x.0).unwrap_or(s.len());
        format!("{}…", &s[..cut])
    } else {
        s
    }
}

pub fn dump_items<'tcx>(tcx: TyCtxt<'tcx>, out: &mut Vec<String>) {
    let items = tcx.hir_crate_items(());
    for def in items.definitions() {
        let did = def.to_def_id();
        match tcx.def_kind(did) {
            DefKind::Struct | DefKind::Enum | DefKind::Union => dump_adt(tcx, def, out),
            DefKind::Impl { .. } => dump_impl(tcx, def, out),
            DefKind::Fn | DefKind::AssocFn => dump_fnsig(tcx, def, out),
            _ => {}
        }
    }
    for def in tcx.hir_body_owners() {
        if tcx.typeck_root_def_id(def.to_def_id()) != def.to_def_id() {
            continue;
        }
        dump_hir_body(tcx, def, out);
    }
}

fn dump_adt<'tcx>(tcx: TyCtxt<'tcx>, def: LocalDefId, out: &mut Vec<String>) {
    let did = def.to_def_id();
    let adt = tcx.adt_def(did);
    let env = TypingEnv::post_analysis(tcx, did);
    let mut o = Obj::new();
    o.str("t", "adt").str("path", &def_name(tcx, did));
    o.str("kind", if adt.is_enum() { "enum" } else if adt.is_union() { "union" } else { "struct" });
    let (file, line, _) = span_info(tcx, tcx.def_span(did));
    o.str("file", &file).num("line", line as i128);
    let mut vs = Vec::new();
    for (idx, v) in adt.variants().iter_enumerated() {
        let mut vo = Obj::new();
        vo.str("name", v.name.as_str());
        vo.num("idx", idx.as_usize() as i128);
        if adt.is_enum() {
            let d = adt.discriminant_for_variant(tcx, idx);
            vo.str("discr", &format!("{}", d.val));
        }
        let mut fs = Vec::new();
        for f in v.fields.iter() {
            let fty = tcx.type_of(f.did).instantiate_identity().skip_normalization();
            let mut fo = Obj::new();
            fo.str("name", f.name.as_str());
            fo.str("ty", &ty_str(tcx, fty));
            fo.bool("freeze", fty.is_freeze(tcx, env));
            // ADT def paths mentioned in the type (for closure computations)
            let mut adts = Vec::new();
            for arg in fty.walk() {
                if let Some(t) = arg.as_type() {
                    if let ty::Adt(a, _) = t.kind() {
                        adts.push(json::s(&def_name(tcx, a.did())));
                    }
                }
            }
            fo.raw("adts", &json::arr(&adts));
            fs.push(fo.done());
        }
        vo.raw("fields", &json::arr(&fs));
        vs.push(vo.done());
    }
    o.raw("variants", &json::arr(&vs));
    out.push(o.done());
}

fn dump_impl<'tcx>(tcx: TyCtxt<'tcx>, def: LocalDefId, out: &mut Vec<String>) {
    let did = def.to_def_id();
    let mut o = Obj::new();
    o.str("t", "impl");
    let self_ty = tcx.type_of(did).instantiate_identity().skip_normalization();
    o.str("self", &ty_str(tcx, self_ty));
    if let ty::Adt(a, _) = self_ty.kind() {
        o.str("self_adt", &def_name(tcx, a.did()));
    }
    if let Some(tr) = tcx.impl_opt_trait_ref(did) {
        let tr = tr.instantiate_identity().skip_normalization();
        o.str("trait", &def_name(tcx, tr.def_id));
        let full = with_no_trimmed_paths!(with_crate_prefix!(format!("{}", tr)));
        o.str("trait_full", &fix_crate(tcx, full));
    }
    let (file, line, exp) = span_info(tcx, tcx.def_span(did));
    o.str("file", &file).num("line", line as i128);
    if let Some(e) = exp {
        o.str("x", &e);
    }
    let mut items = Vec::new();
    for it in tcx.associated_items(did).in_definition_order() {
        let Some(nm) = it.opt_name() else { continue };
        items.push(format!(
            "[{},{}]",
            json::s(nm.as_str()),
            json::s(&def_name(tcx, it.def_id))
        ));
    }
    o.raw("items", &json::arr(&items));
    out.push(o.done());
}

fn dump_fnsig<'tcx>(tcx: TyCtxt<'tcx>, def: LocalDefId, out: &mut Vec<String>) {
    let did = def.to_def_id();
    let sig = tcx.fn_sig(did).instantiate_identity().skip_normalization().skip_binder();
    let mut o = Obj::new();
    o.str("t", "fn").str("path", &def_name(tcx, did));
    o.str("name", tcx.item_name(did).as_str());
    o.str("vis", &format!("{:?}", tcx.visibility(did)));
    let ins: Vec<String> = sig.inputs().iter().map(|t| json::s(&ty_str(tcx, *t))).collect();
    o.raw("inputs", &json::arr(&ins));
    o.str("output", &ty_str(tcx, sig.output()));
    o.bool("async", tcx.asyncness(did).is_async());
    let (file, line, exp) = span_info(tcx, tcx.def_span(did));
    o.str("file", &file).num("line", line as i128);
    if let Some(e) = exp {
        o.str("x", &e);
    }
    let parent = tcx.parent(did);
    match tcx.def_kind(parent) {
        DefKind::Impl { .. } => {
            let self_ty = tcx.type_of(parent).instantiate_identity().skip_normalization();
            o.str("impl_self", &ty_str(tcx, self_ty));
            if let Some(tr) = tcx.impl_opt_trait_ref(parent) {
                o.str("impl_trait", &def_name(tcx, tr.instantiate_identity().skip_normalization().def_id));
            }
        }
        DefKind::Trait => {
            o.str("trait_decl", &def_name(tcx, parent));
        }
        _ => {}
    }
    out.push(o.done());
}

struct Summ<'a, 'tcx> {
    tcx: TyCtxt<'tcx>,
    tr: &'a TypeckResults<'tcx>,
    calls: Vec<String>,
    paths: Vec<String>,
    lits: Vec<String>,
    ops: Vec<String>,
    rets: usize,
}

fn res_name(tcx: TyCtxt<'_>, res: Res) -> Option<String> {
    match res {
        Res::Def(DefKind::Ctor(..), id) => Some(def_name(tcx, tcx.parent(id))),
        Res::Def(_, id) => Some(def_name(tcx, id)),
        Res::SelfCtor(id) => Some(format!("SelfCtor:{}", def_name(tcx, id))),
        _ => None,
    }
}

impl<'a, 'tcx> Visitor<'tcx> for Summ<'a, 'tcx> {
    type NestedFilter = rustc_middle::hir::nested_filter::OnlyBodies;
    fn maybe_tcx(&mut self) -> TyCtxt<'tcx> {
        self.tcx
    }
    fn visit_expr(&mut self, e: &'tcx hir::Expr<'tcx>) {
        match e.kind {
            hir::ExprKind::Call(f, _) => {
                if let hir::ExprKind::Path(ref qp) = f.kind {
                    if let Some(n) = res_name(self.tcx, self.tr.qpath_res(qp, f.hir_id)) {
                        self.calls.push(n);
                    }
                }
            }
            hir::ExprKind::MethodCall(..) => {
                if let Some(d) = self.tr.type_dependent_def_id(e.hir_id) {
                    self.calls.push(def_name(self.tcx, d));
                }
            }
            hir::ExprKind::Path(ref qp) => {
                if let Some(n) = res_name(self.tcx, self.tr.qpath_res(qp, e.hir_id)) {
                    self.paths.push(n);
                }
            }
            hir::ExprKind::Struct(qp, ..) => {
                if let Some(n) = res_name(self.tcx, self.tr.qpath_res(qp, e.hir_id)) {
                    self.paths.push(n);
                }
            }
            hir::ExprKind::Lit(l) => {
                self.lits.push(format!("{:?}", l.node));
            }
            hir::ExprKind::Binary(op, ..) => {
                self.ops.push(format!("{:?}", op.node));
            }
            hir::ExprKind::Unary(op, ..) => {
                self.ops.push(format!("{:?}", op));
            }
            hir::ExprKind::Ret(_) => {
                self.rets += 1;
            }
            _ => {}
        }
        intravisit::walk_expr(self, e);
    }
}

fn pat_json<'tcx>(tcx: TyCtxt<'tcx>, tr: &TypeckResults<'tcx>, p: &hir::Pat<'tcx>) -> String {
    let mut o = Obj::new();
    match p.kind {
        hir::PatKind::Wild | hir::PatKind::Missing => {
            o.str("k", "wild");
        }
        hir::PatKind::Binding(_, _, ident, sub) => {
            o.str("k", "bind").str("name", ident.name.as_str());
            if let Some(s) = sub {
                o.raw("sub", &pat_json(tcx, tr, s));
            }
        }
        hir::PatKind::Struct(ref qp, fields, rest) => {
            o.str("k", "struct");
            if let Some(n) = res_name(tcx, tr.qpath_res(qp, p.hir_id)) {
                o.str("path", &n);
            }
            let fs: Vec<String> = fields
                .iter()
                .map(|f| format!("[{},{}]", json::s(f.ident.name.as_str()), pat_json(tcx, tr, f.pat)))
                .collect();
            o.raw("fields", &json::arr(&fs));
            o.bool("rest", rest.is_some());
        }
        hir::PatKind::TupleStruct(ref qp, subs, _) => {
            o.str("k", "variant");
            if let Some(n) = res_name(tcx, tr.qpath_res(qp, p.hir_id)) {
                o.str("path", &n);
            }
            let ss: Vec<String> = subs.iter().map(|s| pat_json(tcx, tr, s)).collect();
            o.raw("sub", &json::arr(&ss));
        }
        hir::PatKind::Or(subs) => {
            o.str("k", "or");
            let ss: Vec<String> = subs.iter().map(|s| pat_json(tcx, tr, s)).collect();
            o.raw("sub", &json::arr(&ss));
        }
        hir::PatKind::Tuple(subs, _) => {
            o.str("k", "tuple");
            let ss: Vec<String> = subs.iter().map(|s| pat_json(tcx, tr, s)).collect();
            o.raw("sub", &json::arr(&ss));
        }
        hir::PatKind::Box(s) | hir::PatKind::Deref(s) | hir::PatKind::Ref(s, ..) => {
            return pat_json(tcx, tr, s);
        }
        hir::PatKind::Expr(pe) => match pe.kind {
            hir::PatExprKind::Lit { lit, negated } => {
                o.str("k", "lit").str("v", &format!("{}{:?}", if negated { "-" } else { "" }, lit.node));
            }
            hir::PatExprKind::Path(ref qp) => {
                o.str("k", "variant");
                if let Some(n) = res_name(tcx, tr.qpath_res(qp, pe.hir_id)) {
                    o.str("path", &n);
                }
                o.raw("sub", "[]");
            }
        },
        hir::PatKind::Range(..) => {
            o.str("k", "range").str("s", &rustc_hir_pretty::pat_to_string(&tcx, p));
        }
        hir::PatKind::Slice(..) => {
            o.str("k", "slice").str("s", &rustc_hir_pretty::pat_to_string(&tcx, p));
        }
        _ => {
            o.str("k", "other").str("s", &rustc_hir_pretty::pat_to_string(&tcx, p));
        }
    }
    o.done()
}

struct BodyV<'a, 'tcx> {
    tcx: TyCtxt<'tcx>,
    tr: &'a TypeckResults<'tcx>,
    matches: Vec<String>,
    unsafe_blocks: usize,
}

impl<'a, 'tcx> BodyV<'a, 'tcx> {
    fn summarize(&self, e: &'tcx hir::Expr<'tcx>) -> String {
        let mut s = Summ { tcx: self.tcx, tr: self.tr, calls: vec![], paths: vec![], lits: vec![], ops: vec![], rets: 0 };
        s.visit_expr(e);
        let mut o = Obj::new();
        o.str("pretty", &trunc(rustc_hir_pretty::expr_to_string(&self.tcx, e), 800));
        let q = |v: &Vec<String>| json::arr(&v.iter().map(|x| json::s(x)).collect::<Vec<_>>());
        o.raw("calls", &q(&s.calls));
        o.raw("paths", &q(&s.paths));
        o.raw("lits", &q(&s.lits));
        o.raw("ops", &q(&s.ops));
        o.num("rets", s.rets as i128);
        o.done()
    }
}

impl<'a, 'tcx> Visitor<'tcx> for BodyV<'a, 'tcx> {
    type NestedFilter = rustc_middle::hir::nested_filter::OnlyBodies;
    fn maybe_tcx(&mut self) -> TyCtxt<'tcx> {
        self.tcx
    }
    fn visit_block(&mut self, b: &'tcx hir::Block<'tcx>) {
        if let hir::BlockCheckMode::UnsafeBlock(hir::UnsafeSource::UserProvided) = b.rules {
            self.unsafe_blocks += 1;
        }
        intravisit::walk_block(self, b);
    }
    fn visit_expr(&mut self, e: &'tcx hir::Expr<'tcx>) {
        if let hir::ExprKind::Match(scrut, arms, src) = e.kind {
            if matches!(src, hir::MatchSource::Normal | hir::MatchSource::Postfix) {
                let mut o = Obj::new();
                let (_, line, exp) = span_info(self.tcx, e.span);
                o.num("line", line as i128);
                if let Some(x) = exp {
                    o.str("x", &x);
                }
                o.str("scrut", &trunc(rustc_hir_pretty::expr_to_string(&self.tcx, scrut), 300));
                o.str("scrut_ty", &ty_str(self.tcx, self.tr.expr_ty(scrut)));
                o.raw("scrut_sum", &self.summarize(scrut));
                let mut av = Vec::new();
                for arm in arms {
                    let mut ao = Obj::new();
                    ao.str("pat", &rustc_hir_pretty::pat_to_string(&self.tcx, arm.pat));
                    ao.raw("p", &pat_json(self.tcx, self.tr, arm.pat));
                    if let Some(g) = arm.guard {
                        ao.raw("guard", &self.summarize(g));
                    }
                    ao.raw("body", &self.summarize(arm.body));
                    let (_, l, _) = span_info(self.tcx, arm.span);
                    ao.num("line", l as i128);
                    av.push(ao.done());
                }
                o.raw("arms", &json::arr(&av));
                self.matches.push(o.done());
            }
        }
        intravisit::walk_expr(self, e);
    }
}

fn dump_hir_body<'tcx>(tcx: TyCtxt<'tcx>, def: LocalDefId, out: &mut Vec<String>) {
    let Some(body) = tcx.hir_maybe_body_owned_by(def) else { return };
    let tr = tcx.typeck(def);
    let mut v = BodyV { tcx, tr, matches: vec![], unsafe_blocks: 0 };
    v.visit_body(body);
    if v.matches.is_empty() && v.unsafe_blocks == 0 {
        return;
    }
    let mut o = Obj::new();
    o.str("t", "hir").str("path", &def_name(tcx, def.to_def_id()));
    o.num("unsafe_blocks", v.unsafe_blocks as i128);
    o.raw("matches", &json::arr(&v.matches));
    out.push(o.done());
}
