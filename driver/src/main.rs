// agdb-facts: rustc_private driver dumping MIR/HIR facts as JSON lines.
// Used as RUSTC_WORKSPACE_WRAPPER under `cargo +nightly check`.
// Facts are written once per process to $AGDB_FACTS_DIR/<crate>.<hash>.jsonl
#![feature(rustc_private)]
#![allow(clippy::all)]

extern crate rustc_abi;
extern crate rustc_ast;
extern crate rustc_data_structures;
extern crate rustc_driver;
extern crate rustc_hir;
extern crate rustc_hir_pretty;
extern crate rustc_interface;
extern crate rustc_middle;
extern crate rustc_session;
extern crate rustc_span;

mod json;
mod mirdump;
mod hirdump;

use rustc_driver::Compilation;
use rustc_interface::interface;
use rustc_middle::ty::TyCtxt;
use rustc_middle::util::Providers;
use rustc_session::Session;
use rustc_span::def_id::LocalDefId;
use std::sync::{Mutex, OnceLock};

type BorrowckFn = for<'tcx> fn(
    TyCtxt<'tcx>,
    LocalDefId,
) -> Result<
    &'tcx rustc_data_structures::fx::FxIndexMap<LocalDefId, rustc_middle::ty::DefinitionSiteHiddenType<'tcx>>,
    rustc_span::ErrorGuaranteed,
>;

static ORIG_BORROWCK: OnceLock<BorrowckFn> = OnceLock::new();
pub static LINES: Mutex<Vec<String>> = Mutex::new(Vec::new());

fn my_borrowck<'tcx>(
    tcx: TyCtxt<'tcx>,
    key: LocalDefId,
) -> Result<
    &'tcx rustc_data_structures::fx::FxIndexMap<LocalDefId, rustc_middle::ty::DefinitionSiteHiddenType<'tcx>>,
    rustc_span::ErrorGuaranteed,
> {
    // dump root and nested bodies while mir_promoted is not yet stolen
    let mut defs: Vec<LocalDefId> = vec![key];
    for d in tcx.nested_bodies_within(key).iter() {
        defs.push(d);
    }
    for d in defs {
        let (steal, promoted) = tcx.mir_promoted(d);
        if steal.is_stolen() {
            LINES.lock().unwrap().push(format!(
                "{{\"t\":\"stolen\",\"path\":{}}}",
                json::s(&mirdump::def_name(tcx, d.to_def_id()))
            ));
            continue;
        }
        let body = steal.borrow();
        let line = mirdump::dump_body(tcx, d, &body, None);
        LINES.lock().unwrap().push(line);
        // promoted constants (`&[]`, `&Enum::Variant`, ...) referenced as `<owner>::promoted[n]`
        if !promoted.is_stolen() {
            let pbs = promoted.borrow();
            for (i, pb) in pbs.iter_enumerated() {
                let line = mirdump::dump_body(tcx, d, pb, Some(i.as_usize()));
                LINES.lock().unwrap().push(line);
            }
        }
    }
    (ORIG_BORROWCK.get().unwrap())(tcx, key)
}

fn override_queries(_sess: &Session, providers: &mut Providers) {
    let _ = ORIG_BORROWCK.set(providers.queries.mir_borrowck);
    providers.queries.mir_borrowck = my_borrowck;
}

struct Cb {
    out_dir: String,
    tag: String,
}

impl rustc_driver::Callbacks for Cb {
    fn config(&mut self, config: &mut interface::Config) {
        config.override_queries = Some(override_queries);
    }

    fn after_analysis<'tcx>(&mut self, _c: &interface::Compiler, tcx: TyCtxt<'tcx>) -> Compilation {
        // make sure every body was borrow-checked (and therefore dumped)
        for def in tcx.hir_body_owners() {
            let root = tcx.typeck_root_def_id(def.to_def_id()).expect_local();
            let _ = tcx.mir_borrowck(root);
        }
        let mut extra = Vec::new();
        hirdump::dump_items(tcx, &mut extra);
        let crate_name = tcx.crate_name(rustc_span::def_id::LOCAL_CRATE).to_string();
        let mut lines = LINES.lock().unwrap();
        lines.extend(extra);
        let mut buf = String::new();
        buf.push_str(&format!(
            "{{\"t\":\"crate\",\"name\":{},\"tag\":{},\"bodies\":{}}}\n",
            json::s(&crate_name),
            json::s(&self.tag),
            lines.iter().filter(|l| l.starts_with("{\"t\":\"body\"")).count()
        ));
        for l in lines.iter() {
            buf.push_str(l);
            buf.push('\n');
        }
        let fname = format!("{}/{}.{}.jsonl", self.out_dir, crate_name, self.tag);
        let tmp = format!("{}.tmp{}", fname, std::process::id());
        std::fs::write(&tmp, buf).expect("write facts");
        std::fs::rename(&tmp, &fname).expect("rename facts");
        Compilation::Continue
    }
}

fn main() {
    let mut args: Vec<String> = std::env::args().collect();
    // RUSTC_WORKSPACE_WRAPPER: argv[1] is the path of rustc
    if args.len() > 1 && (args[1].ends_with("rustc") || args[1].contains("/rustc")) {
        args.remove(1);
    }
    let out_dir = std::env::var("AGDB_FACTS_DIR").unwrap_or_default();
    let mut crate_name = String::new();
    let mut crate_type = String::from("lib");
    let mut meta = String::new();
    let mut is_test = false;
    let mut i = 0;
    while i < args.len() {
        if args[i] == "--crate-name" && i + 1 < args.len() {
            crate_name = args[i + 1].clone();
        }
        if args[i] == "--crate-type" && i + 1 < args.len() {
            crate_type = args[i + 1].clone();
        }
        if args[i] == "--test" {
            is_test = true;
        }
        if let Some(m) = args[i].strip_prefix("metadata=") {
            meta = m.to_string();
        }
        if args[i] == "-C" && i + 1 < args.len() {
            if let Some(m) = args[i + 1].strip_prefix("metadata=") {
                meta = m.to_string();
            }
        }
        i += 1;
    }
    let wanted = std::env::var("AGDB_FACTS_CRATES")
        .unwrap_or_else(|_| "agdb,agdb_derive,agdb_api,agdb_server".to_string());
    let dump = !out_dir.is_empty()
        && !crate_name.is_empty()
        && !crate_name.starts_with("build_script")
        && wanted.split(',').any(|w| w == crate_name)
        && !args.iter().any(|a| a == "--print" || a.starts_with("--print="))
        && !is_test;
    if dump {
        let tag = format!("{}.{}", crate_type, meta);
        let mut cb = Cb { out_dir, tag };
        rustc_driver::run_compiler(&args, &mut cb);
    } else {
        struct Nop;
        impl rustc_driver::Callbacks for Nop {}
        rustc_driver::run_compiler(&args, &mut Nop);
    }
}
