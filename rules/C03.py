"""C03 — every mutating query and transaction is atomic across crashes."""
from lib import cfg
from lib.callgraph import CallGraph
from rules import common

CRATES = ("agdb",)
EXPLANATION = (
    "Static analysis: (R03a) DbImpl::transaction_mut brackets the user closure and the logical commit/rollback in one "
    "storage transaction on every CFG path (begin dominates the closure call; every path from the closure call to a "
    "return passes Storage::commit, and Storage::commit is never reached before the logical commit/rollback); "
    "(R03b) the set of public `&mut self` entry points of DbImpl that can reach a storage write (call-graph closure) is "
    "closed: each is either routed through transaction_mut or a frozen state-preserving maintenance operation; "
    "(R03c) per-structure brackets reach commit on every success path.")
DECIDED = ["R03a the database transaction is one storage transaction (PAIR + order)",
           "R03b closed classification of public mutating entry points (call graph)",
           "R03c success pairing of all per-structure storage brackets",
           "R05e (shared) a renamed database keeps a working write-ahead log",
           "R01a-g the write-ahead log discipline (all rules of C01 re-evaluated)"]
UNDECIDED = ["equality of the reopened state with the before/after model state (needs execution)"]

SD_WRITE = ("agdb::storage::StorageData::write", "agdb::storage::StorageData::resize")
MAINTENANCE = {
    "agdb::db::DbImpl::optimize_storage": "defragmentation: every intermediate file is observably equal to the state before and after",
    "agdb::db::DbImpl::shrink_to_fit": "capacity only; not observable through queries",
}
STATE_CHANGING = {"agdb::db::DbImpl::transaction_mut", "agdb::db::DbImpl::exec_mut"}


def run(ctx):
    fa = ctx.facts
    cg = CallGraph(fa)
    b = ctx.anchor("R03a", "agdb::db::DbImpl::transaction_mut")
    if b:
        opens = [i for i, t in cfg.calls(b) if cfg.callee_decl(t) == "agdb::storage::Storage::transaction"
                 and cfg.is_self_field(b, t["a"][0], "storage")]
        closes = [i for i, t in cfg.calls(b) if cfg.callee_decl(t) == "agdb::storage::Storage::commit"
                  and cfg.is_self_field(b, t["a"][0], "storage")]
        user = [i for i, t in cfg.calls(b) if (cfg.callee_decl(t) or "").endswith("FnOnce::call_once")]
        logical = cfg.call_blocks(b, ["agdb::transaction_mut::TransactionMut::commit",
                                      "agdb::transaction_mut::TransactionMut::rollback"])
        rets = cfg.return_blocks(b)
        ok_open = bool(opens) and bool(user) and all(
            cfg.find_path(b, [0], [u], avoid=opens) is None for u in user)
        ctx.ob("R03a", "transaction_mut:begin-dominates-closure", ok_open,
               "self.storage.transaction() dominates the call of the user closure" if ok_open else
               "the user closure of transaction_mut can run outside a storage transaction: every structure operation "
               "then commits (purges the log) on its own and a crash mid-query exposes a prefix", b.where)
        p = cfg.find_path(b, user, rets, avoid=closes, leave_start=True) if user else [0]
        ok_close = bool(closes) and p is None
        ctx.ob("R03a", "transaction_mut:commit-on-every-exit", ok_close,
               "every path from the closure call to a return passes self.storage.commit(id)" if ok_close else
               "a return is reachable after the closure without Storage::commit: %s" % (cfg.path_str(b, p) if p else "no commit call"),
               b.where)
        p = cfg.find_path(b, user, closes, avoid=logical, leave_start=True) if (user and closes) else [0]
        ok_order = bool(logical) and p is None
        ctx.ob("R03a", "transaction_mut:logical-before-storage-commit", ok_order,
               "the storage commit comes after the logical commit/rollback on every path" if ok_order else
               "Storage::commit reachable before TransactionMut::commit/rollback: a crash during rollback would not "
               "be undone", b.where)

    # R03b
    n = 0
    for fb in fa.bodies.values():
        if fb.crate != "agdb" or fb.kind != "AssocFn":
            continue
        if not (fb.d.get("impl_self", "").startswith("agdb::db::DbImpl<") and not fb.d.get("impl_trait")):
            continue
        if fb.d.get("vis") != "Public" or fb.d["argc"] < 1:
            continue
        if not fb.local_ty(1).startswith("&mut agdb::db::DbImpl<"):
            continue
        hit = cg.reaches(fb, lambda x: x.d.get("impl_trait") == "agdb::storage::StorageData" and
                         x.d.get("name") in ("write", "resize"))
        if not hit:
            continue
        n += 1
        name = common.norm(fb.npath)
        if name in STATE_CHANGING:
            if name.endswith("exec_mut"):
                tm = cfg.call_blocks(fb, ["agdb::db::DbImpl::transaction_mut"])
                others = [cfg.callee(t) for i, t in cfg.calls(fb)
                          if (cfg.callee(t) or "").startswith("agdb::") and i not in tm]
                ctx.ob("R03b", name, bool(tm) and not others,
                       "exec_mut only forwards to transaction_mut" if (tm and not others) else
                       "exec_mut no longer only forwards to transaction_mut (calls %s)" % others, fb.where)
            else:
                ctx.ob("R03b", name, True, "state-changing entry; bracket checked by R03a", fb.where)
        elif name in MAINTENANCE:
            ctx.ob("R03b", name, True, "state-preserving maintenance: " + MAINTENANCE[name], fb.where)
        else:
            ctx.ob("R03b", name, False,
                   "unclassified public mutating entry `%s` reaches a storage write via %s without going through "
                   "transaction_mut's storage bracket" % (name, " -> ".join(hit[1][-4:])), fb.where)
    ctx.floor("R03b", "public &mut self methods of DbImpl reaching StorageData::write|resize", n, 4)

    common.pair_rule(ctx, "R03c", classes=("success",))
    # a renamed database must keep a working write-ahead log, otherwise later transactions are not atomic
    from rules import C05
    C05.rename_rule(ctx)
    # an interrupted transaction is undone by the log replay: newest-first, every record at its place (R01c, shared with C01)
    from rules import C01
    # ... and by everything else the write-ahead log promises (logged before written, closed set of file writers, encoding
    # of truncation records, recovery on open / drop): all rules of C01 are preconditions of this property
    C01.run(ctx)
    return 0
