"""C21 — deserializing arbitrary bytes never crashes."""
from lib import cfg
from rules import common
from rules.panic_common import run_panic_rule

CRATES = ("agdb",)
EXPLANATION = (
    "Static PANIC rule: from every Serialize::deserialize impl, every VecValue::load impl and every TryFrom<DbValue> "
    "conversion of crate agdb the workspace call-graph closure is computed and every panic-capable site in it is "
    "enumerated (explicit panics, unwrap/expect, slice/Vec/str indexing, MIR bounds/division asserts, copy_from_slice, "
    "split_at, Duration::new, time arithmetic, size-driven allocations, and overflow asserts inside the decoders). Each "
    "site must be discharged by a structural justification class (constant index into a fixed array, division by a "
    "non-zero constant, allocation sized by an in-memory length, slice of the input taken only after a successful decode "
    "/ first() / length test, copy_from_slice between two slices of the same constant length) or by an entry of the "
    "frozen justified table (reason + structural requirement re-evaluated on every run); anything else is a violation.")
DECIDED = ["R21 every panic-capable site reachable from the decoders is structurally safe or justified (PANIC)"]
UNDECIDED = ["correctness of the justified table itself (frozen with one reason per entry)",
             "stack exhaustion through deeply nested input"]

READY = True    # every residual site is triaged: justified below, or a reproduced genuine defect (known finding)

# The decoders share these sites with the open/read path: same reasons and structural requirements as in C07.
from rules import C07 as _c07     # noqa: E402
JUSTIFIED = {k: _c07.JUSTIFIED[k] for k in (
    "<std::time::SystemTime as agdb::utilities::serialize::Serialize>::deserialize|duration_new|",
    "agdb::db::db_value_index::DbValueIndex::value|index|[u8; 16][Range]",
    "agdb::storage::storage_records::StorageRecords::is_valid|index|Vec[usize]",
)}


# functions that bound the decoding depth (none today)
DEPTH_GUARDS = ()


def roots(fa):
    r = [b for b in fa.bodies.values() if b.crate == "agdb" and b.d.get("name") == "deserialize" and
         (b.d.get("impl_trait") or "").endswith("serialize::Serialize")]
    r += [b for b in fa.bodies.values() if b.crate == "agdb" and b.d.get("name") == "load" and
          (b.d.get("impl_trait") or "").endswith("VecValue")]
    r += [b for b in fa.bodies.values() if b.crate == "agdb" and b.d.get("name") == "try_from" and
          "DbValue" in (b.d.get("impl_trait_full") or "")]
    return r


def run(ctx):
    rs = roots(ctx.facts)
    ctx.floor("R21", "decoder entry points", len(rs), 70)
    seen, cg = run_panic_rule(ctx, "R21", rs, JUSTIFIED, overflow_fns=("::deserialize", "::load", "::try_from"), floor=100)
    # R21b: no unbounded recursion through the decoders (stack exhaustion on deeply nested input)
    from rules.panic_common import recursion_rule
    recursion_rule(ctx, "R21b", seen, cg, depth_guards=DEPTH_GUARDS)
    return 0
