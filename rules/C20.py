"""C20 — binary serialization round-trips and reports its exact size."""
from lib import cfg
from rules import common

EXPLANATION = (
    "Static analysis by table extraction from MIR, for EVERY `impl Serialize` (agdb::utilities::serialize::Serialize, "
    "re-exported as agdb::AgdbSerialize) of the workspace, hand-written and derive-expanded: (R20a) for product types the "
    "ordered list of fields emitted by `serialize` (extend/concat order), the ordered list of values decoded by "
    "`deserialize` (each decoded at the offset reached after the previous ones and moved into the same field) and the set "
    "of fields summed by `serialized_size` agree and cover every declared field; fixed-layout hand-written impls are "
    "evaluated symbolically (offset_k = sum of the static sizes of the preceding fields, serialized_size = the total); "
    "primitive, delegating and raw impls are checked against their shape; (R20b) for enums the tag byte written per variant "
    "equals the tag whose decoder arm builds that variant (derived: also = variant index; MapValueState; SystemTime sign "
    "byte) and the size/offset start after the tag; (R20c) String, Vec<u8>, Vec<T> write len() as prefix, size = "
    "prefix size + payload, and the decoder takes the payload at prefix size for len bytes/items; (R20d) in the derive "
    "macro the sizes/serializers/deserializers generators of each shape iterate the same field/variant sequence with "
    "no filtering adaptor and take the tag from the same enumerate index.")
DECIDED = ["R20a field agreement serialize / deserialize / serialized_size (TABLE, every impl)",
           "R20b enum tag agreement (TABLE)",
           "R20c length-prefixed impls: prefix = len(), size = prefix + payload",
           "R20d derive generators iterate the same sequence (SIBLING)",
           "R20e decoders accept the empty remainder (no `offset >= len` rejection in front of a range-from slice)"]
UNDECIDED = ["value equality after the round trip (needs execution)",
             "lossless-ness of the textual detours (PathBuf via to_string_lossy, SocketAddr/IpAddr via Display/FromStr)",
             "size_of::<T>() of all-u64 structs is assumed to be the sum of the field sizes (no padding)"]

S = "agdb::utilities::serialize::Serialize"
TRAITS = (S, "agdb::AgdbSerialize")
STATIC = "agdb::utilities::serialize::SerializeStatic"
STATICS = (STATIC, "agdb::AgdbSerializeStatic")
PRIM_SIZE = {"u64": 8, "i64": 8, "f64": 8, "usize": 8, "u32": 4, "i32": 4, "u8": 1, "bool": 1}
IMPL_FLOOR = 82          # 20 hand-written + 34 derived in agdb + 4 in agdb_api + 24 in agdb_server


class Unrec(Exception):
    """idiom not recognised"""


def last(p):
    return (p or "").split("::")[-1]


def tr_method(t, traits=TRAITS):
    d = cfg.callee_decl(t) or ""
    for tr in traits:
        if d.startswith(tr + "::"):
            return d[len(tr) + 2:]
    return None


def self_ty(full):
    """`<T as Trait>::m` -> T"""
    if not full or not full.startswith("<"):
        return None
    depth = 0
    for k, c in enumerate(full):
        if c == "<":
            depth += 1
        elif c == ">":
            depth -= 1
        elif depth == 1 and full.startswith(" as ", k):
            return full[1:k]
    return None


def generic_arg(full):
    if not full or not full.endswith(">"):
        return None
    depth = 0
    for k in range(len(full) - 1, -1, -1):
        c = full[k]
        if c == ">":
            depth += 1
        elif c == "<":
            depth -= 1
            if depth == 0:
                return full[k + 1:-1]
    return None


def dom_sorted(b, blocks):
    dom = cfg.dominators(b)
    bl = sorted(set(blocks), key=lambda x: len(dom.get(x, ())))
    for a, c in zip(bl, bl[1:]):
        if a not in dom.get(c, ()):
            raise Unrec("steps at bb%d and bb%d are not sequential (branching code)" % (a, c))
    return bl


def dominates(b, a, c):
    return a in cfg.dominators(b).get(c, ())


def self_key(b, op):
    o = cfg.op_origin(b, op)
    if o and o[0] == 1:
        return tuple(o[1])
    return None


def key_str(k):
    if k is None:
        return "?"
    out = "self"
    for e in k:
        out = "(%s %s)" % (out, e) if e.startswith("as ") else out + e
    return out


def inreg(region, i):
    return region is None or i in region


# ------------------------------------------------------------------ static evaluation

class Static:
    def __init__(self, fa):
        self.fa = fa
        self.cache = {}
        self.static_impls = {i["self"]: i for i in fa.impls if i.get("trait") in STATICS}

    def size_of(self, ty):
        if ty in PRIM_SIZE:
            return PRIM_SIZE[ty]
        if ty.startswith("(") and ty.endswith(")"):
            parts = [p.strip() for p in ty[1:-1].split(",") if p.strip()]
            ss = [self.size_of(p) for p in parts]
            return sum(ss) if ss and all(s is not None for s in ss) and len(set(ss)) == 1 else None
        adt = self.fa.adts.get(ty)
        if adt and adt["kind"] == "struct":
            ss = [self.size_of(f["ty"]) for f in adt["variants"][0]["fields"]]
            if ss and all(s is not None for s in ss) and len(set(ss)) == 1:
                return sum(ss)
        return None

    def static_size(self, ty):
        if ty in self.cache:
            return self.cache[ty]
        self.cache[ty] = None
        out = None
        for tr in STATICS:
            b = self.fa.body("<%s as %s>::serialized_size_static" % (ty, tr))
            if b:
                out = self.eval_ret(b)
                break
        else:
            if ty in self.static_impls:
                out = self.size_of(ty)      # default method: size_of::<Self>()
        self.cache[ty] = out
        return out

    def eval_ret(self, b):
        ds = [d for d in cfg.defs(b).get(0, [])]
        if len(ds) != 1:
            return None
        if ds[0][0] == "call":
            return self.eval_call(b, ds[0][2])
        if ds[0][0] == "assign":
            return self.eval_rv(b, ds[0][2], 0)
        return None

    def eval_call(self, b, t):
        m = tr_method(t, STATICS)
        full = cfg.callee_full(t) or ""
        if m == "serialized_size_static":
            ty = self_ty(full)
            return self.static_size(ty) if ty else None
        if cfg.callee_decl(t) in ("std::mem::size_of", "core::mem::size_of"):
            return self.size_of(generic_arg(full) or "")
        return None

    def eval_rv(self, b, r, depth):
        if r["k"] in ("use", "cast"):
            return self.eval_op(b, r["o"], depth + 1)
        if r["k"] == "bin":
            x, y = self.eval_op(b, r["a"], depth + 1), self.eval_op(b, r["b"], depth + 1)
            if x is None or y is None:
                return None
            if r["op"].startswith("Add"):
                return x + y
            if r["op"].startswith("Mul"):
                return x * y
        return None

    def eval_op(self, b, op, depth=0):
        c = cfg.op_const(op)
        if c is not None:
            return c.get("v")
        pl = cfg.op_place(op)
        if pl is None or depth > 12:
            return None
        if len(pl) > 1 and pl[1:] != [".0"]:
            return None
        ds = cfg.defs(b).get(pl[0], [])
        if len(ds) != 1:
            return None
        if ds[0][0] == "call":
            return self.eval_call(b, ds[0][2])
        if ds[0][0] == "assign":
            return self.eval_rv(b, ds[0][2], depth)
        return None


# ------------------------------------------------------------------ regions of a match

def excl_regions(b, sw_bb, t):
    reach = {v: cfg.reachable(b, [tb], avoid=[sw_bb])[0] for v, tb in t["ts"]}
    other = cfg.reachable(b, [t["else"]], avoid=[sw_bb])[0] if t.get("else") is not None else set()
    out = {}
    for v, r in reach.items():
        rest = set(other)
        for w, r2 in reach.items():
            if w != v:
                rest |= r2
        out[v] = r - rest
    return out


def self_discr_switch(b, adt):
    """switch on discr(*self): (bb, term, {val: variant name})"""
    for i, blk in enumerate(b.blocks):
        t = blk["term"]
        if t["k"] != "switch" or blk.get("cleanup"):
            continue
        pl = cfg.op_place(t["d"])
        ds = cfg.defs(b).get(pl[0], []) if pl else []
        if ds and ds[0][0] == "assign" and ds[0][2]["k"] == "discr" and ds[0][2].get("enum") == adt and \
                cfg.origin(b, ds[0][2]["p"])[0] == 1:
            return i, t, dict((v, n) for v, n in ds[0][2]["variants"])
    return None


def first_byte_switch(b):
    """`match bytes.first() { Some(k) => .. }`: (bb, term) of the switch over the byte value"""
    firsts = [t["d"][0] for i, t in cfg.calls(b) if last(cfg.callee(t)) == "first" and cfg.op_origin(b, t["a"][0]) and
              cfg.op_origin(b, t["a"][0])[0] == 1]
    for i, blk in enumerate(b.blocks):
        t = blk["term"]
        if t["k"] != "switch" or blk.get("cleanup"):
            continue
        pl = cfg.op_place(t["d"])
        if pl and pl[0] in firsts and pl[1:] == ["as Some", ".0", "*"]:
            return i, t
    return None


# ------------------------------------------------------------------ serialize: emission list

def emissions(b, region=None):
    """Ordered list of what `serialize` appends to its output inside `region`:
    ("byte", v) | ("field", key, T) | ("raw", description)"""
    all_rets = cfg.defs(b).get(0, [])
    out = []

    def item_of(op):
        c = cfg.op_const(op)
        if c is not None:
            return ("byte", c.get("v"))
        o = cfg.op_origin(b, op)
        if o is None:
            raise Unrec("emitted operand has no origin")
        dc = cfg.def_call(b, o[0])
        if dc and tr_method(dc[1]) == "serialize":
            k = self_key(b, dc[1]["a"][0])
            return _tail_item(b, dc[1])
        if dc:
            k = self_key(b, dc[1]["a"][0]) if dc[1]["a"] else None
            return ("raw", "%s(%s)" % (last(cfg.callee(dc[1])), key_str(k)))
        if o[0] == 1:
            return ("raw", key_str(tuple(o[1])))
        return ("raw", "_%d" % o[0])
    # (B) concat of an array of serialized parts
    conc = [(i, t) for i, t in cfg.calls(b) if last(cfg.callee(t)) == "concat" and t["d"] == [0]]
    if conc:
        o = cfg.op_origin(b, conc[0][1]["a"][0])
        ds = [d for d in cfg.defs(b).get(o[0], []) if d[0] == "assign"] if o else []
        if len(ds) != 1 or ds[0][2]["k"] != "agg" or ds[0][2].get("what") != "array":
            raise Unrec("concat() is not applied to an array literal")
        return [item_of(op) for op in ds[0][2]["ops"]]
    # (A) buffer returned by move, filled by extend/push
    bufs = [cfg.op_place(d[2]["o"])[0] for d in all_rets if d[0] == "assign" and d[2]["k"] == "use" and cfg.op_place(d[2]["o"])]
    if bufs and len(set(bufs)) == 1 and "Vec<u8>" in (b.local_ty(bufs[0]) or ""):
        buf = bufs[0]
        steps = []
        for i, t in cfg.calls(b):
            n = last(cfg.callee(t))
            if n in ("extend", "push", "extend_from_slice", "append") and t["a"] and \
                    cfg.op_origin(b, t["a"][0]) and cfg.op_origin(b, t["a"][0])[0] == buf and inreg(region, i):
                steps.append(i)
        other = [i for i, t in cfg.calls(b) if t["a"] and cfg.op_origin(b, t["a"][0]) and cfg.op_origin(b, t["a"][0])[0] == buf
                 and i not in steps and inreg(region, i) and last(cfg.callee(t)) not in ("with_capacity",)]
        if other:
            raise Unrec("output buffer also modified by %s" % [last(cfg.callee(b.blocks[i]["term"])) for i in other])
        for i in dom_sorted(b, steps):
            out.append(item_of(b.blocks[i]["term"]["a"][1]) + (i,))
        return [x[:-1] if x[0] != "field" else x[:3] for x in out]
    # (C) vec![..] literal / (E) to_vec of an array / (D) tail delegation
    calls0 = [(d[1], d[2]) for d in all_rets if d[0] == "call" and inreg(region, d[1])]
    if len(calls0) == 1:
        i, t = calls0[0]
        n = last(cfg.callee(t))
        if n == "box_assume_init_into_vec_unsafe":
            arrs = [s["r"] for bi, s in cfg.assigns(b) if inreg(region, bi) and s["r"]["k"] == "agg" and s["r"].get("what") == "array"
                    and "[u8;" in (b.local_ty(s["l"][0]) or "") + str(s["l"])]
            arrs = arrs or [s["r"] for bi, s in cfg.assigns(b) if inreg(region, bi) and s["r"]["k"] == "agg" and s["r"].get("what") == "array"]
            if len(arrs) != 1:
                raise Unrec("vec![..] literal not found")
            res = []
            for op in arrs[0]["ops"]:
                c = cfg.op_const(op)
                if c is not None:
                    res.append(("byte", c.get("v")))
                else:
                    o = cfg.op_origin(b, op)
                    if o and o[0] == 1:
                        res.append(("self-byte", tuple(o[1])))
                    else:
                        res.append(("raw", "_%d" % (o[0] if o else -1)))
            return res
        if tr_method(t) == "serialize":
            return [_tail_item(b, t)]
        if n == "to_vec":
            o = cfg.op_origin(b, t["a"][0])
            if o and o[0] == 1:
                return [("raw", key_str(tuple(o[1])))]
            dc = cfg.def_call(b, o[0]) if o else None
            if dc:
                return [("raw", "%s(%s)" % (last(cfg.callee(dc[1])), key_str(self_key(b, dc[1]["a"][0]))), cfg.callee_full(dc[1]))]
            return [("raw", "local:%s" % b.local_ty(o[0]))]
    raise Unrec("serialize output idiom not recognised (not a filled buffer, concat, vec![], to_vec or delegation)")


def _tail_item(b, t):
    k = self_key(b, t["a"][0])
    if k is not None:
        return ("field", k, self_ty(cfg.callee_full(t)))
    oo = cfg.op_origin(b, t["a"][0])
    chain = []
    cur = oo[0] if oo else None
    guard = 0
    while cur is not None and guard < 8:
        guard += 1
        ds = cfg.defs(b).get(cur, [])
        if len(ds) == 1 and ds[0][0] == "call":
            chain.append(last(cfg.callee(ds[0][2])))
            o2 = cfg.op_origin(b, ds[0][2]["a"][0]) if ds[0][2]["a"] else None
            if o2 and o2[0] == 1:
                chain.append(key_str(tuple(o2[1])))
                break
            cur = o2[0] if o2 else None
        elif len(ds) == 1 and ds[0][0] == "assign" and ds[0][2]["k"] == "cast" and self_key(b, ds[0][2]["o"]) is not None:
            chain.append("cast")
            chain.append(key_str(self_key(b, ds[0][2]["o"])))
            break
        else:
            break
    return ("expr", ".".join(chain), self_ty(cfg.callee_full(t)))


# ------------------------------------------------------------------ serialized_size: accumulated terms

def size_terms(b, region=None):
    """(init constant, [field keys]) for the accumulator idiom `let mut size = c; size += f.serialized_size(); .. size`"""
    rets = [d for d in cfg.defs(b).get(0, []) if d[0] == "assign" and d[2]["k"] == "use" and cfg.op_place(d[2]["o"])]
    if len(rets) != 1 or len(cfg.defs(b).get(0, [])) != 1:
        raise Unrec("serialized_size does not return an accumulator local")
    acc = cfg.op_place(rets[0][2]["o"])[0]
    inits = [cfg.op_const(d[2]["o"]).get("v") for d in cfg.defs(b).get(acc, [])
             if d[0] == "assign" and d[2]["k"] == "use" and cfg.op_const(d[2]["o"])]
    if len(inits) != 1:
        raise Unrec("size accumulator has %d constant initialisers" % len(inits))
    keys = []
    adds = []
    for bi, s in cfg.assigns(b):
        r = s["r"]
        if r["k"] == "bin" and r["op"].startswith("Add"):
            pa, pb = cfg.op_place(r["a"]), cfg.op_place(r["b"])
            if pa and pb and pa[0] == acc:
                adds.append((bi, pb[0], s["l"][0]))
            elif pa and pb and pb[0] == acc:
                adds.append((bi, pa[0], s["l"][0]))
    others = [bi for bi, s in cfg.assigns(b) if s["l"] == [acc] and not (s["r"]["k"] == "use" and (
        cfg.op_const(s["r"]["o"]) or (cfg.op_place(s["r"]["o"]) and cfg.op_place(s["r"]["o"])[0] in [a[2] for a in adds])))]
    if others:
        raise Unrec("size accumulator assigned by something other than `size += term`")
    added = {a[1]: a for a in adds}
    for i, t in cfg.calls(b):
        if tr_method(t) != "serialized_size":
            continue
        k = self_key(b, t["a"][0])
        if k is None:
            raise Unrec("serialized_size() of something that is not a field of self at bb%d" % i)
        if t["d"][0] not in added:
            raise Unrec("size of %s is computed but not added to the total" % key_str(k))
        if inreg(region, i):
            keys.append(k)
    n_calls = len([1 for i, t in cfg.calls(b) if tr_method(t) == "serialized_size"])
    if len(adds) != n_calls:
        raise Unrec("%d additions to the total but %d field sizes" % (len(adds), n_calls))
    return inits[0], keys


# ------------------------------------------------------------------ value chasing

def chase(b, op, depth=0, suffix=()):
    """follow single-definition copies/casts/refs (named or not); returns ('call', bb, term, proj) | ('bin', rvalue) |
    ('local', n, proj) | ('const', v) | ('param', n, proj)"""
    c = cfg.op_const(op)
    if c is not None:
        return ("const", c.get("v"))
    pl = cfg.op_place(op)
    if pl is None or depth > 16:
        return ("?",)
    proj = tuple(e for e in pl[1:] if e != "*") + tuple(suffix)
    ds = cfg.defs(b).get(pl[0], [])
    if pl[0] <= b.d["argc"] and pl[0] != 0:
        return ("param", pl[0], proj)
    if len(ds) != 1:
        return ("local", pl[0], proj)
    d = ds[0]
    if d[0] == "call":
        return ("call", d[1], d[2], proj)
    if d[0] == "assign":
        r = d[2]
        if r["k"] in ("use", "cast"):
            return chase(b, r["o"], depth + 1, proj)
        if r["k"] == "ref":
            return chase(b, {"cp": r["p"]}, depth + 1, proj)
        if r["k"] == "bin":
            return ("bin", r)
    return ("local", pl[0], proj)


WRAPPERS = ("branch", "ok_or_else", "ok_or", "map_err")


def unwrap(b, op):
    """chase, looking through `?`, ok_or_else(..), map_err(..)"""
    c = chase(b, op)
    guard = 0
    while c[0] == "call" and last(cfg.callee(c[2])) in WRAPPERS and c[2]["a"] and guard < 8:
        guard += 1
        c = chase(b, c[2]["a"][0])
    return c


def as_add(b, op):
    """operands of `x + y` / x.checked_add(y)? / x.saturating_add(y), else None"""
    c = unwrap(b, op)
    if c[0] == "bin" and c[1]["op"].startswith("Add"):
        return c[1]["a"], c[1]["b"]
    if c[0] == "call" and last(cfg.callee(c[2])) in ("checked_add", "saturating_add") and len(c[2]["a"]) == 2:
        return c[2]["a"][0], c[2]["a"][1]
    return None


def slice_from(b, op):
    """if op is `&bytes[start..]` / `bytes.get(start..).ok_or_else(..)?` of parameter 1: the `start` operand; if it is
    `bytes` itself: the constant 0; else None"""
    c = unwrap(b, op)
    if c[0] == "param" and c[1] == 1 and not c[2]:
        return {"k": {"v": 0}}
    if c[0] == "call" and last(cfg.callee_decl(c[2])) in ("index", "get") and chase(b, c[2]["a"][0])[:2] == ("param", 1):
        ro = cfg.op_origin(b, c[2]["a"][1])
        ds = [d for d in cfg.defs(b).get(ro[0], []) if d[0] == "assign"] if ro else []
        if len(ds) == 1 and ds[0][2]["k"] == "agg" and last(ds[0][2].get("adt")) == "RangeFrom":
            return ds[0][2]["ops"][0]
    return None


# ------------------------------------------------------------------ deserialize: decoded sequence

def de_sequence(b, st, region=None):
    """Ordered decode steps in region: list of dict(T, off=('const',n)|('dyn',local), der, bb); plus dyn offset init."""
    calls = [(i, t) for i, t in cfg.calls(b) if tr_method(t) == "deserialize" and inreg(region, i)]
    order = dom_sorted(b, [i for i, t in calls])
    steps = []
    for i in order:
        t = b.blocks[i]["term"]
        T = self_ty(cfg.callee_full(t))
        off = None
        start = slice_from(b, t["a"][0])
        if start is not None:
            v = st.eval_op(b, start)
            if v is not None:
                off = ("const", v)
            else:
                so = chase(b, start)
                if so[0] == "local" and not so[2]:
                    off = ("dyn", so[1])
        if off is None:
            raise Unrec("input slice of the %s decode at bb%d is neither `bytes` nor `&bytes[offset..]`" % (T, i))
        steps.append({"T": T, "off": off, "der": cfg.derived_locals(b, [t["d"][0]]), "bb": i, "dest": t["d"][0]})
    dyn = {s["off"][1] for s in steps if s["off"][0] == "dyn"}
    init = None
    if dyn:
        if len(dyn) != 1 or any(s["off"][0] != "dyn" for s in steps):
            raise Unrec("decode steps use different offset variables")
        O = dyn.pop()
        inits = [(d[1], cfg.op_const(d[2]["o"]).get("v")) for d in cfg.defs(b).get(O, [])
                 if d[0] == "assign" and d[2]["k"] == "use" and cfg.op_const(d[2]["o"]) and inreg(region, d[1])]
        if len(inits) != 1 or not dominates(b, inits[0][0], steps[0]["bb"]) and inits[0][0] != steps[0]["bb"]:
            # the initialiser may sit in the same block chain before the first call
            if len(inits) != 1:
                raise Unrec("offset variable has %d constant initialisers" % len(inits))
        init = inits[0][1]
        # increments: offset += serialized_size(&value_j) between decode j and decode j+1
        incs = []
        for bi, s in cfg.assigns(b):
            r = s["r"]
            if r["k"] == "bin" and r["op"].startswith("Add") and inreg(region, bi):
                pa, pb = cfg.op_place(r["a"]), cfg.op_place(r["b"])
                if pa and pb and pa[0] == O:
                    incs.append((bi, pb[0]))
                elif pa and pb and pb[0] == O:
                    incs.append((bi, pa[0]))
        if len(incs) != len(steps):
            raise Unrec("%d decode steps but %d offset increments" % (len(steps), len(incs)))
        for j, s in enumerate(steps):
            hit = None
            for bi, term_local in incs:
                dc = cfg.def_call(b, term_local)
                if dc and tr_method(dc[1]) == "serialized_size":
                    oo = cfg.op_origin(b, dc[1]["a"][0])
                    if oo and oo[0] in s["der"] and not any(oo[0] in s2["der"] for s2 in steps if s2 is not s):
                        hit = bi
            if hit is None:
                raise Unrec("offset is not advanced by the size of decoded value #%d" % j)
            if not dominates(b, s["bb"], hit) or (j + 1 < len(steps) and not dominates(b, hit, steps[j + 1]["bb"])):
                raise Unrec("offset increment for value #%d is not between decode #%d and #%d" % (j, j, j + 1))
    return steps, init


def map_fields(b, agg, steps, prefix=()):
    """decode step index -> key of the field (of the constructed value) it is moved into"""
    out = {}
    fields = agg.get("fields") or [str(k) for k in range(len(agg["ops"]))]
    for fname, op in zip(fields, agg["ops"]):
        key = prefix + ("." + fname,)
        pl = cfg.op_place(op)
        if pl is None:
            raise Unrec("field %s is initialised by a constant, not decoded" % "".join(key))
        root = cfg.origin(b, pl)[0]
        ds = [d for d in cfg.defs(b).get(root, []) if d[0] == "assign"]
        if len(ds) == 1 and ds[0][2]["k"] == "agg" and ds[0][2].get("what") == "tuple":
            sub = dict(ds[0][2])
            sub["fields"] = [str(k) for k in range(len(sub["ops"]))]
            out.update(map_fields(b, sub, steps, key))
            continue
        js = [j for j, s in enumerate(steps) if root in s["der"]]
        if len(js) != 1:
            raise Unrec("field %s is not the result of exactly one decode step (%s)" % ("".join(key), js))
        if js[0] in out:
            raise Unrec("decode step #%d feeds two fields" % js[0])
        out[js[0]] = key
    return out


def self_aggs(b, adt, region=None):
    return [(bi, s["r"]) for bi, s in cfg.assigns(b) if inreg(region, bi) and s["r"]["k"] == "agg" and
            s["r"].get("what") == "adt" and s["r"].get("adt") == adt]


def declared_keys(fa, st, adt, vname, prefix=()):
    """flattened leaf keys of a variant's fields (tuples of serializable leaves are flattened on demand by the caller)"""
    a = fa.adts.get(adt)
    if not a:
        return None
    for v in a["variants"]:
        if v["name"] == vname:
            return [(prefix + ("." + f["name"],), f["ty"]) for f in v["fields"]]
    return None


# ------------------------------------------------------------------ product check (struct or one enum variant)

def check_product(fa, st, adt, vname, ser_items, size_keys, steps, fmap, prefix=()):
    """returns (ok, detail)"""
    ser_keys = []
    for it in ser_items:
        if it[0] != "field":
            return False, "serialize emits %s which is not a field of self" % (it,)
        ser_keys.append(it[1])
    de_keys = [prefix + fmap[j] if j in fmap else None for j in range(len(steps))]
    if None in de_keys:
        return False, "decoded value #%d is not moved into the result" % de_keys.index(None)
    if len(ser_keys) != len(de_keys) or ser_keys != de_keys:
        return False, "serialize writes %s but deserialize reads %s (in this order)" % (
            [key_str(k) for k in ser_keys], [key_str(k) for k in de_keys])
    if len(set(ser_keys)) != len(ser_keys):
        return False, "a field is serialized twice: %s" % [key_str(k) for k in ser_keys]
    if size_keys is not None and sorted(size_keys) != sorted(ser_keys):
        return False, "serialized_size sums %s but serialize writes %s" % (
            sorted(key_str(k) for k in size_keys), sorted(key_str(k) for k in ser_keys))
    decl = declared_keys(fa, st, adt, vname, prefix)
    if decl is None:
        return False, "type %s::%s not found in the ADT table" % (adt, vname)
    top = []
    for k in ser_keys:
        t = k[:len(prefix) + 1]
        if t not in top:
            top.append(t)
    if sorted(top) != sorted(k for k, ty in decl):
        return False, "serialized fields %s do not cover the declared fields %s" % (
            [key_str(k) for k in top], [key_str(k) for k, ty in decl])
    dty = dict(decl)
    for j, s in enumerate(steps):
        k = de_keys[j]
        if len(k) == len(prefix) + 1 and dty.get(k) is not None and s["T"] != dty[k] and ser_items[j][2] != s["T"]:
            return False, "field %s is written as %s but decoded as %s" % (key_str(k), ser_items[j][2], s["T"])
        if ser_items[j][2] != s["T"]:
            return False, "field %s is written as %s but decoded as %s" % (key_str(k), ser_items[j][2], s["T"])
    return True, "%d fields %s in the same order in serialize/deserialize, same set in serialized_size" % (
        len(ser_keys), [key_str(k) for k in ser_keys])


# ------------------------------------------------------------------ impl inventory

def serialize_impls(fa):
    out = []
    for i in fa.impls:
        tr = i.get("trait") or ""
        if tr in TRAITS:
            items = dict((n, p) for n, p in i["items"])
            out.append({"self": i["self"], "adt": i.get("self_adt"), "crate": i.get("crate"), "file": i.get("file"),
                        "line": i.get("line"), "derived": "DbSerialize" in (i.get("x") or ""), "items": items, "trait": tr})
    return out


def unknown_aliases(fa):
    out = []
    for i in fa.impls:
        tr = i.get("trait") or ""
        if tr in TRAITS or "serde" in tr:
            continue
        if last(tr) in ("Serialize", "AgdbSerialize"):
            out.append((i["self"], tr))
    return out


def bodies_of(ctx, rule, imp):
    bs = {}
    for m in ("serialize", "deserialize", "serialized_size"):
        p = imp["items"].get(m)
        b = ctx.facts.body(p) if p else None
        if b is not None:
            from lib import inline
            b = inline.inlined(ctx.facts, b)       # extracted helpers folded in, for_each / fold closures as loops
        if b is None:
            ctx.ob(rule, "%s:%s" % (imp["self"], m), False,
                   "impl Serialize for %s has no body for `%s` in the facts" % (imp["self"], m),
                   "%s:%s" % (imp["file"], imp["line"]))
            return None
        bs[m] = b
    return bs


# ------------------------------------------------------------------ generic struct / enum analysis

def analyse_struct(ctx, fa, st, imp, bs):
    adt = imp["adt"]
    a = fa.adts.get(adt)
    vname = a["variants"][0]["name"]
    ser = emissions(bs["serialize"])
    c0, size_keys = size_terms(bs["serialized_size"])
    steps, init = de_sequence(bs["deserialize"], st)
    aggs = self_aggs(bs["deserialize"], adt)
    if len(aggs) != 1:
        raise Unrec("deserialize constructs %d values of %s" % (len(aggs), adt))
    fmap = map_fields(bs["deserialize"], aggs[0][1], steps)
    ok, detail = check_product(fa, st, adt, vname, ser, size_keys, steps, fmap)
    if ok and (c0 != 0 or (init or 0) != 0):
        ok, detail = False, "struct size starts at %s and decode offset at %s (expected 0/0)" % (c0, init)
    return ok, detail


def analyse_enum(ctx, fa, st, imp, bs, rule_tag="R20b"):
    """returns list of (rule, instance-suffix, ok, detail)"""
    adt = imp["adt"]
    a = fa.adts.get(adt)
    res = []
    sb, zb, db = bs["serialize"], bs["serialized_size"], bs["deserialize"]
    ssw = self_discr_switch(sb, adt)
    if not ssw:
        raise Unrec("serialize has no `match self`")
    sregs = excl_regions(sb, ssw[0], ssw[1])
    zsw = self_discr_switch(zb, adt)
    zconst = None
    if zsw:
        zregs = excl_regions(zb, zsw[0], zsw[1])
        znames = zsw[2]
    else:
        zconst = st.eval_ret(zb)
        if zconst is None:
            raise Unrec("serialized_size is neither `match self` nor a constant")
    dsw = first_byte_switch(db)
    if not dsw:
        raise Unrec("deserialize has no `match bytes.first()`")
    dregs = excl_regions(db, dsw[0], dsw[1])
    # reader table: tag -> variant
    rd = {}
    for tag, reg in dregs.items():
        ags = self_aggs(db, adt, reg)
        rd[tag] = (ags, reg)
    by_variant = {}
    for tag, (ags, reg) in rd.items():
        for bi, r in ags:
            by_variant.setdefault(r["variant"], []).append(tag)
    # default arm constructs nothing
    dflt = cfg.reachable(db, [dsw[1]["else"]], avoid=[dsw[0]])[0] if dsw[1].get("else") is not None else set()
    for v, tb in dsw[1]["ts"]:
        dflt = dflt - cfg.reachable(db, [tb], avoid=[dsw[0]])[0]
    if self_aggs(db, adt, dflt):
        res.append(("R20b", "default", False, "the default arm of deserialize constructs a %s" % last(adt)))
    for v in a["variants"]:
        vname, vidx = v["name"], v["idx"]
        vals = [val for val, n in ssw[2].items() if n == vname]
        if len(vals) != 1 or vals[0] not in sregs:
            res.append(("R20b", vname, False, "serialize has no arm for variant %s" % vname))
            continue
        sreg = sregs[vals[0]]
        try:
            items = emissions(sb, sreg)
        except Unrec as e:
            res.append(("R20b", vname, False, "serialize arm of %s: %s" % (vname, e)))
            continue
        tags = [it[1] for it in items if it[0] == "byte"]
        if len(tags) != 1 or items[0][0] != "byte":
            res.append(("R20b", vname, False, "variant %s does not start with exactly one tag byte: %s" % (vname, items)))
            continue
        wtag = tags[0]
        rtags = by_variant.get(vname, [])
        okt = rtags == [wtag] and len(rd[wtag][0]) == 1
        if imp["derived"]:
            okt = okt and wtag == vidx
        res.append(("R20b", vname, okt,
                    "tag %s written and matched for %s%s" % (wtag, vname, " (= variant index)" if imp["derived"] else "") if okt else
                    "variant %s is written with tag %s but deserialize builds %s for tag(s) %s%s: it reads back as %s" % (
                        vname, wtag, vname, rtags, " (variant index %s)" % vidx if imp["derived"] else "",
                        [r["variant"] for bi, r in rd.get(wtag, ([], None))[0]] or "an error")))
        if not okt:
            continue
        # payload agreement
        dreg = rd[wtag][1]
        fields = items[1:]
        try:
            steps, init = de_sequence(db, st, dreg)
            fmap = map_fields(db, rd[wtag][0][0][1], steps)
            if zconst is None:
                zvals = [val for val, n in znames.items() if n == vname]
                c0, size_keys = size_terms(zb, zregs[zvals[0]]) if zvals and zvals[0] in zregs else (None, None)
                if size_keys is None:
                    raise Unrec("serialized_size has no arm for %s" % vname)
            else:
                c0, size_keys = zconst, []
            okp, detail = check_product(fa, st, adt, vname, fields, size_keys, steps, fmap, prefix=("as " + vname,))
            if okp:
                if c0 != 1:
                    okp, detail = False, "size of %s starts at %s but 1 tag byte is written" % (vname, c0)
                elif steps and init != 1 and not all(s["off"][0] == "const" for s in steps):
                    okp, detail = False, "payload of %s is decoded from offset %s but 1 tag byte is written" % (vname, init)
        except Unrec as e:
            okp, detail = False, "variant %s: idiom not recognised: %s" % (vname, e)
        res.append(("R20a", vname, okp, detail))
    extra = sorted(set(rd) - {r for rs in by_variant.values() for r in rs})
    if extra:
        res.append(("R20b", "extra-tags", False, "deserialize matches tag(s) %s that construct nothing" % extra))
    return res


# ------------------------------------------------------------------ hand-written shapes

def size_tail(b):
    ds = cfg.defs(b).get(0, [])
    if len(ds) == 1 and ds[0][0] == "call" and tr_method(ds[0][2]) == "serialized_size":
        return _tail_item(b, ds[0][2])
    return None


def result_value(b):
    """locals wrapped into the Ok(..) results of a deserialize body"""
    out = []
    for bi, s in cfg.assigns(b):
        r = s["r"]
        if s["l"] == [0] and r["k"] == "agg" and r.get("variant") == "Ok" and r["ops"]:
            o = cfg.op_origin(b, r["ops"][0])
            if o:
                out.append(o[0])
    return out


def shape_static_struct(ctx, fa, st, imp, bs):
    adt = imp["adt"]
    ser = emissions(bs["serialize"])
    if any(it[0] != "field" for it in ser):
        raise Unrec("serialize emits non-field items %s" % ser)
    steps, init = de_sequence(bs["deserialize"], st)
    if any(s["off"][0] != "const" for s in steps):
        raise Unrec("offsets are not compile-time constants")
    aggs = self_aggs(bs["deserialize"], adt)
    if len(aggs) != 1:
        raise Unrec("deserialize constructs %d values of %s" % (len(aggs), adt))
    fmap = map_fields(bs["deserialize"], aggs[0][1], steps)
    vname = fa.adts[adt]["variants"][0]["name"]
    ok, detail = check_product(fa, st, adt, vname, ser, None, steps, fmap)
    if not ok:
        return ok, detail
    sizes = [st.static_size(it[2]) for it in ser]
    if any(x is None for x in sizes):
        return False, "static size of %s unknown" % [it[2] for it, x in zip(ser, sizes) if x is None]
    acc = 0
    for j, s in enumerate(steps):
        if s["off"][1] != acc:
            return False, "field %s (#%d) is written at byte %d but decoded from byte %d" % (
                key_str(ser[j][1]), j, acc, s["off"][1])
        acc += sizes[j]
    total = st.eval_ret(bs["serialized_size"])
    if total != acc:
        return False, "serialize writes %d bytes (%s) but serialized_size reports %s" % (
            acc, "+".join(str(x) for x in sizes), total)
    return True, "%d fields %s at offsets %s, serialized_size = %d" % (
        len(ser), [key_str(it[1]) for it in ser], [s["off"][1] for s in steps], total)


def shape_newtype(ctx, fa, st, imp, bs):
    adt = imp["adt"]
    ser = emissions(bs["serialize"])
    if len(ser) != 1 or ser[0][0] != "field" or ser[0][1] != (".0",):
        raise Unrec("serialize is not `self.0.serialize()`: %s" % ser)
    T = ser[0][2]
    zt = size_tail(bs["serialized_size"])
    if not zt or zt[0] != "field" or zt[1] != (".0",) or zt[2] != T:
        return False, "serialized_size is %s but serialize writes self.0 as %s" % (zt, T)
    steps, init = de_sequence(bs["deserialize"], st)
    if len(steps) != 1 or steps[0]["off"] != ("const", 0) or steps[0]["T"] != T:
        return False, "deserialize decodes %s, serialize writes one %s at offset 0" % ([(s["T"], s["off"]) for s in steps], T)
    aggs = self_aggs(bs["deserialize"], adt)
    db = bs["deserialize"]
    if len(aggs) == 1:
        fmap = map_fields(db, aggs[0][1], steps)
        if fmap != {0: (".0",)}:
            return False, "decoded value is not moved into self.0"
    else:
        # constructor call `Self::from(inner)` whose body is a field move
        rv = result_value(db)
        good = False
        for r0 in rv:
            dc = cfg.def_call(db, r0)
            if dc and dc[1]["a"] and cfg.op_origin(db, dc[1]["a"][0]) and cfg.op_origin(db, dc[1]["a"][0])[0] in steps[0]["der"]:
                cb = fa.body(cfg.callee(dc[1]) or "")
                if cb is not None:
                    ag = self_aggs(cb, adt)
                    good = len(ag) == 1 and len(ag[0][1]["ops"]) == 1 and cfg.op_origin(cb, ag[0][1]["ops"][0]) and \
                        cfg.op_origin(cb, ag[0][1]["ops"][0])[0] == 1 and not [1 for i, t in cfg.calls(cb)]
        if not good:
            return False, "decoded value does not become self.0 (no constructor recognised)"
    # static size, when declared, equals the inner one
    ss, si = st.static_size(imp["self"]), st.static_size(T)
    if imp["self"] in st.static_impls and ss != si:
        return False, "static size %s differs from the inner %s static size %s" % (ss, T, si)
    return True, "newtype over %s: serialize/deserialize/serialized_size all delegate to self.0" % T


def prim_of(full):
    if full and "<impl " in full:
        return full.split("<impl ", 1)[1].split(">", 1)[0]
    return None


def shape_prim(ctx, fa, st, imp, bs):
    T = imp["self"]
    sb, db = bs["serialize"], bs["deserialize"]
    enc = [t for i, t in cfg.calls(sb) if last(cfg.callee(t)) == "to_le_bytes"]
    tv = [t for i, t in cfg.calls(sb) if last(cfg.callee(t)) == "to_vec" and t["d"] == [0]]
    if len(enc) != 1 or len(tv) != 1 or len(cfg.calls(sb)) != 2:
        raise Unrec("serialize is not `self.to_le_bytes().to_vec()`")
    if prim_of(cfg.callee_full(enc[0])) != T or self_key(sb, enc[0]["a"][0]) != () or \
            cfg.op_origin(sb, tv[0]["a"][0])[0] != enc[0]["d"][0]:
        return False, "serialize encodes %s of %s" % (prim_of(cfg.callee_full(enc[0])), cfg.op_origin(sb, enc[0]["a"][0]))
    arr = sb.local_ty(enc[0]["d"][0]) or ""
    n = int(arr.split(";")[1].strip(" ]")) if arr.startswith("[u8;") else None
    dec = [t for i, t in cfg.calls(db) if last(cfg.callee(t)) == "from_le_bytes"]
    if len(dec) != 1 or prim_of(cfg.callee_full(dec[0])) != T:
        return False, "deserialize decodes with %s, serialize encodes %s::to_le_bytes" % (
            [cfg.callee_full(t) for t in dec], T)
    gets = [t for i, t in cfg.calls(db) if last(cfg.callee(t)) == "get" and cfg.op_origin(db, t["a"][0])[0] == 1]
    rng = None
    if len(gets) == 1:
        ro = cfg.op_origin(db, gets[0]["a"][1])
        ds = [d for d in cfg.defs(db).get(ro[0], []) if d[0] == "assign"]
        if len(ds) == 1 and ds[0][2]["k"] == "agg" and last(ds[0][2].get("adt")) == "Range":
            rng = (st.eval_op(db, ds[0][2]["ops"][0]), st.eval_op(db, ds[0][2]["ops"][1]))
    # the decoded array comes from that slice (through `?` and try_into)
    flows = bool(gets) and cfg.op_origin(db, dec[0]["a"][0]) and cfg.op_origin(db, dec[0]["a"][0])[0] in \
        cfg.derived_locals(db, [gets[0]["d"][0]], extra_through=("std::option::Option::ok_or_else", "std::convert::TryInto::try_into",
                                                                  "<T as std::convert::TryInto<U>>::try_into"))
    size = st.eval_ret(bs["serialized_size"])
    ok = rng == (0, n) and size == n and n == PRIM_SIZE.get(T)
    if not ok:
        return False, "%s: to_le_bytes gives %s bytes, deserialize takes bytes %s, serialized_size = %s" % (T, n, rng, size)
    if not flows:
        return False, "%s::deserialize: the decoded array is not the checked prefix bytes.get(0..%d)" % (T, n)
    return True, "%s: to_le_bytes (%d bytes) / from_le_bytes(bytes.get(0..%d)) / size %d" % (T, n, n, size)


def shape_usize(ctx, fa, st, imp, bs):
    ser = emissions(bs["serialize"])
    if ser != [("field", (), "u64")]:
        raise Unrec("serialize is not `(*self as u64).serialize()`: %s" % ser)
    steps, init = de_sequence(bs["deserialize"], st)
    if len(steps) != 1 or steps[0]["T"] != "u64" or steps[0]["off"] != ("const", 0):
        return False, "deserialize decodes %s, serialize writes one u64" % [(s["T"], s["off"]) for s in steps]
    db = bs["deserialize"]
    conv = [t for i, t in cfg.calls(db) if last(cfg.callee(t)) in ("try_from", "try_into") and
            cfg.op_origin(db, t["a"][0]) and cfg.op_origin(db, t["a"][0])[0] in steps[0]["der"]]
    if not conv:
        return False, "decoded u64 is not converted to usize"
    size = st.eval_ret(bs["serialized_size"])
    if size != st.static_size("u64"):
        return False, "serialized_size = %s but a u64 (%s bytes) is written" % (size, st.static_size("u64"))
    return True, "usize as u64: serialize casts, deserialize u64 + try_from, size %d" % size


def shape_bool(ctx, fa, st, imp, bs):
    ser = emissions(bs["serialize"])
    if ser != [("self-byte", ())]:
        raise Unrec("serialize is not `vec![*self as u8]`: %s" % ser)
    db = bs["deserialize"]
    first = [t for i, t in cfg.calls(db) if last(cfg.callee(t)) == "first" and cfg.op_origin(db, t["a"][0])[0] == 1]
    ne0 = False
    for cb in [db] + fa.closures_of(db.path):
        for bi, s in cfg.assigns(cb):
            r = s["r"]
            if r["k"] == "bin" and r["op"] == "Ne" and cfg.op_const(r["b"]) and cfg.op_const(r["b"]).get("v") == 0:
                ne0 = True
    size = st.eval_ret(bs["serialized_size"])
    ok = len(first) == 1 and ne0 and size == 1
    return ok, ("bool: one byte, decoded as bytes.first() != 0, size 1" if ok else
                "bool: first() x%d, `!= 0` %s, serialized_size %s" % (len(first), ne0, size))


def shape_via_string(ctx, fa, st, imp, bs):
    ser = emissions(bs["serialize"])
    if len(ser) != 1 or ser[0][0] != "expr" or ser[0][2] != "std::string::String":
        raise Unrec("serialize does not delegate to String::serialize: %s" % ser)
    zt = size_tail(bs["serialized_size"])
    if zt != ser[0]:
        return False, "serialize writes String `%s` but serialized_size measures `%s`" % (ser[0][1], zt and zt[1])
    steps, init = de_sequence(bs["deserialize"], st)
    if len(steps) != 1 or steps[0]["T"] != "std::string::String" or steps[0]["off"] != ("const", 0):
        return False, "deserialize decodes %s, serialize writes one String" % [(s["T"], s["off"]) for s in steps]
    db = bs["deserialize"]
    conv = [last(cfg.callee(t)) for i, t in cfg.calls(db) if last(cfg.callee(t)) in ("parse", "from") and t["a"] and
            cfg.op_origin(db, t["a"][0]) and cfg.op_origin(db, t["a"][0])[0] in steps[0]["der"]]
    if not conv:
        return False, "decoded String is not converted back (parse/from)"
    return True, "String detour `%s`: same expression serialized and measured; decoded with String::deserialize + %s" % (
        ser[0][1], conv[0])


def shape_raw_array(ctx, fa, st, imp, bs):
    adt = fa.adts.get(imp["adt"])
    f = adt["variants"][0]["fields"]
    if len(f) != 1 or not f[0]["ty"].startswith("[u8;"):
        raise Unrec("not a single [u8; N] field")
    n = int(f[0]["ty"].split(";")[1].strip(" ]"))
    key = ("." + f[0]["name"],)
    ser = emissions(bs["serialize"])
    if ser != [("raw", key_str(key))]:
        raise Unrec("serialize is not `self.%s.to_vec()`: %s" % (f[0]["name"], ser))
    db = bs["deserialize"]
    lim = [cfg.op_const(s["r"]["b"]).get("v") for bi, s in cfg.assigns(db) if s["r"]["k"] == "bin" and s["r"]["op"] == "Lt"
           and cfg.op_const(s["r"]["b"]) and cfg.def_call(db, cfg.op_place(s["r"]["a"])[0]) and
           last(cfg.callee(cfg.def_call(db, cfg.op_place(s["r"]["a"])[0])[1])) == "len"]
    rngs = [(st.eval_op(db, s["r"]["ops"][0]), st.eval_op(db, s["r"]["ops"][1])) for bi, s in cfg.assigns(db)
            if s["r"]["k"] == "agg" and last(s["r"].get("adt")) == "Range"]
    cps = [t for i, t in cfg.calls(db) if last(cfg.callee(t)) == "copy_from_slice"]
    into_field = bool(cps) and cfg.op_origin(db, cps[0]["a"][0]) and tuple(cfg.op_origin(db, cps[0]["a"][0])[1]) == key
    size = st.eval_ret(bs["serialized_size"])
    ok = lim == [n] and rngs == [(0, n)] and into_field and size == n
    return ok, ("raw [u8; %d]: to_vec / len >= %d then copy of bytes[0..%d] into the field / size %d" % (n, n, n, n) if ok else
                "array is %d bytes, deserialize requires %s and copies %s (into the field: %s), serialized_size %s" % (
                    n, lim, rngs, into_field, size))


# ------------------------------------------------------------------ R20c length-prefixed impls

def is_len_of_self(b, op):
    c = chase(b, op)
    if c[0] == "call" and last(cfg.callee(c[2])) == "len":
        k = chase(b, c[2]["a"][0])
        return k[0] == "param" and k[1] == 1
    return False


def is_prefix_size_of(b, op, pred):
    """op == <usize as Serialize>::serialized_size(&x) with pred(x operand)"""
    c = chase(b, op)
    return c[0] == "call" and tr_method(c[2]) == "serialized_size" and self_ty(cfg.callee_full(c[2])) == "usize" and pred(c[2]["a"][0])


def from_self(b, op, depth=0):
    """operand is `self` (parameter 1), possibly through deref / as_slice / iter-adaptor-free borrows"""
    c = chase(b, op)
    if c[:2] == ("param", 1):
        return True
    if c[0] == "call" and depth < 4 and c[2]["a"] and (cfg.callee(c[2]) or "").endswith(
            ("Deref>::deref", "Deref::deref", "::as_slice", "::as_ref", "::borrow")):
        return from_self(b, c[2]["a"][0], depth + 1)
    return False


def shape_lenprefix(ctx, fa, st, imp, bs):
    """returns list of (instance, ok, detail)"""
    res = []
    sb, zb, db = bs["serialize"], bs["serialized_size"], bs["deserialize"]
    items_kind = "items" if imp["self"] == "std::vec::Vec<T>" else "bytes"
    ser = emissions(sb)
    ok = len(ser) == 2 and ser[0] == ("expr", "len.self", "usize")
    res.append(("prefix", ok, "first emission is self.len() serialized as usize" if ok else
                "serialize does not start with self.len() as usize: %s" % (ser,)))
    if items_kind == "bytes":
        okp = len(ser) == 2 and ser[1] in (("raw", "as_bytes(self)"), ("raw", "self"))
        res.append(("payload", okp, "payload = the bytes of self (%s)" % (ser[1][1] if okp else "")
                    if okp else "payload emission is %s" % (ser[1:],)))
        # size = prefix size + len
        adds = [s["r"] for bi, s in cfg.assigns(zb) if s["r"]["k"] == "bin" and s["r"]["op"].startswith("Add")]
        okz = len(adds) == 1 and len([1 for i, t in cfg.calls(zb) if tr_method(t) == "serialized_size"]) == 1
        if okz:
            a, c = adds[0]["a"], adds[0]["b"]
            okz = (is_prefix_size_of(zb, a, lambda x: is_len_of_self(zb, x)) and is_len_of_self(zb, c)) or \
                  (is_prefix_size_of(zb, c, lambda x: is_len_of_self(zb, x)) and is_len_of_self(zb, a))
            ret = chase(zb, {"cp": [0]})
            okz = okz and ret[0] == "bin" and ret[1] is adds[0]
        res.append(("size", okz, "serialized_size = self.len().serialized_size() + self.len()" if okz else
                    "serialized_size is not `prefix size + len()`"))
        # decode: len at 0; payload = bytes.get(prefix_size .. prefix_size + len)
        des = [(i, t) for i, t in cfg.calls(db) if tr_method(t) == "deserialize"]
        okd = len(des) == 1 and self_ty(cfg.callee_full(des[0][1])) == "usize" and \
            chase(db, des[0][1]["a"][0])[:2] == ("param", 1)
        detail = "prefix is not decoded with usize::deserialize(bytes)"
        if okd:
            der = cfg.derived_locals(db, [des[0][1]["d"][0]])

            def is_len(op):
                pl = cfg.op_place(op)
                cc = chase(db, op)
                return (pl is not None and pl[0] in der) or (cc[0] == "local" and cc[1] in der) or \
                    (cc[0] == "call" and cc[1] == des[0][0]) or \
                    (cc[0] == "call" and (cfg.callee(cc[2]) or "").endswith("Try>::branch") and cfg.op_place(cc[2]["a"][0])[0] in der)
            gets = [t for i, t in cfg.calls(db) if last(cfg.callee(t)) == "get" and chase(db, t["a"][0])[:2] == ("param", 1)]
            okd = len(gets) == 1
            detail = "payload is not taken with bytes.get(begin..end)"
            if okd:
                ro = cfg.op_origin(db, gets[0]["a"][1])
                ds = [d for d in cfg.defs(db).get(ro[0], []) if d[0] == "assign"]
                okd = len(ds) == 1 and ds[0][2]["k"] == "agg" and last(ds[0][2].get("adt")) == "Range"
                if okd:
                    start, end = ds[0][2]["ops"]
                    ok_start = is_prefix_size_of(db, start, is_len)
                    e = as_add(db, end)
                    ok_end = e is not None and (
                        (is_prefix_size_of(db, e[0], is_len) and is_len(e[1])) or
                        (is_prefix_size_of(db, e[1], is_len) and is_len(e[0])))
                    okd = ok_start and ok_end
                    detail = "payload range is not [prefix size, prefix size + len): start ok %s, end ok %s" % (ok_start, ok_end)
                    # the result is built from that slice
                    rv = result_value(db)
                    flows = cfg.derived_locals(db, [gets[0]["d"][0]], extra_through=(
                        "std::option::Option::ok_or_else", "std::slice::to_vec", "std::string::String::from_utf8"))
                    if okd and not any(r in flows for r in rv):
                        okd, detail = False, "the returned value is not built from the payload slice"
        res.append(("decode", okd, "len = usize::deserialize(bytes); payload = bytes.get(size(len)..size(len)+len)" if okd else detail))
    else:
        loops = cfg.sccs(sb)
        sers = [(i, t) for i, t in cfg.calls(sb) if tr_method(t) == "serialize" and self_ty(cfg.callee_full(t)) == "T"]
        its = [t for i, t in cfg.calls(sb) if last(cfg.callee_decl(t) or cfg.callee(t)) in ("into_iter", "iter") and t["a"] and
               from_self(sb, t["a"][0])]
        okp = len(ser) == 2 and len(sers) == 1 and any(sers[0][0] in l for l in loops) and len(its) >= 1
        if okp:
            nx = [t for i, t in cfg.calls(sb) if last(cfg.callee_decl(t)) == "next"]
            der = cfg.derived_locals(sb, [t["d"][0] for t in nx])
            o = cfg.op_origin(sb, sers[0][1]["a"][0])
            okp = bool(nx) and o is not None and o[0] in der and ser[1][2] == "T"
        res.append(("payload", okp, "payload = each element of self serialized in iteration order" if okp else
                    "element emission not recognised: %s" % (ser[1:],)))
        # size: acc = size(len); loop acc += element size
        zl = cfg.sccs(zb)
        zs = [(i, t) for i, t in cfg.calls(zb) if tr_method(t) == "serialized_size"]
        pre = [x for x in zs if self_ty(cfg.callee_full(x[1])) == "usize" and is_len_of_self(zb, x[1]["a"][0])]
        el = [x for x in zs if self_ty(cfg.callee_full(x[1])) == "T" and any(x[0] in l for l in zl)]
        okz = len(zs) == 2 and len(pre) == 1 and len(el) == 1
        if okz:
            # the returned value is computed from exactly: the prefix size, one addition inside the loop over self, and the
            # element size (backward data slice of the return place; accumulator spelled as `let mut len`, `fold`, ...)
            sl, calls_in, reads = cfg.backward_slice(zb, [0])
            in_slice = {i for i, t in calls_in}
            adds = [(bi, s["r"]) for bi, s in cfg.assigns(zb) if s["r"]["k"] == "bin" and s["r"]["op"].startswith("Add")]
            okz = len(adds) == 1 and any(adds[0][0] in l for l in zl) and pre[0][0] in in_slice and el[0][0] in in_slice
            if okz:
                a_sl = cfg.backward_slice(zb, [x for x in ((cfg.op_place(adds[0][1]["a"]) or [None])[0],
                                                           (cfg.op_place(adds[0][1]["b"]) or [None])[0]) if x is not None])[0]
                okz = el[0][1]["d"][0] in a_sl and adds[0][0] in {d[1] for l_ in sl for d in cfg.defs(zb).get(l_, []) if d[0] == "assign"}
            its = [t for i, t in cfg.calls(zb) if last(cfg.callee_decl(t) or cfg.callee(t)) in ("into_iter", "iter") and t["a"] and
                   from_self(zb, t["a"][0])]
            okz = okz and len(its) >= 1
        res.append(("size", okz, "serialized_size = self.len().serialized_size() + sum of element sizes" if okz else
                    "serialized_size is not `prefix size + sum(element sizes)`"))
        # decode
        des = [(i, t) for i, t in cfg.calls(db) if tr_method(t) == "deserialize"]
        dl = cfg.sccs(db)
        pre = [x for x in des if self_ty(cfg.callee_full(x[1])) == "usize" and chase(db, x[1]["a"][0])[:2] == ("param", 1)]
        el = [x for x in des if self_ty(cfg.callee_full(x[1])) == "T" and any(x[0] in l for l in dl)]
        okd = len(des) == 2 and len(pre) == 1 and len(el) == 1
        detail = "decoder is not `len = usize::deserialize(bytes); for _ in 0..len { T::deserialize(&bytes[begin..]) }`"
        if okd:
            lder = cfg.derived_locals(db, [pre[0][1]["d"][0]])

            def is_len(op):
                pl = cfg.op_place(op)
                return pl is not None and pl[0] in lder
            # loop bound 0..len
            rngs = [s["r"] for bi, s in cfg.assigns(db) if s["r"]["k"] == "agg" and last(s["r"].get("adt")) == "Range"]
            ok_bound = len(rngs) == 1 and (cfg.op_const(rngs[0]["ops"][0]) or {}).get("v") == 0 and is_len(rngs[0]["ops"][1])
            # element input = &bytes[begin..] / bytes.get(begin..)?
            start = slice_from(db, el[0][1]["a"][0])
            sc = chase(db, start) if start is not None else ("?",)
            begin = sc[1] if sc[0] == "local" and not sc[2] else None
            ok_begin = ok_inc = ok_push = False
            if begin is not None:
                bdefs = cfg.defs(db).get(begin, [])
                init = [d for d in bdefs if d[0] == "assign" and d[2]["k"] in ("cast", "use") and
                        is_prefix_size_of(db, d[2]["o"], is_len) and not any(d[1] in l for l in dl)]
                ok_begin = len(init) == 1
                eder = cfg.derived_locals(db, [el[0][1]["d"][0]], extra_through=("std::result::Result::map_err",))

                def is_elem_size(op):
                    c = chase(db, op)
                    return c[0] == "call" and tr_method(c[2]) == "serialized_size" and \
                        cfg.op_origin(db, c[2]["a"][0]) is not None and cfg.op_origin(db, c[2]["a"][0])[0] in eder
                incs = []
                for d in bdefs:
                    if d in init or not any(d[1] in l for l in dl):
                        continue
                    if d[0] == "call":
                        ops = (d[2]["a"][0], d[2]["a"][1]) if last(cfg.callee(d[2])) in ("saturating_add", "checked_add") and \
                            len(d[2]["a"]) == 2 else None
                    else:
                        ops = as_add(db, d[2]["o"]) if d[2]["k"] == "use" else None
                    if ops and chase(db, ops[0])[:2] == ("local", begin) and is_elem_size(ops[1]):
                        incs.append(d)
                ok_inc = len(incs) == 1 and len(bdefs) == 2
                pushes = [t for i, t in cfg.calls(db) if last(cfg.callee(t)) == "push" and any(i in l for l in dl) and
                          cfg.op_origin(db, t["a"][1]) and cfg.op_origin(db, t["a"][1])[0] in eder]
                rv = result_value(db)
                ok_push = len(pushes) == 1 and cfg.op_origin(db, pushes[0]["a"][0])[0] in rv
            okd = ok_bound and ok_begin and ok_inc and ok_push
            detail = "loop bound 0..len %s; begin = size(len) %s; begin += element size %s; elements pushed into the result %s" % (
                ok_bound, ok_begin, ok_inc, ok_push)
        res.append(("decode", okd, "len = usize::deserialize(bytes); begin = size(len); len times: T::deserialize(&bytes[begin..]), "
                    "begin += element size, push" if okd else detail))
    return res


# ------------------------------------------------------------------ SystemTime (fixed 13-byte layout with a sign byte)

def _range_of(b, op, st):
    o = cfg.op_origin(b, op)
    dc = cfg.def_call(b, o[0]) if o else None
    if not dc or last(cfg.callee_decl(dc[1])) not in ("index", "index_mut"):
        return None, None
    ro = cfg.op_origin(b, dc[1]["a"][1])
    ds = [d for d in cfg.defs(b).get(ro[0], []) if d[0] == "assign"] if ro else []
    if len(ds) == 1 and ds[0][2]["k"] == "agg" and last(ds[0][2].get("adt")) == "Range":
        return (st.eval_op(b, ds[0][2]["ops"][0]), st.eval_op(b, ds[0][2]["ops"][1])), cfg.op_origin(b, dc[1]["a"][0])
    return None, None


def _const_index_store(b):
    """`arr[const] = x` statements: (bb, index value, array local, stored operand)"""
    out = []
    for bi, s in cfg.assigns(b):
        l = s["l"]
        if len(l) == 2 and l[1].startswith("[_"):
            il = int(l[1][2:-1])
            ds = cfg.defs(b).get(il, [])
            v = cfg.op_const(ds[0][2]["o"]).get("v") if len(ds) == 1 and ds[0][0] == "assign" and ds[0][2]["k"] == "use" and \
                cfg.op_const(ds[0][2]["o"]) else None
            out.append((bi, v, l[0], s["r"]))
    return out


def shape_systemtime(ctx, fa, st, imp, bs):
    res = []
    sb, db = bs["serialize"], bs["deserialize"]
    # ---- writer layout
    wl = []
    for i, t in cfg.calls(sb):
        if last(cfg.callee(t)) != "copy_from_slice":
            continue
        rng, arr = _range_of(sb, t["a"][0], st)
        c = chase(sb, t["a"][1])
        prim = prim_of(cfg.callee_full(c[2])) if c[0] == "call" and last(cfg.callee(c[2])) == "to_le_bytes" else None
        src = chase(sb, c[2]["a"][0]) if prim else ("?",)
        wl.append((rng, prim, last(cfg.callee(src[2])) if src[0] == "call" else None, arr[0] if arr else None))
    stores = _const_index_store(sb)
    tv = [t for i, t in cfg.calls(sb) if last(cfg.callee(t)) == "to_vec" and t["d"] == [0]]
    arr = cfg.op_origin(sb, tv[0]["a"][0])[0] if len(tv) == 1 else None
    n = None
    if arr is not None and (sb.local_ty(arr) or "").startswith("[u8;"):
        n = int(sb.local_ty(arr).split(";")[1].strip(" ]"))
    # ---- reader layout
    rl = []
    arrays = {}
    for i, t in cfg.calls(db):
        if last(cfg.callee(t)) != "copy_from_slice":
            continue
        rng, src = _range_of(db, t["a"][1], st)
        dst = cfg.op_origin(db, t["a"][0])
        arrays[dst[0]] = (rng, src[0] if src else None)
    dn = [t for i, t in cfg.calls(db) if cfg.callee(t) == "std::time::Duration::new"]
    for k in range(2):
        if len(dn) != 1:
            break
        c = chase(db, dn[0]["a"][k])
        if c[0] == "call" and last(cfg.callee(c[2])) == "from_le_bytes":
            a = chase(db, c[2]["a"][0])
            rng, src = arrays.get(a[1], (None, None)) if a[0] == "local" else (None, None)
            rl.append((rng, prim_of(cfg.callee_full(c[2])), ("as_secs", "subsec_nanos")[k], src))
    want = [((0, 8), "u64", "as_secs"), ((8, 12), "u32", "subsec_nanos")]
    okw = sorted(x[:3] for x in wl) == want and all(x[3] == arr for x in wl)
    okr = sorted(x[:3] for x in rl) == want and all(x[3] == 1 for x in rl)
    res.append(("R20a", "layout", okw and okr,
                "secs u64 LE at [0,8), nanos u32 LE at [8,12) written and read" if okw and okr else
                "SystemTime layout differs: written %s, read %s" % (sorted(x[:3] for x in wl), sorted(x[:3] for x in rl))))
    # ---- size / lengths
    lim = [cfg.op_const(s["r"]["b"]).get("v") for bi, s in cfg.assigns(db) if s["r"]["k"] == "bin" and s["r"]["op"] == "Lt"
           and cfg.op_const(s["r"]["b"]) and chase(db, s["r"]["a"])[0] == "call" and last(cfg.callee(chase(db, s["r"]["a"])[2])) == "len"]
    size = st.eval_ret(bs["serialized_size"])
    oks = n is not None and size == n and lim == [n]
    res.append(("R20a", "size", oks, "%s bytes written, at least %s required, serialized_size %s" % (n, lim, size)
                if oks else "SystemTime: %s bytes written but deserialize requires %s and serialized_size reports %s" % (n, lim, size)))
    # ---- sign byte
    flag_w = None          # (index, {True: byte, False: byte}) keyed by before_epoch
    fs = [x for x in stores if x[2] == arr]
    if len(fs) == 1:
        bi, idx, _, rv = fs[0]
        pl = cfg.op_place(rv.get("o", {})) if rv["k"] == "use" else None
        vals = {}
        if pl:
            for d in cfg.defs(sb).get(pl[0], []):
                if d[0] == "assign" and d[2]["k"] == "use" and cfg.op_const(d[2]["o"]):
                    vals[d[1]] = cfg.op_const(d[2]["o"]).get("v")
        # the switch deciding between the two constant blocks
        for i, blk in enumerate(sb.blocks):
            t = blk["term"]
            if t["k"] == "switch" and sb.local_ty(cfg.op_place(t["d"])[0]) == "bool":
                fe = [tb for v, tb in t["ts"] if v == 0]
                if fe and fe[0] in vals and t["else"] in vals:
                    flag_w = (idx, {True: vals[t["else"]], False: vals[fe[0]]})
    # before_epoch is true exactly in the Err arm of duration_since
    err_true = None
    ds_call = [t for i, t in cfg.calls(sb) if last(cfg.callee(t)) == "duration_since" and self_key(sb, t["a"][0]) == ()]
    if len(ds_call) == 1:
        tup = {}
        for bi, s in cfg.assigns(sb):
            r = s["r"]
            if r["k"] == "agg" and r.get("what") == "tuple" and len(r["ops"]) == 2 and cfg.op_const(r["ops"][1]):
                c0 = chase(sb, r["ops"][0])
                which = None
                if c0[0] == "call" and last(cfg.callee(c0[2])) == "duration":
                    which = "Err"
                else:
                    pl = cfg.op_place(r["ops"][0])
                    o = cfg.origin(sb, pl) if pl else None
                    while o and not o[1]:
                        dd = [d for d in cfg.defs(sb).get(o[0], []) if d[0] == "assign"]
                        if len(dd) == 1 and dd[0][2]["k"] == "use" and cfg.op_place(dd[0][2]["o"]):
                            o = cfg.origin(sb, cfg.op_place(dd[0][2]["o"]))
                        else:
                            break
                    if o and "as Ok" in o[1]:
                        which = "Ok"
                tup[which] = cfg.op_const(r["ops"][1]).get("c")
        err_true = tup.get("Err") == "true" and tup.get("Ok") == "false"
    flag_r = None
    for bi, s in cfg.assigns(db):
        r = s["r"]
        if r["k"] == "bin" and r["op"] in ("Eq", "Ne") and cfg.op_const(r["b"]):
            pa = cfg.op_place(r["a"])
            dd = cfg.defs(db).get(pa[0], []) if pa else []
            if len(dd) == 1 and dd[0][0] == "assign" and dd[0][2]["k"] == "use":
                src = cfg.op_place(dd[0][2]["o"])
                if src and src[0] == 1 and src[-1].startswith("[_"):
                    il = int(src[-1][2:-1])
                    ids = cfg.defs(db).get(il, [])
                    idx = cfg.op_const(ids[0][2]["o"]).get("v") if len(ids) == 1 and ids[0][0] == "assign" and cfg.op_const(ids[0][2].get("o", {})) else None
                    sws = cfg.bool_switches(db, cfg.derived_locals(db, [s["l"][0]]))
                    if len(sws) == 1:
                        sub = cfg.call_blocks(db, ["std::time::SystemTime::checked_sub"])
                        add = cfg.call_blocks(db, ["std::time::SystemTime::checked_add"])
                        te, fe = sws[0]["true_edge"], sws[0]["false_edge"]
                        sub_on_true = bool(sub) and cfg.find_path(db, [0], sub, removed_edges=[te]) is None and \
                            cfg.find_path(db, [0], sub) is not None
                        add_on_false = bool(add) and cfg.find_path(db, [0], add, removed_edges=[fe]) is None and \
                            cfg.find_path(db, [0], add) is not None
                        byte = cfg.op_const(r["b"]).get("v")
                        if sub_on_true and add_on_false:
                            # before-epoch <=> (byte == c) for Eq, (byte != c) for Ne
                            flag_r = (idx, r["op"], byte)
    okf = flag_w is not None and flag_r is not None and err_true is True and flag_w[0] == flag_r[0] == 12
    if okf:
        before_byte, after_byte = flag_w[1][True], flag_w[1][False]
        if flag_r[1] == "Eq":
            okf = before_byte == flag_r[2] and after_byte != flag_r[2]
        else:
            okf = after_byte == flag_r[2] and before_byte != flag_r[2]
    res.append(("R20b", "sign-byte", okf,
                "byte 12: before-epoch (duration_since Err) writes %s, after writes %s; reader subtracts iff byte %s %s" % (
                    flag_w[1][True], flag_w[1][False], "==" if flag_r[1] == "Eq" else "!=", flag_r[2]) if okf else
                "SystemTime sign byte disagrees: writer %s (before_epoch true in the Err arm: %s), reader %s" % (flag_w, err_true, flag_r)))
    return res


# ------------------------------------------------------------------ R20d derive generators

ADAPT_OK = {"deref", "iter", "enumerate", "map", "collect", "into_iter"}
DS = "agdb_derive::db_serialize::"


def gen_chain(b, t):
    """source chain of a `.map(closure)` call: (root key, [adaptor names from the source to map], closure def)"""
    names = []
    cur = t
    root = None
    guard = 0
    while guard < 12:
        guard += 1
        names.append(last(cfg.callee_decl(cur)))
        c = chase(b, cur["a"][0])
        if c[0] == "call":
            cur = c[2]
            continue
        if c[0] == "param":
            root = (c[1],) + tuple(e for e in c[2] if not e[1:].isdigit())
        break
    clo = None
    if len(t["a"]) > 1:
        o = cfg.op_origin(b, t["a"][1])
        for d in cfg.defs(b).get(o[0], []) if o else []:
            if d[0] == "assign" and d[2]["k"] == "agg" and d[2].get("what") == "closure":
                clo = d[2]["def"]
    return root, list(reversed(names)), clo


def map_calls(b):
    return [(i, t) for i, t in cfg.calls(b) if cfg.callee_decl(t) == "std::iter::Iterator::map"]


def generators_rule(ctx, fn, n_expected, want_root_proj):
    b = ctx.anchor("R20d", DS + fn)
    if not b:
        return None
    gens = [gen_chain(b, t) for i, t in map_calls(b)]
    roots = {g[0] for g in gens}
    bad = sorted({a for g in gens for a in g[1] if a not in ADAPT_OK})
    shapes = {tuple(a for a in g[1] if a != "enumerate") for g in gens}
    enum_pos = all("enumerate" not in g[1] or g[1][g[1].index("enumerate") - 1] == "iter" for g in gens)
    ok = len(gens) == n_expected and len(roots) == 1 and None not in roots and not bad and len(shapes) == 1 and enum_pos and \
        all(r[1:] == want_root_proj for r in roots)
    ctx.ob("R20d", fn + ":generators", ok,
           "%d generators, all `%s.iter()[.enumerate()].map(..)` over the same sequence" % (
               len(gens), "param%d%s" % (list(roots)[0][0], "".join(list(roots)[0][1:]))) if ok else
           "%s: generators iterate different or filtered sequences: %s (foreign adaptors %s; expected %d generators)" % (
               fn, [(g[0], g[1]) for g in gens], bad, n_expected), b.where)
    return gens


def derive_rule(ctx):
    fa = ctx.facts
    generators_rule(ctx, "serialize_struct", 4, ())
    generators_rule(ctx, "serialize_tuple", 4, ())
    gens = generators_rule(ctx, "serialize_enum", 3, (".variants",))
    if gens is None:
        return
    b = fa.body(DS + "serialize_enum")
    tag_users = []
    inner_ok = []
    for root, chain, clo in gens:
        cb = fa.body(clo) if clo else None
        if cb is not None:
            from lib import inline
            cb = inline.inlined(fa, cb)         # a helper shared by the generators (e.g. the field-binding list) folded in
        if cb is None:
            ctx.ob("R20d", "serialize_enum:closure", False, "generator closure %s not found" % clo, b.where)
            continue
        # does the closure turn the enumerate index into the u8 tag?
        casts = [s for bi, s in cfg.assigns(cb) if s["r"]["k"] == "cast" and cb.local_ty(s["l"][0]) == "u8"]
        uses_idx = False
        for s in casts:
            c = chase(cb, s["r"]["o"])
            if c[0] == "param" and c[1] == 2 and c[2][:1] == (".0",):
                uses_idx = True
        if casts and not uses_idx:
            ctx.ob("R20d", "serialize_enum:tag-source:" + last(clo), False,
                   "closure %s builds a u8 tag that is not the enumerate index" % clo, cb.where)
        # ... and nothing else: a u8 local that can hold the index cast has no other source (e.g. a parsed discriminant)
        if uses_idx:
            cast_dsts = {s["l"][0] for s in casts}
            carriers = set(cast_dsts)
            for _ in range(4):
                for bi, s in cfg.assigns(cb):
                    if len(s["l"]) == 1 and s["r"]["k"] == "use" and cfg.op_place(s["r"]["o"]) and \
                            cfg.op_place(s["r"]["o"])[0] in carriers and cb.local_ty(s["l"][0]) == "u8":
                        carriers.add(s["l"][0])
            foreign = []
            for l_ in carriers:
                for d in cfg.defs(cb).get(l_, []):
                    if d[0] == "partial":
                        continue
                    if d[0] == "assign" and d[2]["k"] == "cast" and l_ in cast_dsts:
                        continue
                    if d[0] == "assign" and d[2]["k"] == "use" and cfg.op_place(d[2]["o"]) and cfg.op_place(d[2]["o"])[0] in carriers:
                        continue
                    foreign.append(cb.loc(d[1]))
            if foreign:
                uses_idx = False
                ctx.ob("R20d", "serialize_enum:tag-source:" + last(clo), False,
                       "in closure %s the u8 tag is the enumerate index on some paths and something else on others (defined at "
                       "%s): written and read tags, or tags of two variants, can disagree" % (clo, foreign), cb.where)
        if uses_idx:
            tag_users.append((clo, "enumerate" in chain))
        # inner field generators
        inner = [gen_chain(cb, t) for i, t in map_calls(cb)]
        fields_inner = [g for g in inner if g[0] is not None and g[0][1:] == (".fields",)]
        bad = sorted({a for g in inner for a in g[1] if a not in ADAPT_OK})
        inner_ok.append((last(clo), len(fields_inner) == 1 and len(inner) == 1 and not bad, inner))
    ok = len(tag_users) == 2 and all(e for c, e in tag_users)
    ctx.ob("R20d", "serialize_enum:tag-index", ok,
           "serializers and deserializers both take the tag from `variants.iter().enumerate()` (index as u8)" if ok else
           "tag generators: %s (expected two closures fed by enumerate)" % tag_users, b.where)
    ok = len(inner_ok) == 3 and all(x[1] for x in inner_ok)
    ctx.ob("R20d", "serialize_enum:variant-fields", ok,
           "each of the three generators walks `variant.fields.iter()` without filtering" if ok else
           "per-variant field generators differ: %s" % [(x[0], [(g[0], g[1]) for g in x[2]]) for x in inner_ok], b.where)


# ------------------------------------------------------------------ run

HAND = {
    "agdb::collections::map::MapValueState": "enum",
    "agdb::collections::map::MapDataIndex": shape_static_struct,
    "agdb::db::DbStorageIndex": shape_static_struct,
    "agdb::db::legacy::DbStorageIndexLegacy": shape_static_struct,
    "agdb::graph::GraphDataStorageIndexes": shape_static_struct,
    "agdb::storage::StorageIndex": shape_newtype,
    "agdb::db::db_f64::DbF64": shape_newtype,
    "agdb::db::db_value_index::DbValueIndex": shape_raw_array,
    "i64": shape_prim, "u64": shape_prim, "f64": shape_prim,
    "usize": shape_usize, "bool": shape_bool,
    "std::path::PathBuf": shape_via_string, "std::net::SocketAddr": shape_via_string, "std::net::IpAddr": shape_via_string,
    "std::string::String": "lenprefix", "std::vec::Vec<u8>": "lenprefix", "std::vec::Vec<T>": "lenprefix",
    "std::time::SystemTime": "systemtime",
}


def empty_remainder_rule(ctx, rule="R20e"):
    """A decoder that continues with `&buffer[offset..]` / `buffer.get(offset..)` must accept offset == len: the remainder
    is then empty, which is exactly right for a field that serializes to zero bytes (unit / empty struct, empty tuple).
    `if offset >= buffer.len() { return Err }` in front of a range-from slice rejects a value its own serialize wrote."""
    from rules import panic_common as pc
    fa = ctx.facts
    n = 0
    for b in sorted(fa.bodies.values(), key=lambda x: x.path):
        if b.d.get("name") != "deserialize" or not (b.d.get("impl_trait") or "").endswith(("serialize::Serialize", "AgdbSerialize")):
            continue
        n += 1
        lens = [t["d"][0] for i, t in cfg.calls(b) if (cfg.callee(t) or "").endswith("::len") and t["a"] and
                (cfg.op_origin(b, t["a"][0]) or (0,))[0] == 1]
        if not lens:
            continue
        der = cfg.derived_locals(b, lens)
        okb, errb, unk = cfg.ret_class_blocks(b)
        starts = []
        for i, t in cfg.calls(b):
            nme = cfg.callee_decl(t) or cfg.callee(t) or ""
            if nme.endswith(("Index::index", "::get")) and len(t["a"]) > 1 and (cfg.op_origin(b, t["a"][0]) or (0,))[0] == 1:
                rp = pc.range_parts(b, t["a"][1])
                if rp and rp[0] == "RangeFrom":
                    o = cfg.op_origin(b, rp[1][0])
                    if o:
                        starts.append(o[0])
                    pl = cfg.op_place(rp[1][0])
                    if pl:
                        starts += list(cfg.derived_locals(b, [pl[0]]))
        for bi, st in cfg.assigns(b):
            r = st["r"]
            if r["k"] != "bin" or r["op"] not in ("Ge", "Le") or len(st["l"]) != 1:
                continue
            pa, pb_ = cfg.op_place(r["a"]), cfg.op_place(r["b"])
            la, lb = bool(pa and pa[0] in der), bool(pb_ and pb_[0] in der)
            if la == lb or (r["op"], la) not in (("Ge", False), ("Le", True)):
                continue                                    # only `offset >= len` / `len <= offset`
            other = pb_ if la else pa
            if other is None:
                continue
            oo = cfg.origin(b, other)[0]
            back = cfg.backward_slice(b, [other[0]])[0]
            if not (oo in starts or other[0] in starts or any(x in back for x in starts)):
                continue                                    # the compared value is not the start of a range-from slice
            for sw in cfg.bool_switches(b, cfg.derived_locals(b, [st["l"][0]])):
                if cfg.find_path(b, [sw["true_edge"][1]], okb + unk) is None:
                    ctx.ob(rule, "%s:accepts-empty-remainder" % (b.d.get("impl_self") or b.path), False,
                           "decoder of `%s` rejects offset == buffer.len() before taking `buffer[offset..]`: a trailing field "
                           "that serializes to zero bytes (unit / empty struct) cannot be read back" % (b.d.get("impl_self") or b.path),
                           b.loc(bi))
    ctx.ob(rule, "decoders-scanned", n > 0, "%d Serialize::deserialize bodies scanned for `offset >= len` in front of a range-from slice" % n, "")
    ctx.floor(rule, "Serialize::deserialize bodies", n, 60)


def run(ctx):
    fa = ctx.facts
    st = Static(fa)
    imps = serialize_impls(fa)
    for self_ty_, tr in unknown_aliases(fa):
        ctx.ob("R20a", "alias:%s" % self_ty_, False,
               "impl of `%s` for %s: trait path not recognised as the binary Serialize trait (rule needs the alias)" % (tr, self_ty_))
    n_derived = n_hand = n_enum_variants = 0
    for imp in sorted(imps, key=lambda x: (x["crate"], x["self"])):
        name = imp["self"]
        where = "%s:%s" % (imp["file"], imp["line"])
        bs = bodies_of(ctx, "R20a", imp)
        if bs is None:
            continue
        adt = fa.adts.get(imp["adt"]) if imp.get("adt") else None
        shape = None if imp["derived"] else HAND.get(name)
        if imp["derived"]:
            n_derived += 1
        else:
            n_hand += 1
        try:
            if shape == "lenprefix":
                for inst, ok, detail in shape_lenprefix(ctx, fa, st, imp, bs):
                    ctx.ob("R20c", "%s:%s" % (name, inst), ok, detail, where)
            elif shape == "systemtime":
                for rule, inst, ok, detail in shape_systemtime(ctx, fa, st, imp, bs):
                    ctx.ob(rule, "%s:%s" % (name, inst), ok, detail, where)
            elif callable(shape):
                ok, detail = shape(ctx, fa, st, imp, bs)
                ctx.ob("R20a", name, ok, detail, where)
            elif adt is not None and adt["kind"] == "enum" and (imp["derived"] or shape == "enum"):
                for rule, inst, ok, detail in analyse_enum(ctx, fa, st, imp, bs):
                    ctx.ob(rule, "%s::%s" % (name, inst), ok, detail, where)
                    n_enum_variants += 1 if rule == "R20b" else 0
            elif adt is not None and adt["kind"] == "struct" and imp["derived"]:
                ok, detail = analyse_struct(ctx, fa, st, imp, bs)
                ctx.ob("R20a", name, ok, detail, where)
            elif adt is not None and adt["kind"] == "struct":
                # a hand-written impl that is not in the shape table: try the generic product shapes
                try:
                    ok, detail = analyse_struct(ctx, fa, st, imp, bs)
                except Unrec:
                    ok, detail = shape_static_struct(ctx, fa, st, imp, bs)
                ctx.ob("R20a", name, ok, "(new hand-written impl, generic product check) " + detail, where)
            else:
                ctx.ob("R20a", name, False, "hand-written impl Serialize for %s has no recognised shape (add it to the shape "
                       "table of the rule after reading it)" % name, where)
        except Unrec as e:
            ctx.ob("R20a", name, False, "impl Serialize for %s: idiom not recognised: %s" % (name, e), where)
        except (KeyError, IndexError, TypeError, AttributeError) as e:
            ctx.ob("R20a", name, False, "impl Serialize for %s: idiom not recognised (%s: %s)" % (name, type(e).__name__, e), where)
    ctx.floor("R20a", "impl Serialize in the workspace", len(imps), IMPL_FLOOR)
    ctx.floor("R20a", "derive-expanded impls", n_derived, 62)
    ctx.floor("R20a", "hand-written impls", n_hand, 20)
    ctx.floor("R20b", "enum variants with a tag row", n_enum_variants, 106)
    missing = sorted(set(HAND) - {i["self"] for i in imps})
    ctx.ob("R20a", "hand-written:inventory", not missing, "all %d frozen hand-written impls present" % len(HAND) if not missing else
           "hand-written impls disappeared: %s" % missing)
    derive_rule(ctx)
    empty_remainder_rule(ctx)
    return 0
