"""C02 — an interrupted database always reopens and is readable."""
from lib import cfg
from lib.callgraph import CallGraph
from rules import common, C01

CRATES = ("agdb",)
EXPLANATION = (
    "Static analysis: C02 needs the whole undo-log protocol of C01 (re-evaluated here) plus (R02a) database creation and "
    "legacy conversion are each one storage transaction: any two storage-mutating calls that can follow each other on a "
    "path of DbImpl::try_new_with_storage lie inside one transaction()/commit() bracket; (R02b) every DbImpl constructor "
    "reaches Storage::with_data -> read_records (validation) and the file-backed ones reach FileStorage::new (recovery).")
DECIDED = ["R01a-g (log protocol, shared with C01)",
           "R02a creation / conversion is one storage transaction",
           "R02b all constructors go through recovery and record validation",
           "R03a-c and R04a-d (shared with C03 / C04)"]
UNDECIDED = ["mutual consistency of every committed state produced by query histories (C03's runtime half)",
             "panic-freedom of the open path is C07's rule"]

TNS = "agdb::db::DbImpl::try_new_with_storage"


def mutating_storage_calls(b, cg, storage_local):
    """Call blocks in b that pass `&mut storage` and can reach StorageData::write|resize."""
    out = []
    for i, t in cfg.calls(b):
        d = cfg.callee_decl(t)
        if d in common.OPEN_DECLS or d in common.CLOSE_DECLS:
            continue
        passes_mut = False
        for a in t["a"]:
            pl = cfg.op_place(a)
            if not pl or len(pl) != 1:
                continue
            ds = [x for x in cfg.defs(b).get(pl[0], []) if x[0] == "assign"]
            if len(ds) == 1 and ds[0][2]["k"] == "ref" and ds[0][2]["mut"]:
                if cfg.origin(b, ds[0][2]["p"])[0] == storage_local:
                    passes_mut = True
        if not passes_mut:
            continue
        tgts = cg.targets(t)[0]
        if any(cg.reaches(tb, lambda x: x.d.get("impl_trait") == "agdb::storage::StorageData" and
                          x.d.get("name") in ("write", "resize")) for tb in tgts):
            out.append(i)
    return out


def run(ctx):
    fa = ctx.facts
    cg = CallGraph(fa)
    # the log protocol (C01) is a necessary part of C02: it is re-evaluated by C03.run below
    # a crash snapshot is readable only if every committed state is: the header chain of the file (C04) and the
    # single storage bracket around a transaction including its rollback (C03) are necessary parts as well
    from rules import C03, C04
    C04.run(ctx)
    C03.run(ctx)
    b = ctx.anchor("R02a", TNS)
    if b:
        storage_local = None
        for i in range(1, b.d["argc"] + 1):
            if b.local_ty(i).startswith("agdb::storage::Storage<"):
                storage_local = i
        ws = mutating_storage_calls(b, cg, storage_local) if storage_local else []
        opens = [i for i, t in cfg.calls(b) if cfg.callee_decl(t) in common.OPEN_DECLS]
        closes = [i for i, t in cfg.calls(b) if cfg.callee_decl(t) in common.CLOSE_DECLS]
        after_close, _ = cfg.reachable(b, [s for c in closes for s in cfg.succs(b, c)])

        def inside(w):
            return any(cfg.find_path(b, [0], [w], avoid=[o]) is None for o in opens) and w not in after_close
        bad = []
        for w1 in ws:
            r1, _ = cfg.reachable(b, cfg.succs(b, w1))
            for w2 in ws:
                if w2 != w1 and w2 in r1 and not (inside(w1) and inside(w2)):
                    bad.append((w1, w2))
        ctx.ob("R02a", "try_new_with_storage:single-transaction", bool(ws) and not bad,
               "%d storage-mutating calls; every sequence of two or more lies inside one transaction()/commit() bracket" % len(ws)
               if (ws and not bad) else
               "database creation performs storage mutations in separate outermost transactions (e.g. %s then %s): "
               "a crash between them leaves a file whose root record points at index 0" % (
                   (cfg.callee(b.blocks[bad[0][0]]["term"]), cfg.callee(b.blocks[bad[0][1]]["term"])) if bad else ("?", "?")),
               b.where)
        ctx.floor("R02a", "storage-mutating calls in try_new_with_storage", len(ws), 6)
        # success paths of the creation bracket reach commit
        okb, errb, unk = cfg.ret_class_blocks(b)
        for o in opens:
            p = cfg.find_path(b, [o], okb + unk, avoid=closes, leave_start=True)
            ctx.ob("R02a", "try_new_with_storage:commit", p is None,
                   "creation bracket is committed on every success path" if p is None else
                   "creation can succeed without commit: " + cfg.path_str(b, p), b.loc(o))
    lb = ctx.anchor("R02a", "agdb::db::legacy::convert_to_current_version")
    if lb:
        opens = [i for i, t in cfg.calls(lb) if cfg.callee_decl(t) in common.OPEN_DECLS]
        closes = [i for i, t in cfg.calls(lb) if cfg.callee_decl(t) in common.CLOSE_DECLS]
        ws = [i for i, t in cfg.calls(lb) if (cfg.callee_decl(t) or "").startswith("agdb::storage::Storage::") and
              (cfg.callee_decl(t) or "").split("::")[-1] in ("insert", "insert_at", "replace", "remove", "insert_bytes",
                                                             "replace_with_bytes", "resize_value", "move_at")]
        ok = bool(opens) and bool(ws) and all(
            cfg.find_path(lb, [0], [w], avoid=opens) is None for w in ws)
        ctx.ob("R02a", "legacy::convert_to_current_version:single-transaction", ok,
               "%d storage mutations, all dominated by transaction()" % len(ws) if ok else
               "legacy conversion mutates the storage outside its transaction bracket", lb.where)

    # R02b
    ctor_roots = ["agdb::db::DbImpl::new", "agdb::db::DbImpl::with_data",
                  "agdb::db::DbImpl::<agdb::storage::any_storage::AnyStorage>::new_file",
                  "agdb::db::DbImpl::<agdb::storage::any_storage::AnyStorage>::new_mapped",
                  "agdb::db::DbImpl::<agdb::storage::any_storage::AnyStorage>::new_memory"]
    for r in ctor_roots:
        rb = ctx.anchor("R02b", r)
        if not rb:
            continue
        need = ["agdb::storage::Storage::read_records", TNS]
        if r.endswith(("new_file", "new_mapped")):
            need.append("<agdb::storage::file_storage::FileStorage as agdb::storage::StorageData>::new")
        seen = cg.closure([rb])
        names = {v[0].npath for v in seen.values()}
        # fn-pointer dispatch in DbAny::new_*: the init fn is passed as a value; follow fn constants too
        for p, (bb_, _, _) in list(seen.items()):
            for bi, s in cfg.assigns(bb_):
                for o in cfg.rvalue_operands(s["r"]):
                    k = cfg.op_const(o)
                    if k and k.get("fn"):
                        tb = fa.body(k["fn"])
                        if tb and tb.path not in seen:
                            for pp, vv in cg.closure([tb]).items():
                                names.add(vv[0].npath)
            for i, t in cfg.calls(bb_):
                for a in t["a"]:
                    k = cfg.op_const(a)
                    if k and k.get("fn"):
                        tb = fa.body(k["fn"])
                        if tb:
                            for pp, vv in cg.closure([tb]).items():
                                names.add(vv[0].npath)
        missing = [n for n in need if common.norm(n) not in {common.norm(x) for x in names}]
        ctx.ob("R02b", common.norm(r), not missing,
               "constructor reaches %s" % [n.split("::")[-1] for n in need] if not missing else
               "constructor `%s` no longer reaches %s" % (r, missing), rb.where)
    rr = ctx.anchor("R02b", "agdb::storage::Storage::with_data")
    if rr:
        cb = cfg.call_blocks(rr, ["agdb::storage::Storage::read_records"])
        okb, errb, unk = cfg.ret_class_blocks(rr)
        cut = set()
        for i in cb:
            for te in cfg.try_edges(rr, cfg.derived_locals(rr, [rr.blocks[i]["term"]["d"][0]])):
                if te["ok_edge"]:
                    cut.add(te["ok_edge"])
        p = cfg.find_path(rr, [0], okb + unk, removed_edges=cut) if cut else [0]
        ctx.ob("R02b", "Storage::with_data:read_records", bool(cb) and p is None,
               "a storage is handed out only after read_records()? succeeded" if (cb and p is None) else
               "Storage::with_data can succeed without validating the record table", rr.where)
    return 0
