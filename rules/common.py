"""Rule pieces shared by several properties."""
from lib import cfg
from lib.facts import strip_generics, strip_all_generics


def norm(path):
    """Normalise a def path for table keys: strip generic args everywhere."""
    return strip_all_generics(strip_generics(path))


OPEN_DECLS = ("agdb::storage::Storage::transaction", "agdb::graph::GraphData::transaction",
              "agdb::collections::map::MapData::transaction")
CLOSE_DECLS = ("agdb::storage::Storage::commit", "agdb::graph::GraphData::commit",
               "agdb::collections::map::MapData::commit", "agdb::storage::Storage::end_transaction")
# one-line forwarding wrappers: aliases of open/close, not bracketing functions themselves
ALIAS_FUNCS = ("::transaction", "::commit", "::begin_transaction", "::end_transaction")

# floor: bracketing functions counted by hand on the pinned tree (A.1) + the two added by the F4/F5 fixes
PAIR_FLOOR = 25


def closure_bodies_passed(fa, b, t):
    """Closure bodies passed (directly) as an argument to call t in body b."""
    out = []
    for a in t["a"]:
        pl = cfg.op_place(a)
        if not pl:
            continue
        r0 = cfg.origin(b, pl)[0]
        for d in cfg.defs(b).get(r0, []):
            if d[0] == "assign" and d[2]["k"] == "agg" and d[2].get("what") in ("closure", "coroutine_closure"):
                cb = fa.body(d[2]["def"])
                if cb:
                    out.append(cb)
    return out


def reject_guards(fa, b, call_pred=None, bin_pred=None):
    """Permitting edges of `reject-if-true` tests in body b.
    A test is (a) a call whose callee satisfies call_pred (bool result: permitting = false edge),
    (b) a binary comparison satisfying bin_pred(stmt) (permitting = false edge),
    (c) a call that receives a closure whose body contains (a) or (b): bool result -> false edge,
        Result/Option result -> the Ok edge of its `?`.
    Returns list of (description, edge)."""
    edges = []

    def body_has_test(cb):
        if call_pred:
            for i, t in cfg.calls(cb):
                if call_pred(cfg.callee(t) or "", t, cb):
                    return True
        if bin_pred:
            for bi, s in cfg.assigns(cb):
                if s["r"]["k"] == "bin" and bin_pred(s, cb):
                    return True
        return False
    for i, t in cfg.calls(b):
        n = cfg.callee(t) or ""
        direct = bool(call_pred and call_pred(n, t, b))
        via = (not direct) and any(body_has_test(cb) for cb in closure_bodies_passed(fa, b, t))
        if not (direct or via):
            continue
        d = t["d"][0]
        der = cfg.derived_locals(b, [d])
        if b.local_ty(d) == "bool":
            for sw in cfg.bool_switches(b, der):
                edges.append(("%s@%s" % (n.split("::")[-1], b.loc(i)), sw["false_edge"]))
        else:
            for te in cfg.try_edges(b, der):
                if te["ok_edge"]:
                    edges.append(("%s?@%s" % (n.split("::")[-1], b.loc(i)), te["ok_edge"]))
    if bin_pred:
        for bi, s in cfg.assigns(b):
            if s["r"]["k"] == "bin" and len(s["l"]) == 1 and bin_pred(s, b):
                for sw in cfg.bool_switches(b, cfg.derived_locals(b, [s["l"][0]])):
                    edges.append(("%s@%s:%d" % (s["r"]["op"], b.file, s.get("ln", 0)), sw["false_edge"]))
    return edges


def guarded_by(b, site, edges, value=None):
    """First guard edge whose removal makes `site` unreachable from the entry, else None.
    With `value` (the operand the guard is about): a test inside a validation loop
    `for x in xs { if bad(x) { return Err(..) } }` that runs before `site` also guards it when every iteration of the
    loop passes the edge and `value` is drawn from the same collection (zero iterations = no value to guard)."""
    for desc, e in edges:
        if cfg.find_path(b, [0], [site], removed_edges=[e]) is None:
            return desc
    if value is None or cfg.op_place(value) is None:
        return None
    sa = cfg.backward_slice(b, [cfg.op_place(value)[0]])[0]
    preds = cfg.all_pred(b)
    for desc, e in edges:
        for comp in cfg.sccs(b):
            if e[0] not in comp or site in comp:
                continue
            headers = [x for x in comp if any(p_ not in comp for p_ in preds[x])]
            if not headers:
                continue
            # (1) no iteration completes without passing the edge
            outside = [x for x in range(len(b.blocks)) if x not in comp]
            if cfg.find_path(b, headers, headers, removed_edges=[e], avoid=outside, leave_start=True) is not None:
                continue
            # (2) the loop runs before the site
            if cfg.find_path(b, [0], [site], avoid=headers) is not None:
                continue
            # (3) same collection: the loop's iterator and the guarded value come from one Vec / slice local
            nxt = [t for i, t in cfg.calls(b) if i in comp and (cfg.callee_decl(t) or "").endswith("Iterator::next") and t["a"]]
            sl = set()
            for t in nxt:
                pl = cfg.op_place(t["a"][0])
                if pl:
                    sl |= cfg.backward_slice(b, [pl[0]])[0]
            common_ = [x for x in sl & sa if ("Vec<" in b.local_ty(x) or "[" in b.local_ty(x))]
            if common_:
                return desc + " (for every element of `%s`)" % (b.local_name(common_[0]) or "_%d" % common_[0])
    return None


def callers_of(fa, name, crate=None):
    """[(body, bb, term)] of calls whose normalised callee is `name`."""
    out = []
    for cb in fa.bodies.values():
        if crate and cb.crate != crate:
            continue
        for j, tj in cfg.calls(cb):
            if norm(cfg.callee(tj) or "") == name:
                out.append((cb, j, tj))
    return out


def bracketing_functions(fa):
    out = []
    from lib import inline
    folded = inline.inlined_into(fa)
    for b in fa.bodies.values():
        if b.crate != "agdb" or "test_utilities" in b.path:
            continue
        if b.npath.endswith(ALIAS_FUNCS):
            continue
        if b.path in folded:
            continue        # an extracted helper: its bracket is judged inside the function it was extracted from
        b = inline.inlined(fa, b)
        opens = [i for i, t in cfg.calls(b) if cfg.callee_decl(t) in OPEN_DECLS]
        if opens:
            closes = [i for i, t in cfg.calls(b) if cfg.callee_decl(t) in CLOSE_DECLS]
            out.append((b, opens, closes))
    return out


def pair_rule(ctx, rule, classes=("success", "error")):
    """PAIR(open, close): every path from a storage-transaction begin to an exit of the given class
    passes the matching commit."""
    fa = ctx.facts
    fns = bracketing_functions(fa)
    for b, opens, closes in sorted(fns, key=lambda x: x[0].npath):
        okb, errb, unk = cfg.ret_class_blocks(b)
        rets = cfg.return_blocks(b)
        # does the function return a Result/Option at all? otherwise every return is "success"
        succ_targets = (okb + unk) if (okb or errb or unk) else rets
        if not (okb or errb or unk):
            succ_targets = rets
        for o in opens:
            inst = "%s@open#%d" % (norm(b.npath), opens.index(o))
            if "success" in classes:
                p = cfg.find_path(b, [o], succ_targets, avoid=closes, leave_start=True)
                # a success target must also reach return (it always does) -- path found => violation
                ctx.ob(rule, inst + ":success", p is None,
                       "every success path from transaction() passes commit" if p is None else
                       "success exit reachable from transaction() without commit: %s (the write-ahead log is "
                       "never purged and a later drop/reopen undoes committed work)" % cfg.path_str(b, p),
                       b.loc(o), key="%s|%s|%s|success-exit-without-commit" % (ctx.pid, rule, norm(b.npath)))
            if "error" in classes:
                recv = cfg.op_origin(b, b.blocks[o]["term"]["a"][0]) if b.blocks[o]["term"]["a"] else None
                if recv is not None and not recv[1] and not b.local_ty(recv[0]).startswith("&"):
                    # the storage is owned by this function: an error exit drops it and Drop replays the log
                    ctx.ob(rule, inst + ":error", True,
                           "storage `%s` is owned by the function; an error exit drops it, which undoes the "
                           "unfinished transaction" % (b.local_name(recv[0]) or "_%d" % recv[0]), b.loc(o))
                    continue
                # one obligation per leaking error exit, keyed by the call whose failure leaks the counter, so that a
                # NEW leaking `?` in a function that already has a recorded finding is still reported
                leaks = []
                for e in errb:
                    p = cfg.find_path(b, [o], [e], avoid=closes, leave_start=True)
                    if p is None:
                        continue
                    failed = "?"
                    for blk_i in reversed(p[:-1]):
                        tt = b.blocks[blk_i]["term"]
                        if tt["k"] == "call":
                            nme = cfg.callee(tt) or ""
                            if nme and not cfg.is_transparent(nme) and not nme.endswith("from_residual"):
                                failed = norm(nme).split("::")[-1]
                                break
                    leaks.append((e, failed, p))
                if not leaks:
                    ctx.ob(rule, inst + ":error", True, "every error path from transaction() passes commit/abort", b.loc(o))
                for e, failed, p in leaks:
                    ctx.ob(rule, "%s:error:%s" % (inst, failed), False,
                           "error exit reachable from transaction() with the nesting counter still raised when `%s` fails: %s" % (
                               failed, cfg.path_str(b, p)), b.loc(e),
                           key="%s|%s|%s|error-exit-without-commit|%s" % (ctx.pid, rule, norm(b.npath), failed))
    ctx.floor(rule, "functions bracketing a storage transaction", len(fns), PAIR_FLOOR)
    return fns


def _cg(fa):
    cg = getattr(fa, "_cg_cache", None)
    if cg is None:
        from lib.callgraph import CallGraph
        cg = CallGraph(fa)
        fa._cg_cache = cg
    return cg


def call_blocks_reaching(fa, b, names, crate="agdb"):
    """Call blocks of body `b` whose (workspace) callee is one of `names` (normalised paths) or transitively calls one,
    so that a rule keeps recognising a step after it has been moved into a helper."""
    cg = _cg(fa)
    names = set(names)
    out = []
    memo = {}

    def hits(tb):
        if tb.path in memo:
            return memo[tb.path]
        memo[tb.path] = False
        r = norm(tb.npath) in names or cg.reaches(
            tb, lambda x: norm(x.npath) in names, stop=lambda x: x.crate != crate) is not None
        memo[tb.path] = r
        return r
    for i, t in cfg.calls(b):
        if norm(cfg.callee(t) or "") in names or any(hits(tb) for tb in cg.targets(t)[0]):
            out.append(i)
    return out


def call_blocks_incl_closures(fa, b, pred):
    """Blocks of `b` where a call satisfying pred(term) happens: directly, or inside a closure that is passed to the
    call at that block (`x.and_then(|_| f())`, `map_err`, `unwrap_or_else`, ...)."""
    out = []
    for i, t in cfg.calls(b):
        if pred(t):
            out.append(i)
            continue
        for cb in closure_bodies_passed(fa, b, t):
            if any(pred(tt) for j, tt in cfg.calls(cb)):
                out.append(i)
                break
    return out


def sign_edges(b, param):
    """CFG edges on which the integer parameter `param` is known to be negative / positive, whatever the idiom:
    `param.cmp(&0)` matched on Ordering (Less / Greater arms) or `param < 0`, `param > 0`, `0 > param`, `param >= 1`,
    `param <= -1`.  Returns {"neg": [edges], "pos": [edges]}."""
    out = {"neg": [], "pos": []}
    # comparisons with the constant zero (or +-1 for the non-strict forms)
    for bi, st in cfg.assigns(b):
        r = st["r"]
        if r["k"] != "bin" or r["op"] not in ("Lt", "Le", "Gt", "Ge") or len(st["l"]) != 1:
            continue
        ca, cb = cfg.op_const(r["a"]), cfg.op_const(r["b"])
        oa, ob = cfg.op_origin(b, r["a"]), cfg.op_origin(b, r["b"])
        if cb is not None and oa and oa[0] == param and not oa[1]:
            c, op = cb.get("v"), r["op"]
        elif ca is not None and ob and ob[0] == param and not ob[1]:
            c, op = ca.get("v"), {"Lt": "Gt", "Gt": "Lt", "Le": "Ge", "Ge": "Le"}[r["op"]]
        else:
            continue
        # relation `param op c`
        when_true = {("Lt", 0): "neg", ("Le", -1): "neg", ("Gt", 0): "pos", ("Ge", 1): "pos"}.get((op, c))
        when_false = {("Ge", 0): "neg", ("Gt", -1): "neg", ("Le", 0): "pos", ("Lt", 1): "pos"}.get((op, c))
        for sw in cfg.bool_switches(b, cfg.derived_locals(b, [st["l"][0]])):
            if when_true:
                out[when_true].append(sw["true_edge"])
            if when_false:
                out[when_false].append(sw["false_edge"])
    # param.cmp(&0) matched on the Ordering
    for i, t in cfg.calls(b):
        if not (cfg.callee_decl(t) or cfg.callee(t) or "").endswith("Ord::cmp") or len(t["a"]) < 2:
            continue
        o0 = cfg.op_origin(b, t["a"][0])
        if not (o0 and o0[0] == param and not o0[1]):
            continue
        der = cfg.derived_locals(b, [t["d"][0]])
        for j, blk in enumerate(b.blocks):
            tt = blk["term"]
            if tt["k"] != "switch":
                continue
            pl = cfg.op_place(tt["d"])
            ds = cfg.defs(b).get(pl[0], []) if pl else []
            if ds and ds[0][0] == "assign" and ds[0][2]["k"] == "discr" and ds[0][2]["p"][0] in der:
                names = dict((v, n) for v, n in ds[0][2].get("variants", []))
                tg = dict((v, tb) for v, tb in tt["ts"])
                for v, n in names.items():
                    tb = tg.get(v, tt.get("else"))
                    if n == "Less":
                        out["neg"].append((j, tb))
                    elif n == "Greater":
                        out["pos"].append((j, tb))
    return out


def param_origin(b, place_or_op, depth=0):
    """origin() that also looks through *named* snapshots of a parameter (`let (index, id) = pair;`, closure patterns
    `|(_, id)| id`): returns (param local, [fields]) when the value is a (field of a) parameter, else the plain origin."""
    pl = place_or_op if isinstance(place_or_op, list) else cfg.op_place(place_or_op)
    if pl is None:
        return None
    r, f = cfg.origin(b, pl)
    if 0 < r <= b.d["argc"] or depth > 3:
        return r, f
    ds = [d for d in cfg.defs(b).get(r, []) if d[0] != "partial"]
    if len(ds) == 1 and ds[0][0] == "assign" and ds[0][2]["k"] in ("use", "cast") and cfg.op_place(ds[0][2]["o"]):
        r2, f2 = param_origin(b, ds[0][2]["o"], depth + 1)
        if 0 < r2 <= b.d["argc"]:
            return r2, f2 + f
    return r, f
