"""C28 — committed cluster log entries agree on all nodes and never change."""
import re
from lib import cfg
from rules import common
from rules import C27 as R

EXPLANATION = (
    "Static analysis of agdb_server/src/raft.rs, cluster.rs and cluster_log.rs (MIR cut-sets over comparison edges): "
    "(R28a) every call of Cluster::commit_storage(i) is reachable only on an edge implying local.log_commit < i (or, in "
    "`append`, i is the local log index incremented in that function under size == 1), Storage::commit is called only by "
    "commit_storage and local.log_commit is written only there; (R28b) append_request / heartbeat_request reach "
    "become_follower, update_node and every storage call only through the Ok edges of validate_hash and validate_term, "
    "and append_storage only through validate_log_append -> Ok(true); (R28c) validate_log_append returns Ok(true) only on "
    "edges implying local.log_commit < log.index; (R28d) ClusterStorage::append removes log elements only through "
    "remove_uncommitted_logs, whose removed ids derive from the search on the `committed == false` index, and "
    "log_committed removes exactly that key; (R28e) the leader's commit rule: Cluster::commit reaches commit_storage only "
    "through a strict-majority count AND a test that the acknowledged entry is of the leader's current term, and a follower "
    "accepts an appended entry only after comparing the previous entry's term carried by the message with its own log.")
DECIDED = ["R28a commit index is monotone (DOM over comparison edges, WHO for Storage::commit / log_commit writes)",
           "R28b requests are validated before they change state (DOM over `?` Ok edges)",
           "R28c no entry at or below the commit index is accepted (DOM)",
           "R28d only uncommitted entries are removed from the log (WHO + value flow)",
           "R28e the leader commits only what a quorum provably holds (strict majority, current-term test, previous-entry test)",
           "R28h a follower's cached log tip / commit index is updated only after the storage accepted the write (DOM)"]
UNDECIDED = ["agreement of committed entries over message schedules (needs execution; see findings/server/F18)",
             "that the log database returns elements in the order of the ids passed to it"]

CL = R.CL
STORAGE_DECL = "agdb_server::raft::Storage::"
LOGCL = "agdb_server::cluster_log::ClusterLog::"
INC = ("(1 + local.log_index)", "(local.log_index + 1)")


def coroutine_of(fa, path):
    """The body holding the code of `path` (the coroutine of an async fn, else the fn itself)."""
    b = fa.body(path)
    if b is None:
        return None
    inner = fa.body(b.path + "::{closure#0}")
    if inner is not None and inner.d.get("coroutine"):
        return inner
    return b


def anchor_code(ctx, rule, path):
    b = ctx.anchor(rule, path)
    return coroutine_of(ctx.facts, path) if b else None


# --------------------------------------------------------------------------------------------------------- R28a

def rule_commit_monotone(ctx, rule="R28a"):
    fa = ctx.facts
    sites = common.callers_of(fa, CL + "commit_storage", "agdb_server")
    per_fn = {}
    for cb, j, tj in sorted(sites, key=lambda x: (x[0].path, x[1])):
        f = R.fn_name(cb)
        k = per_fn.get(f, 0)
        per_fn[f] = k + 1
        sy = R.Sym(fa, cb)
        idx = sy.op(tj["a"][1]) if len(tj["a"]) > 1 else "?"
        cmps = R.cmp_edges(fa, cb)
        permit = R.edges_implying(cmps, "local.log_commit", idx, "<")
        p = cfg.find_path(cb, [0], [j], removed_edges=[e for d, e in permit])
        ok = bool(permit) and p is None
        how = "only on %s" % sorted({d for d, e in permit})
        if not ok and f == CL + "append" and idx == "local.log_index":
            single = R.edges_implying(cmps, "self.size", "1", "==")
            incs = [bi for bi, fld, val in R.self_writes(fa, cb) if fld == "local.log_index" and val in INC]
            ok = (bool(single) and cfg.find_path(cb, [0], [j], removed_edges=[e for d, e in single]) is None and
                  bool(incs) and cfg.find_path(cb, [0], [j], avoid=incs) is None)
            how = "single-node form: under self.size == 1, after local.log_index += 1 in the same function"
        ctx.ob(rule, "%s:commit_storage#%d" % (f, k), ok,
               "commit_storage(%s) %s" % (idx, how) if ok else
               "commit_storage(%s) in `%s` is reachable without `local.log_commit < %s` (the commit index can move "
               "backwards / an already committed index is committed again); comparisons: %s%s" % (
                   idx, f, idx, [(c["a"], c["op"], c["b"]) for c in cmps if "2 Eq 0" != "%s %s %s" % (c["a"], c["op"], c["b"])],
                   "; path " + cfg.path_str(cb, p) if p else ""), cb.loc(j),
               key="%s|%s|%s|commit_storage#%d-unguarded" % (ctx.pid, rule, f, k))
    ctx.floor(rule, "call sites of commit_storage", len(sites), 4)
    # WHO: Storage::commit only from commit_storage; local.log_commit written only there, with the committed index
    n = 0
    for b in fa.bodies.values():
        if b.crate != "agdb_server" or not b.path.startswith("agdb_server::raft::"):
            continue
        f = R.fn_name(b)
        for i, t in cfg.calls(b):
            if cfg.callee_decl(t) == STORAGE_DECL + "commit":
                n += 1
                ctx.ob(rule, "Storage::commit<-%s" % f, f == CL + "commit_storage",
                       "Storage::commit called by commit_storage" if f == CL + "commit_storage" else
                       "`%s` calls Storage::commit directly, bypassing commit_storage and its `log_commit <` guards" % f, b.loc(i))
        if b.path.startswith(CL[:-2] + "::<") or b.npath.startswith(CL):
            for bi, fld, val in R.self_writes(fa, b, depth=2):
                if fld == "local.log_commit":
                    thin = fa.body(CL + "commit_storage")
                    okw = f == CL + "commit_storage" and thin is not None and val == R.Sym(fa, thin).argname(2)
                    ctx.ob(rule, "local.log_commit<-%s" % f, okw,
                           "local.log_commit = index in commit_storage" if okw else
                           "`%s` writes local.log_commit = %s outside commit_storage" % (f, val), b.loc(bi))
    ctx.floor(rule, "callers of Storage::commit in raft.rs", n, 1)
    cs = anchor_code(ctx, rule, CL + "commit_storage")
    if cs:
        st = [i for i, t in cfg.calls(cs) if cfg.callee_decl(t) == STORAGE_DECL + "commit"]
        wr = [bi for bi, fld, val in R.self_writes(fa, cs, depth=2) if fld == "local.log_commit"]
        edges = []
        for i in st:
            for te in cfg.try_edges(cs, cfg.derived_locals(cs, [cs.blocks[i]["term"]["d"][0]])):
                if te["ok_edge"]:
                    edges.append(te["ok_edge"])
        ok = bool(st and wr and edges) and cfg.find_path(cs, [0], wr, removed_edges=edges) is None
        ctx.ob(rule, "commit_storage:index-follows-storage", ok,
               "local.log_commit is raised only after Storage::commit(index) returned Ok" if ok else
               "commit_storage can raise local.log_commit without a successful Storage::commit", cs.where)


# --------------------------------------------------------------------------------------------------------- R28b

def rule_validated_first(ctx, rule="R28b"):
    fa = ctx.facts
    for fn in ("append_request", "heartbeat_request"):
        b = anchor_code(ctx, rule, CL + fn)
        if not b:
            continue
        effects = {}
        for i, t in cfg.calls(b):
            n = common.norm(cfg.callee(t) or "")
            d = cfg.callee_decl(t) or ""
            if n in (CL + "become_follower", CL + "update_node", CL + "append_storage", CL + "commit_storage"):
                effects.setdefault(n.split("::")[-1], []).append(i)
            elif d.startswith(STORAGE_DECL) or n.startswith("agdb_server::cluster::ClusterStorage"):
                effects.setdefault("Storage::" + d.split("::")[-1], []).append(i)
        want = ["become_follower", "commit_storage"] + (["append_storage"] if fn == "append_request" else [])
        for w in want:
            if w not in effects:
                ctx.ob(rule, "%s:%s" % (fn, w), False, "`%s` no longer calls %s (idiom not recognised)" % (fn, w), b.where)
        for v in ("validate_hash", "validate_term"):
            sites, edges = R.validator_cut(b, v)
            for eff, blocks in sorted(effects.items()):
                p = cfg.find_path(b, [0], blocks, removed_edges=edges) if sites else [0]
                ok = bool(sites and edges) and p is None
                ctx.ob(rule, "%s:%s<=%s" % (fn, eff, v), ok,
                       "%s reachable only through the Ok edge of %s?" % (eff, v) if ok else
                       "`%s` reaches %s without passing %s (%s): a request of a foreign cluster / an older term changes "
                       "this node's state or log" % (fn, eff, v, "validator is not called" if not sites else "path " + cfg.path_str(b, p or [])),
                       b.loc(blocks[0]), key="%s|%s|%s|%s-without-%s" % (ctx.pid, rule, CL + fn, eff, v))
        if fn == "heartbeat_request":
            # a heartbeat commits request.log_commit only on a follower whose last entry is the leader's last entry
            sites, edges = R.validator_cut(b, "validate_log")
            blocks = effects.get("commit_storage", [])
            p = cfg.find_path(b, [0], blocks, removed_edges=edges) if sites and blocks else [0]
            ok = bool(sites and edges and blocks) and p is None
            ctx.ob(rule, "heartbeat_request:commit_storage<=validate_log", ok,
                   "commit_storage reachable only through the Ok edge of validate_log?" if ok else
                   "heartbeat_request commits request.log_commit without validate_log: a follower whose log differs from "
                   "the leader's commits entries the leader never replicated to it", b.loc(blocks[0]) if blocks else b.where,
                   key="%s|%s|%s|commit_storage-without-validate_log" % (ctx.pid, rule, CL + fn))
            vl = ctx.anchor(rule, CL + "validate_log")
            if vl:
                okb, errb = R.ok_return_blocks(vl)
                cm = R.cmp_edges(fa, vl)
                for f_ in ("log_index", "log_term"):
                    pe = R.edges_implying(cm, "local." + f_, "request." + f_, "==")
                    pp = cfg.find_path(vl, [0], okb, removed_edges=[e for d, e in pe])
                    ctx.ob(rule, "validate_log[%s]" % f_, bool(okb and pe) and pp is None,
                           "Ok only on local.%s == request.%s" % (f_, f_) if okb and pe and pp is None else
                           "validate_log can return Ok although local.%s != request.%s" % (f_, f_), vl.where)
        if fn == "append_request":
            vs = [(i, t) for i, t in cfg.calls(b) if common.norm(cfg.callee(t) or "") == CL + "validate_log_append"]
            edges = []
            for i, t in vs:
                for sw in cfg.bool_switches(b, cfg.derived_locals(b, [t["d"][0]])):
                    edges.append(sw["true_edge"])
            blocks = effects.get("append_storage", [])
            p = cfg.find_path(b, [0], blocks, removed_edges=edges) if blocks else None
            ok = bool(vs and edges and blocks) and p is None
            ctx.ob(rule, "append_request:append_storage<=validate_log_append", ok,
                   "append_storage reachable only through validate_log_append(..)? == true" if ok else
                   "append_request reaches append_storage without validate_log_append returning Ok(true)%s" % (
                       ": " + cfg.path_str(b, p) if p else ""), b.loc(blocks[0]) if blocks else b.where,
                   key="%s|%s|%s|append_storage-without-validate_log_append" % (ctx.pid, rule, CL + fn))
            # the validated entry is the appended entry
            sy = R.Sym(fa, b)
            same = all(sy.op(t["a"][2]) == sy.op(b.blocks[j]["term"]["a"][1]) for i, t in vs for j in blocks) if vs and blocks else False
            ctx.ob(rule, "append_request:validated-entry-is-appended", same,
                   "validate_log_append and append_storage receive the same log entry" if same else
                   "append_storage appends a different entry than validate_log_append validated", b.where)


# --------------------------------------------------------------------------------------------------------- R28c

def true_ok_blocks(b):
    """Blocks producing Ok(true) (or an Ok whose payload is not the constant false)."""
    out = []
    for bi, s in cfg.assigns(b):
        r = s["r"]
        if s["l"] == [0] and r["k"] == "agg" and r.get("adt", "").endswith("Result") and r.get("variant") == "Ok":
            c = cfg.op_const(r["ops"][0]) if r["ops"] else None
            if not (c is not None and c.get("ty") == "bool" and c.get("v") == 0):
                out.append(bi)
    okb, errb, unk = cfg.ret_class_blocks(b)
    return out + unk


def rule_accept_above_commit(ctx, rule="R28c"):
    fa = ctx.facts
    b = ctx.anchor(rule, CL + "validate_log_append")
    if not b:
        return
    acc = true_ok_blocks(b)
    cmps = R.cmp_edges(fa, b)
    permit = R.edges_implying(cmps, "local.log_commit", "log.index", "<")
    p = cfg.find_path(b, [0], acc, removed_edges=[e for d, e in permit])
    ok = bool(acc and permit) and p is None
    ctx.ob(rule, "validate_log_append:accept-above-commit", ok,
           "%d accepting returns, each only on `local.log_commit < log.index`" % len(acc) if ok else
           "validate_log_append can return Ok(true) for an entry at or below local.log_commit (a committed entry is "
           "replaced): %s" % (cfg.path_str(b, p) if p else "no accepting return / comparison found (idiom not recognised)"),
           b.where)
    # an entry the follower already stores (same term, index <= its last index) is never appended again: the storage
    # truncates on append, so a duplicated / reordered Append of an old entry would drop acknowledged later entries.
    # Every accepting return lies behind `local.log_term < log.term` or behind `local.log_index < log.index`
    # (spelled `log_index >= log.index` == false, or `log_index + 1 == log.index`).
    newer_term = R.edges_implying(cmps, "local.log_term", "log.term", "<")
    beyond = R.edges_implying(cmps, "local.log_index", "log.index", "<")
    beyond += [("%s == %s" % (c["a"], c["b"]), e) for c in cmps for rel, e in c["edges"]
               if rel == "==" and {c["a"], c["b"]} == {"(1 + local.log_index)", "log.index"}]
    p2 = cfg.find_path(b, [0], acc, removed_edges=[e for d, e in newer_term + beyond])
    ok2 = bool(acc) and bool(newer_term or beyond) and p2 is None
    ctx.ob(rule, "validate_log_append:no-re-append-of-stored-entry", ok2,
           "accepting returns only behind %s" % sorted({d for d, e in newer_term + beyond}) if ok2 else
           "validate_log_append can return Ok(true) for an entry of the follower's own last term that it already stores "
           "(neither `local.log_term < log.term` nor `local.log_index < log.index` on the path %s): re-appending it "
           "truncates the acknowledged entries behind it" % (cfg.path_str(b, p2) if p2 else "?"), b.where)
    ctx.floor(rule, "accepting returns of validate_log_append", len(acc), 1)


# --------------------------------------------------------------------------------------------------------- R28d

def rule_remove_uncommitted_only(ctx, rule="R28d"):
    fa = ctx.facts
    ap = None
    for b in fa.bodies.values():
        if b.crate == "agdb_server" and b.d.get("name") == "append" and "ClusterStorage" in (b.d.get("impl_self") or b.path) \
                and (b.d.get("impl_trait") or "").startswith("agdb_server::raft::Storage"):
            ap = b
    if ap is None:
        ctx.ob(rule, "anchor:ClusterStorage::append", False, "mechanism `<ClusterStorage as Storage>::append` not found",
               key="%s|%s|missing-anchor|ClusterStorage::append" % (ctx.pid, rule))
        return
    code = coroutine_of(fa, ap.path)
    used = sorted({common.norm(cfg.callee(t) or "")[len(LOGCL):] for i, t in cfg.calls(code)
                   if common.norm(cfg.callee(t) or "").startswith(LOGCL)})
    ok = "remove_uncommitted_logs" in used and set(used) <= {"remove_uncommitted_logs", "append_log"}
    ctx.ob(rule, "ClusterStorage::append:log-calls", ok,
           "ClusterStorage::append touches the log only through %s" % used if ok else
           "ClusterStorage::append calls %s on the cluster log (expected remove_uncommitted_logs + append_log only)" % used,
           code.where)
    sy = R.Sym(fa, code)
    rm = [(i, t) for i, t in cfg.calls(code) if common.norm(cfg.callee(t) or "") == LOGCL + "remove_uncommitted_logs"]
    al = [i for i, t in cfg.calls(code) if common.norm(cfg.callee(t) or "") == LOGCL + "append_log"]
    ok = bool(rm and al) and all(sy.op(t["a"][1]) == "log.index" for i, t in rm) and \
        cfg.find_path(code, [0], al, avoid=[i for i, t in rm]) is None
    ctx.ob(rule, "ClusterStorage::append:truncate-from-entry", ok,
           "remove_uncommitted_logs(log.index) precedes append_log" if ok else
           "ClusterStorage::append no longer truncates the uncommitted suffix from log.index before appending", code.where)
    # element removals inside impl ClusterLog
    n = 0
    for b in fa.bodies.values():
        if b.crate != "agdb_server" or not common.norm(b.root or b.npath).startswith(LOGCL):
            continue
        f = R.fn_name(b)
        s2 = R.Sym(fa, b)
        for i, t in cfg.calls(b):
            c = cfg.callee(t) or ""
            if c in ("agdb::Remove::ids", "agdb::Remove::search"):
                n += 1
                arg = s2.op(t["a"][1]) if len(t["a"]) > 1 else ""
                # value flow: the ids handed to remove().ids(..) are computed from the result of a query
                # `search().index(COMMITTED).value(false)` (whatever collects them: filter_map, a loop with push, ...)
                apl = cfg.op_place(t["a"][1]) if len(t["a"]) > 1 else None
                sl_, calls_, _rd = cfg.backward_slice(b, [apl[0]]) if apl else (set(), [], set())
                has_index = any((cfg.callee(ct) or "").split("::")[-1] == "index" and any(
                    "COMMITTED" in str((cfg.op_const(a) or {}).get("c", "")) for a in ct["a"]) for ci, ct in calls_)
                has_false = any((cfg.callee(ct) or "").split("::")[-1] == "value" and any(
                    (cfg.op_const(a) or {}).get("ty") == "bool" and (cfg.op_const(a) or {}).get("v") == 0 for a in ct["a"]) for ci, ct in calls_)
                has_exec = any((cfg.callee(ct) or "").endswith(("Transaction::exec", "TransactionMut::exec")) for ci, ct in calls_)
                okr = (f == LOGCL + "remove_uncommitted_logs" and c == "agdb::Remove::ids" and has_index and has_false and has_exec)
                ctx.ob(rule, "element-removal:%s" % f, okr,
                       "removed ids derive from search().index(COMMITTED).value(false)" if okr else
                       "`%s` removes log elements whose ids do not derive from the `committed == false` index: %s" % (f, arg[:200]),
                       b.loc(i))
    ctx.floor(rule, "element removals in impl ClusterLog", n, 1)
    lc = anchor_code(ctx, rule, LOGCL + "log_committed")
    if lc:
        s3 = R.Sym(fa, lc)
        vals = [s3.op(t["a"][1]) for i, t in cfg.calls(lc) if (cfg.callee(t) or "") == "agdb::Remove::values" and len(t["a"]) > 1]
        ok = vals == ["cluster_log::COMMITTED"]
        ctx.ob(rule, "log_committed:removes-committed-key", ok,
               "log_committed removes the COMMITTED key, taking the entry out of the `committed == false` index" if ok else
               "log_committed no longer removes exactly the COMMITTED key (removes %s)" % vals, lc.where)
    al = fa.body(LOGCL + "append_log")
    if ctx.anchor(rule, LOGCL + "append_log"):
        found = False
        for b in fa.bodies.values():
            if (b.root or b.path) == al.path or b.path == al.path:
                for bi, s in cfg.assigns(b):
                    r = s["r"]
                    if r["k"] == "agg" and r.get("what") == "tuple" and len(r["ops"]) == 2:
                        s4 = R.Sym(fa, b)
                        if [s4.op(o) for o in r["ops"]] == ["cluster_log::COMMITTED", "false"]:
                            found = True
        ctx.ob(rule, "append_log:starts-uncommitted", found,
               "append_log stores (COMMITTED, false) with every new entry" if found else
               "append_log no longer marks new entries (COMMITTED, false)", al.where)


# --------------------------------------------------------------------------------------------------------- R28e

def is_entry_term(x):
    return x.endswith(".log_term") or re.search(r"(^log| as Some\.0)\.term$", x) is not None


def is_current_term(x):
    return x in ("self.term", "request.term")


def closure_requires(fa, cb, tests):
    """The bool closure returns true only when one of `tests` (edges / direct result comparisons) holds."""
    cmps = R.cmp_edges(fa, cb)
    good_dst = set()
    permit = []
    for c in cmps:
        for lp, rp in tests:
            if (lp(c["a"]) and rp(c["b"])) or (lp(c["b"]) and rp(c["a"])):
                if c["op"] == "Eq":
                    good_dst.add(c["dst"])
            permit += [e for d, e in R.edges_implying([c], lp, rp, "==")]
    accepting = []
    for bi, s in cfg.assigns(cb):
        if s["l"] != [0]:
            continue
        r = s["r"]
        c = cfg.op_const(r["o"]) if r["k"] == "use" else None
        if c is not None and c.get("v") == 0:
            continue
        if r["k"] == "bin" and r["op"] == "Eq":
            sy = R.Sym(fa, cb)
            a, b_ = sy.op(r["a"]), sy.op(r["b"])
            if any((lp(a) and rp(b_)) or (lp(b_) and rp(a)) for lp, rp in tests):
                continue
        if r["k"] == "use" and cfg.op_place(r["o"]) and cfg.op_place(r["o"])[0] in good_dst and len(cfg.op_place(r["o"])) == 1:
            continue
        accepting.append(bi)
    return cfg.find_path(cb, [0], accepting, removed_edges=permit) is None if accepting else bool(permit or good_dst)


def rule_commit_quorum(ctx, rule="R28e"):
    """The leader's commit rule in Cluster::commit."""
    fa = ctx.facts
    b = anchor_code(ctx, rule, CL + "commit")
    if not b:
        return
    sites = [i for i, t in cfg.calls(b) if common.norm(cfg.callee(t) or "") == CL + "commit_storage"]
    if not sites:
        ctx.ob(rule, "commit:commit_storage", False, "Cluster::commit no longer calls commit_storage (idiom not recognised)", b.where)
        return
    cmps = R.cmp_edges(fa, b)
    counts = [x for c in cmps for x in (c["a"], c["b"]) if x.startswith("count(filter(iter(self.nodes), closure:")]
    maj = R.majority_edges(cmps, lambda x: x.startswith("count(filter(iter(self.nodes), closure:"))
    p = cfg.find_path(b, [0], sites, removed_edges=[e for d, e in maj])
    ctx.ob(rule, "commit:strict-majority", bool(maj) and p is None,
           "commit_storage only when the acknowledging nodes are a strict majority of self.size" if maj and p is None else
           "Cluster::commit reaches commit_storage without a strict-majority count over self.nodes (accepted: v > n/2, "
           "v >= n/2 + 1, 2*v > n); comparisons: %s" % [(c["a"][:60], c["op"], c["b"]) for c in cmps], b.loc(sites[0]),
           key="%s|%s|%s|no-strict-majority" % (ctx.pid, rule, CL + "commit"))
    # the count is over acknowledgements of the entry being committed
    sy = R.Sym(fa, b)
    idx = sy.op(b.blocks[sites[0]]["term"]["a"][1])
    ack_ok = False
    closures = [fa.body(x[len("count(filter(iter(self.nodes), closure:"):-2]) for x in counts]
    for cb in closures:
        if cb is not None:
            cc = R.cmp_edges(fa, cb)
            vals = [(c["a"], c["op"], c["b"]) for c in cc]
            if any((a == "node.log_index" and op == "Ge" and x == idx) or (x == "node.log_index" and op == "Le" and a == idx)
                   for a, op, x in vals):
                ack_ok = True
    ctx.ob(rule, "commit:counts-index", ack_ok,
           "the quorum counts nodes with node.log_index >= %s, the committed index" % idx if ack_ok else
           "the quorum filter of Cluster::commit does not compare node.log_index with the committed index %s" % idx, b.where)
    # current-term rule
    tests = [(is_entry_term, is_current_term)]
    permit = R.edges_implying(cmps, is_entry_term, is_current_term, "==")
    direct = bool(permit) and cfg.find_path(b, [0], sites, removed_edges=[e for d, e in permit]) is None
    in_closure = any(cb is not None and closure_requires(fa, cb, tests) for cb in closures) and bool(maj) and p is None
    ok = direct or in_closure
    ctx.ob(rule, "commit:current-term", ok,
           "commit_storage only for an entry of the leader's current term (%s)" % (
               sorted({d for d, e in permit}) if direct else "term test inside the quorum filter") if ok else
           "Cluster::commit counts `node.log_index >= request.log_index` only: no test that the acknowledged entry is of "
           "the leader's current term guards commit_storage(%s). An entry of an older term is committed on a bare replica "
           "count and can later be overwritten by a leader that never had it (Raft fig. 8; F18 B). Accepted: an equality "
           "test between an entry term (`*.log_term`, `log.term`) and `self.term` / `request.term` that dominates "
           "commit_storage, or the same test inside the quorum filter closure" % idx, b.loc(sites[0]),
           key="%s|%s|%s|quorum-count-ignores-term" % (ctx.pid, rule, CL + "commit"))


MSG_OWN = {"request": {"hash", "index", "target", "term", "log_commit", "data"}, "log": {"index", "term", "db_id", "data"}}


def is_prev_field(x):
    m = re.match(r"^(request|log|.* as Some\.0)\.(\w+)$", x)
    if not m:
        return False
    kind = "request" if m.group(1) == "request" else "log"
    return m.group(2) not in MSG_OWN[kind]


def is_local_term(x):
    return x == "local.log_term" or "(self.storage" in x or x.startswith("self.storage")


def rule_prev_check(ctx, rule="R28e"):
    """A follower accepts an appended entry only after comparing the previous entry's term."""
    fa = ctx.facts
    b = ctx.anchor(rule, CL + "validate_log_append")
    ar = anchor_code(ctx, rule, CL + "append_request")
    if not (b and ar):
        return
    acc = true_ok_blocks(b)
    permit = R.edges_implying(R.cmp_edges(fa, b), is_local_term, is_prev_field, "==")
    in_validator = bool(acc and permit) and cfg.find_path(b, [0], acc, removed_edges=[e for d, e in permit]) is None
    # or in append_request itself / in a validator it calls with `?`
    sites = [i for i, t in cfg.calls(ar) if common.norm(cfg.callee(t) or "") == CL + "append_storage"]
    edges = [e for d, e in R.edges_implying(R.cmp_edges(fa, ar), is_local_term, is_prev_field, "==")]
    for i, t in cfg.calls(ar):
        n = common.norm(cfg.callee(t) or "")
        vb = fa.body(n) if n.startswith(CL) else None
        if vb is None or n == CL + "validate_log_append":
            continue
        okb, errb = R.ok_return_blocks(vb)
        pe = R.edges_implying(R.cmp_edges(fa, vb), is_local_term, is_prev_field, "==")
        if okb and pe and cfg.find_path(vb, [0], okb, removed_edges=[e for d, e in pe]) is None:
            for te in cfg.try_edges(ar, cfg.derived_locals(ar, [t["d"][0]])):
                if te["ok_edge"]:
                    edges.append(te["ok_edge"])
    in_request = bool(sites and edges) and cfg.find_path(ar, [0], sites, removed_edges=edges) is None
    ok = in_validator or in_request
    used = sorted({x for c in R.cmp_edges(fa, b) for x in (c["a"], c["b"]) if x.startswith(("request.", "log."))})
    ctx.ob(rule, "validate_log_append:previous-entry-check", ok,
           "an entry is accepted only after the previous entry's term carried by the message matched the local log" if ok else
           "validate_log_append decides on %s only: the message carries no identification of the entry preceding the "
           "appended one and none is compared, so a follower whose log diverges below log.index accepts the entry (the "
           "branch `local.log_term < log.term && local.log_index + 1 >= log.index` overwrites any uncommitted suffix) and "
           "acknowledges a log it does not share with the leader (F18 A). Accepted: on every path to Ok(true) in "
           "validate_log_append, or to append_storage in append_request (directly or through a `?`-validator), an "
           "equality test between a local term (`local.log_term` or a value read from self.storage) and a field of the "
           "request / log entry other than %s" % (used, {k: sorted(v) for k, v in MSG_OWN.items()}),
           b.where, key="%s|%s|%s|no-previous-entry-check" % (ctx.pid, rule, CL + "validate_log_append"))


def rule_reconcile_from_commit(ctx, rule="R28f"):
    """A follower that reported a log mismatch is re-sent everything above a COMMIT index (its own reported commit, or
    the one the leader tracks for it): everything above the commit may diverge and must be overwritten.  Re-sending only
    from the follower's log index keeps a stale uncommitted entry of an older term in place."""
    fa = ctx.facts
    b = fa.body(CL + "reconcile::{closure#0}") or fa.body(CL + "reconcile")
    if b is None:
        ctx.ob(rule, "anchor:reconcile", False, "mechanism `Cluster::reconcile` not found",
               key="%s|%s|missing-anchor|reconcile" % (ctx.pid, rule))
        return
    logs = [(i, t) for i, t in cfg.calls(b) if (cfg.callee_decl(t) or "").endswith("raft::Storage::logs")]
    bad_seeds, good_seeds = [], []
    for bi, s in cfg.assigns(b):
        r = s["r"]
        pl = cfg.op_place(r["o"]) if r["k"] in ("use", "cast") else (r["p"] if r["k"] == "ref" else None)
        if not pl or len(s["l"]) != 1:
            continue
        fields = [e for e in pl[1:] if e.startswith(".")]
        if ".log_index" in fields or (".index" in fields and (".local" in fields or ".requested" in fields)):
            bad_seeds.append(s["l"][0])
        if ".log_commit" in fields or ".commit" in fields:
            good_seeds.append(s["l"][0])
    thr = lambda n: cfg.is_transparent(n) or (n or "").endswith(("::unwrap_or", "::unwrap_or_default", "::unwrap_or_else"))
    bad = cfg.derived_locals(b, bad_seeds, through=thr)
    good = cfg.derived_locals(b, good_seeds, through=thr)
    ok = bool(logs)
    detail = "Storage::logs not called in reconcile"
    for i, t in logs:
        o = cfg.op_origin(b, t["a"][1]) if len(t["a"]) > 1 else None
        from_commit = o is not None and (o[0] in good or cfg.op_place(t["a"][1])[0] in good)
        from_index = o is not None and (o[0] in bad or cfg.op_place(t["a"][1])[0] in bad)
        ok = ok and from_commit and not from_index
        detail = ("logs are re-sent from a commit index" if ok else
                  "reconcile re-sends logs from a value that derives from a LOG index (from commit: %s, from log index: %s): "
                  "a divergent uncommitted entry of the follower is kept below the re-sent tail" % (from_commit, from_index))
    ctx.ob(rule, "reconcile:resend-from-commit", ok, detail, b.where)


def rule_cached_tip_follows_storage(ctx, rule="R28h"):
    """What a follower reports as its log tip / commit index (the cached Node fields that validate_log answers heartbeats
    from, and that the leader counts in its quorum) is updated only after the storage accepted the entry: in
    append_storage / commit_storage the writes to local().log_index / log_term / log_commit lie behind the Ok edge of
    `storage.append(..).await?` / `storage.commit(..).await?`.  Updated first, a failed append still looks replicated:
    the next heartbeat is acknowledged, the leader commits an entry only it stores, and the follower - advertising the
    inflated tip - can win the next election without it."""
    fa = ctx.facts
    for fn, scall, fields in (("append_storage", "append", ("log_index", "log_term")), ("commit_storage", "commit", ("log_commit",))):
        b = anchor_code(ctx, rule, CL + fn)
        if not b:
            continue
        sc = [(i, t) for i, t in cfg.calls(b) if (cfg.callee_decl(t) or cfg.callee(t) or "").endswith("raft::Storage::" + scall)]
        edges = []
        for i, t in sc:
            for te in cfg.try_edges(b, cfg.derived_locals(b, [t["d"][0]])):
                if te["ok_edge"]:
                    edges.append(te["ok_edge"])
        writes = []
        for bi, st in cfg.assigns(b):
            l = st["l"]
            if len(l) > 1 and isinstance(l[-1], str) and l[-1][1:] in fields:
                writes.append(bi)
        ok = bool(sc and edges and writes) and all(cfg.find_path(b, [0], [w], removed_edges=edges) is None for w in writes)
        ctx.ob(rule, "%s:cache-after-storage" % fn, ok,
               "local().%s written only after storage.%s(..).await? succeeded" % ("/".join(fields), scall) if ok else
               "`%s` updates the cached %s without (or before) a successful storage.%s: a failed write still looks "
               "replicated / committed to the leader" % (fn, "/".join(fields), scall), b.where)


def run(ctx):
    # two leaders in one term each commit their own entry at the same index: C27's election rules are a
    # precondition of log agreement and are re-evaluated under this property
    R.run(ctx)
    rule_reconcile_from_commit(ctx)
    rule_commit_monotone(ctx)
    rule_validated_first(ctx)
    rule_accept_above_commit(ctx)
    rule_remove_uncommitted_only(ctx)
    rule_commit_quorum(ctx)
    rule_prev_check(ctx)
    rule_cached_tip_follows_storage(ctx)
    return 0
