"""C29 — entries committed by a leader survive every later leader."""
from lib import cfg
from rules import common
from rules import C27 as R
from rules import C28

EXPLANATION = (
    "Static analysis of agdb_server/src/raft.rs: (R29a) the election restriction: validate_log_for_vote returns Ok only on "
    "edges implying local.log_index <= request.log_index, local.log_term <= request.log_term and local.log_commit <= "
    "request.log_commit (a candidate behind the voter in any of the three is rejected), and both the pre-vote grant and the "
    "vote grant are reachable only through its Ok edge; together with (R27c) strict majorities in vote_received / "
    "pre_vote_received (any two majorities intersect) and (R28e) the leader's commit rule (strict majority, entry of the "
    "current term, acknowledgements that prove the follower holds the leader's log), re-evaluated here.")
DECIDED = ["R29a election restriction table and its dominance over both grants (TABLE + DOM)",
           "R27c strict majorities (re-evaluated)", "R28e the leader's commit rule (re-evaluated)"]
UNDECIDED = ["the election-restriction argument itself (leader completeness over schedules; needs execution)"]

CL = R.CL
FIELDS = ("log_index", "log_term", "log_commit")


def rule_election_restriction(ctx, rule="R29a"):
    fa = ctx.facts
    b = ctx.anchor(rule, CL + "validate_log_for_vote")
    if b:
        okb, errb = R.ok_return_blocks(b)
        cmps = R.cmp_edges(fa, b)
        for f in FIELDS:
            permit = R.edges_implying(cmps, "local." + f, "request." + f, "<=")
            p = cfg.find_path(b, [0], okb, removed_edges=[e for d, e in permit])
            ok = bool(okb and permit) and p is None
            ctx.ob(rule, "validate_log_for_vote[%s]" % f, ok,
                   "Ok only on %s (rejects local.%s > request.%s)" % (sorted({d for d, e in permit}), f, f) if ok else
                   "validate_log_for_vote can return Ok although local.%s > request.%s: a candidate whose log is behind "
                   "the voter's gets the vote and can overwrite entries the voter holds (%s); comparisons: %s" % (
                       f, f, cfg.path_str(b, p) if p else "no comparison of the two found",
                       [(c["a"], c["op"], c["b"]) for c in cmps]), b.where,
                   key="%s|%s|%s|accepts-candidate-behind-in-%s" % (ctx.pid, rule, CL + "validate_log_for_vote", f))
    # dominance over both grants
    R.rule_grant_dominated(ctx, rule, ["validate_log_for_vote"], fn="vote_request", effects=("voted", "ok"))
    R.rule_grant_dominated(ctx, rule, ["validate_log_for_vote"], fn="pre_vote_request", effects=("ok",))


def run(ctx):
    rule_election_restriction(ctx)
    R.rule_majority(ctx, "R27c")
    C28.rule_commit_quorum(ctx, "R28e")
    C28.rule_prev_check(ctx, "R28e")
    return 0
