"""C29 — entries committed by a leader survive every later leader."""
from lib import cfg
from rules import common
from rules import C27 as R
from rules import C28

EXPLANATION = (
    "Static analysis of agdb_server/src/raft.rs: (R29a) the election restriction: validate_log_for_vote returns Ok only on "
    "edges implying local.log_index <= request.log_index, local.log_term <= request.log_term and local.log_commit <= "
    "request.log_commit (a candidate behind the voter in any of the three is rejected), and both the pre-vote grant and the "
    "vote grant are reachable only through its Ok edge; together with (R27c) strict majorities in vote_received / "
    "pre_vote_received (any two majorities intersect) and (R28e) the leader's commit rule (strict majority, entry of the "
    "current term, acknowledgements that prove the follower holds the leader's log), re-evaluated here.")
DECIDED = ["R29a election restriction table and its dominance over both grants (TABLE + DOM)",
           "R27a-g election safety: one vote per term, durable, counted for the right election (re-evaluated, shared with C27)",
           "R28a-f term fencing of the append path, commit rule, reconciliation (re-evaluated, shared with C28)"]
UNDECIDED = ["the election-restriction argument itself (leader completeness over schedules; needs execution)"]

CL = R.CL
# R27e / R27f (vote durability, votes of this election) are violated on the pinned tree: known findings, with a
# C29-specific demonstration each (findings/server/F17_C29_demo.rs, F20_C29_demo.rs: a later leader lacks a committed entry)
FIELDS = ("log_index", "log_term", "log_commit")


def rule_election_restriction(ctx, rule="R29a"):
    fa = ctx.facts
    b = ctx.anchor(rule, CL + "validate_log_for_vote")
    if b:
        okb, errb = R.ok_return_blocks(b)
        cmps = R.cmp_edges(fa, b)
        for f in FIELDS:
            permit = R.edges_implying(cmps, "local." + f, "request." + f, "<=")
            p = cfg.find_path(b, [0], okb, removed_edges=[e for d, e in permit])
            ok = bool(okb and permit) and p is None
            ctx.ob(rule, "validate_log_for_vote[%s]" % f, ok,
                   "Ok only on %s (rejects local.%s > request.%s)" % (sorted({d for d, e in permit}), f, f) if ok else
                   "validate_log_for_vote can return Ok although local.%s > request.%s: a candidate whose log is behind "
                   "the voter's gets the vote and can overwrite entries the voter holds (%s); comparisons: %s" % (
                       f, f, cfg.path_str(b, p) if p else "no comparison of the two found",
                       [(c["a"], c["op"], c["b"]) for c in cmps]), b.where,
                   key="%s|%s|%s|accepts-candidate-behind-in-%s" % (ctx.pid, rule, CL + "validate_log_for_vote", f))
    # dominance over both grants
    R.rule_grant_dominated(ctx, rule, ["validate_log_for_vote"], fn="vote_request", effects=("voted", "ok"))
    R.rule_grant_dominated(ctx, rule, ["validate_log_for_vote"], fn="pre_vote_request", effects=("ok",))


def run(ctx):
    rule_election_restriction(ctx)
    # leader completeness rests on election safety (one leader per term: a second leader of the same term is elected
    # without the first one's entries) and on the fencing / log-matching rules of the append path (a deposed leader
    # must not get acknowledgements): the rules of C27 and C28 are re-evaluated here, including R27c / R28e
    R.rule_leader_term_is_vote_term(ctx)
    R.rule_grant_dominated(ctx, "R27a", ["validate_hash", "validate_vote_state", "validate_term_for_vote", "validate_log_for_vote"])
    R.rule_reject_tables(ctx)
    R.rule_majority(ctx)
    R.rule_who_leader(ctx)
    R.rule_vote_durable(ctx)
    R.rule_votes_of_this_election(ctx)
    R.rule_stepdown_needs_newer_term(ctx)
    R.rule_election_resets_votes(ctx)
    C28.rule_reconcile_from_commit(ctx)
    C28.rule_commit_monotone(ctx)
    C28.rule_validated_first(ctx)
    C28.rule_accept_above_commit(ctx)
    C28.rule_remove_uncommitted_only(ctx)
    C28.rule_commit_quorum(ctx)
    C28.rule_prev_check(ctx)
    C28.rule_cached_tip_follows_storage(ctx)
    return 0
