"""C04 — stored data survives space reuse and defragmentation."""
from lib import cfg
from rules import common

CRATES = ("agdb",)
EXPLANATION = (
    "Static analysis of Storage<D>: reopening rebuilds the record table from on-disk headers, so (R04a) every function "
    "that mutates the in-memory record table must, on every success path, also write the corresponding on-disk header "
    "(write_record / data.write / truncate / free_a_region); (R04b) value reads are reachable only through the Ok edge of "
    "validate_read_size; (R04c) defragmentation truncates and clears the free list inside its bracket.")
DECIDED = ["R04a record table and on-disk headers move together (MUST over all success paths)",
           "R04b reads are bounds-checked against the record (DOM / cut on the validator's Ok edge)",
           "R04c optimize_storage ends with truncate then clear_free before commit",
           "R04c (cont.) optimize_storage has no early exit",
           "R04c (cont.) the whole compaction pass is one storage transaction",
           "R04d left-over free regions always get a header (guard compares with zero or two sizes)",
           "R04e the file is truncated only at boundaries the record table knows (provenance of every truncate argument)"]
UNDECIDED = ["free-list arithmetic (take_free, take_free_after, mark_free_compact, enlarge_in_place remainders)",
             "byte equality of values after arbitrary histories"]

S = "agdb::storage::Storage::"
REC = "agdb::storage::storage_records::StorageRecords::"
TABLE_MUTATORS = {REC + m for m in ("new_record", "set_pos", "set_size", "remove_index", "mark_free_compact")}
WRAPPERS = {S + "new_record": "thin wrapper of StorageRecords::new_record", S + "remove_index": "thin wrapper of StorageRecords::remove_index"}
HEADER_WRITERS = {S + "write_record", "agdb::storage::StorageData::write", S + "truncate", S + "free_a_region",
                  S + "update_record"}


def reader_rule(ctx):
    """R04b (shared with C05): value reads are validated; raw storage bytes are read only by the frozen readers."""
    fa = ctx.facts
    b = ctx.anchor("R04b", S + "value_as_bytes_at_size")
    if b:
        rd = [i for i, t in cfg.calls(b) if cfg.callee_decl(t) == "agdb::storage::StorageData::read"]
        val = cfg.call_blocks(b, [S + "validate_read_size"])
        cut = set()
        for i in val:
            for te in cfg.try_edges(b, cfg.derived_locals(b, [b.blocks[i]["term"]["d"][0]])):
                if te["ok_edge"]:
                    cut.add(te["ok_edge"])
        ok = bool(rd) and bool(cut) and cfg.find_path(b, [0], rd, removed_edges=cut) is None
        ctx.ob("R04b", "value_as_bytes_at_size", ok,
               "StorageData::read reachable only through validate_read_size(..)?" if ok else
               "StorageData::read reachable without a successful validate_read_size", b.where)
        # every reader of record data goes through it
        readers = []
        where = {}
        for fb in fa.find(r"^agdb::storage::Storage::"):
            if [1 for i, t in cfg.calls(fb) if cfg.callee_decl(t) == "agdb::storage::StorageData::read"]:
                readers.append(common.norm(fb.npath))
                where[common.norm(fb.npath)] = fb.where
        allowed = {S + "value_as_bytes_at_size": "validated by validate_read_size (above)",
                   S + "read_record": "fixed-size header read at a position read_records bounds by the file length",
                   S + "read_value": "whole value of a record taken from the validated table",
                   S + "enlarge_move_to": "whole value of a record taken from the validated table",
                   S + "validate_or_update_version": "legacy (pre-0.11) content read bounded by self.len()"}
        for r in sorted(readers):
            ctx.ob("R04b", "reader:" + r, r in allowed,
                   "reads through: " + allowed.get(r, "") if r in allowed else
                   "`%s` reads raw storage bytes but is not in the frozen reader table (every reader of record data is listed with "
                   "the reason its range is inside the record; a new one must be reviewed: bounds, and for a relocation "
                   "that the source is read completely before the destination is written)" % r, where.get(r, ""))


def optimize_rule(ctx):
    """R04c (shared with C32): the compaction pass is one storage transaction that ends with truncate + clear_free."""
    fa = ctx.facts
    b = ctx.anchor("R04c", S + "optimize_storage")
    if b:
        opens = [i for i, t in cfg.calls(b) if cfg.callee_decl(t) in common.OPEN_DECLS]
        closes = [i for i, t in cfg.calls(b) if cfg.callee_decl(t) in common.CLOSE_DECLS]
        tr = cfg.call_blocks(b, [S + "truncate"])
        cf = cfg.call_blocks(b, [REC + "clear_free"])
        ok = bool(opens and closes and tr and cf)
        if ok:
            ok = (cfg.find_path(b, opens, closes, avoid=tr, leave_start=True) is None and
                  cfg.find_path(b, opens, closes, avoid=cf, leave_start=True) is None and
                  cfg.find_path(b, opens, cf, avoid=tr, leave_start=True) is None)
        ctx.ob("R04c", "optimize_storage", ok,
               "bracket: ... truncate -> clear_free -> commit on every path" if ok else
               "optimize_storage can commit without truncating the file and clearing the free list", b.where)
        # no early exit: every success path from the ENTRY performs the compaction pass.  (An early return under a
        # "nothing to reclaim" test is how unused space survives: free_size() counts data bytes only, not the
        # 16-byte headers of empty free regions.  A provably correct early exit would have to be added to this rule.)
        okb, errb, unk = cfg.ret_class_blocks(b)
        targets = (okb + unk) or cfg.return_blocks(b)
        p1 = cfg.find_path(b, [0], targets, avoid=tr) if tr else [0]
        p2 = cfg.find_path(b, [0], targets, avoid=cf) if cf else [0]
        ctx.ob("R04c", "optimize_storage:no-early-exit", p1 is None and p2 is None,
               "every successful optimize_storage truncates the file and clears the free list" if (p1 is None and p2 is None)
               else "optimize_storage can return successfully without compacting (%s): unused space may remain after "
               "defragmentation" % cfg.path_str(b, p1 or p2), b.where)
        # one bracket around the whole pass: no commit inside the move loop (a failed write must undo every move made so
        # far: a half-packed file has stale headers between the packed and the unpacked part and cannot be scanned)
        loops = cfg.sccs(b)
        in_loop = [i for i in opens + closes if any(i in c for c in loops)]
        moves = common.call_blocks_reaching(fa, b, [S + "shrink_index"])     # directly or through a helper
        ok1 = bool(moves) and len(opens) == 1 and not in_loop and \
            cfg.find_path(b, [0], moves, avoid=opens) is None and \
            all(cfg.find_path(b, closes, [m], leave_start=True) is None for m in moves)
        ctx.ob("R04c", "optimize_storage:single-transaction", ok1,
               "all record moves happen inside the one transaction opened at the start" if ok1 else
               "optimize_storage commits between record moves (transaction calls inside the loop: %s, opens: %d): a write "
               "failure in the middle leaves the moves made so far durable and the file half-packed" % (
                   [b.loc(i) for i in in_loop], len(opens)), b.where)


def truncate_rule(ctx, rule="R04e"):
    """The file shrinks only to a boundary the record table knows: the start of the record that has just been removed,
    the end of the (last) record that has just been shrunk, or the packed end computed by the compaction pass (which then
    clears the free list).  A truncation point taken from anywhere else - e.g. the start of a preceding *free* region -
    leaves the in-memory free index pointing past the end of the file: the next two inserts overlap."""
    fa = ctx.facts
    n = 0
    from lib import inline
    for b in sorted(fa.find(r"^agdb::storage::Storage::"), key=lambda x: x.npath):
        b = inline.inlined(fa, b)
        for i, t in cfg.calls(b):
            if common.norm(cfg.callee(t) or "") != S + "truncate" or len(t["a"]) < 2:
                continue
            n += 1
            o = cfg.op_origin(b, t["a"][1])
            kind = None
            if o and o[1] and o[1][-1] in (".pos",):
                kind = "record.pos"
            dc = cfg.def_call(b, o[0]) if o and not o[1] else None
            if dc and common.norm(cfg.callee(dc[1]) or "").endswith("StorageRecord::end"):
                kind = "record.end()"
            if kind is None:
                # any position is fine when the free index is emptied right afterwards (the compaction pass)
                cf = cfg.call_blocks(b, [REC + "clear_free"])
                okb, errb, unk = cfg.ret_class_blocks(b)
                if cf and cfg.find_path(b, [i], (okb + unk) or cfg.return_blocks(b), avoid=cf, leave_start=True) is None:
                    kind = "the compaction cursor (the free list is cleared afterwards on every success path)"
            ctx.ob(rule, "%s:truncate#%d" % (common.norm(b.npath).split("::")[-1], n), kind is not None,
                   "truncates at %s" % kind if kind else
                   "`%s` truncates the file at a position that is neither the removed record's start, nor a record's end, nor "
                   "the compaction cursor: a free region cut off by the truncation stays in the free index and is handed out "
                   "again beyond the end of the file" % common.norm(b.npath), b.loc(i))
    ctx.floor(rule, "Storage::truncate call sites", n, 3)


def run(ctx):
    fa = ctx.facts
    n = 0
    for b in sorted(fa.find(r"^agdb::storage::Storage::"), key=lambda x: x.npath):
        if common.norm(b.npath) in WRAPPERS or b.npath.endswith(("read_records", "with_data")):
            continue
        muts = [i for i, t in cfg.calls(b) if (cfg.callee(t) in TABLE_MUTATORS or cfg.callee(t) in WRAPPERS)]
        if not muts:
            continue
        n += 1
        io = [i for i, t in cfg.calls(b) if (cfg.callee_decl(t) in HEADER_WRITERS or cfg.callee(t) in HEADER_WRITERS)]
        okb, errb, unk = cfg.ret_class_blocks(b)
        targets = (okb + unk) or cfg.return_blocks(b)
        for m in muts:
            p = cfg.find_path(b, [m], targets, avoid=io, leave_start=True)
            ctx.ob("R04a", "%s:%s" % (common.norm(b.npath), cfg.callee(b.blocks[m]["term"]).split("::")[-1]), p is None,
                   "table mutation is followed by a header write on every success path" if p is None else
                   "record table changed without writing the on-disk header on path %s: after reopen the table "
                   "rebuilt from headers disagrees" % cfg.path_str(b, p), b.loc(m),
                   key="%s|R04a|%s|%s" % (ctx.pid, common.norm(b.npath), cfg.callee(b.blocks[m]["term"]).split("::")[-1]))
    ctx.floor("R04a", "Storage functions mutating the record table", n, 8)

    reader_rule(ctx)

    # R04d: the left-over of a consumed free region always gets its own (free) header: the header chain is scanned
    # sequentially on reopen, so a header-less gap - however small - makes the rest of the file unreadable.  The
    # free_a_region call that writes it may be skipped only when the left-over is empty: its guard compares with zero
    # or compares two sizes; a non-zero constant threshold ("only if more than a header is left") is a violation.
    n_left = 0
    for fb in sorted(fa.find(r"^agdb::storage::Storage::"), key=lambda x: x.npath):
        takes = lambda body: any(cfg.callee(t) in (REC + "take_free", REC + "take_free_after") for i, t in cfg.calls(body))
        consumes = takes(fb) or any(takes(cb) for cb, j, tj in common.callers_of(fa, common.norm(fb.npath), "agdb"))
        if not consumes:
            continue
        for i, t in cfg.calls(fb):
            if cfg.callee(t) != S + "free_a_region":
                continue
            for i_sw, blk in enumerate(fb.blocks):
                tt = blk["term"]
                if blk.get("cleanup") or tt["k"] != "switch" or tt.get("x"):
                    continue
                pl = cfg.op_place(tt["d"])
                ds = [d for d in cfg.defs(fb).get(pl[0], []) if d[0] == "assign"] if pl else []
                if not (ds and ds[0][2]["k"] == "bin" and ds[0][2]["op"] in ("Eq", "Ne", "Lt", "Le", "Gt", "Ge")):
                    continue
                if not any(cfg.find_path(fb, [0], [i], removed_edges=[(i_sw, tg)]) is None for tg in cfg.succs(fb, i_sw)):
                    continue          # this comparison does not decide the call
                n_left += 1
                r = ds[0][2]
                consts = [cfg.op_const(o).get("v") for o in (r["a"], r["b"]) if cfg.op_const(o)]
                ok = (not consts) or consts == [0]
                ctx.ob("R04d", "%s:left-over-header-guard" % common.norm(fb.npath), ok,
                       "the left-over free header is skipped only for an empty left-over (%s)" % (
                           "compared with 0" if consts else "two sizes compared") if ok else
                       "`%s` skips the free header of a left-over region below the constant threshold %s: a small non-empty "
                       "gap stays without a header and the file cannot be scanned on reopen" % (common.norm(fb.npath), consts),
                       fb.loc(i_sw), key="%s|R04d|%s|left-over-header-guard" % (ctx.pid, common.norm(fb.npath)))
    ctx.floor("R04d", "guards of left-over free headers", n_left, 3)
    # ... and every region taken out of the free list is handled that way: each call of a StorageRecords method that
    # removes a free region and hands its position out (take_free, take_free_after, any new sibling) reaches, on its
    # Some edge, the free_a_region call for the left-over.  A taker that reports no size cannot be used correctly.
    takers = {}
    for tb in fa.find(r"^agdb::storage::storage_records::StorageRecords::"):
        if "Option<" in (tb.d.get("ret") or tb.local_ty(0)) and any(cfg.callee(t) == REC + "remove_free" for i, t in cfg.calls(tb)):
            takers[common.norm(tb.npath)] = tb
    n_take = 0
    for fb in sorted(fa.find(r"^agdb::storage::Storage::"), key=lambda x: x.npath):
        k = 0
        for i, t in cfg.calls(fb):
            nm = common.norm(cfg.callee(t) or "")
            if nm not in takers:
                continue
            n_take += 1
            k += 1
            fr = common.call_blocks_reaching(fa, fb, [S + "free_a_region"]) if hasattr(common, "call_blocks_reaching") else \
                cfg.call_blocks(fb, [S + "free_a_region"])
            edges = [te["ok_edge"] for te in cfg.result_edges(fb, [t["d"][0]]) if te.get("ok_edge")]
            ok = bool(edges) and bool(fr) and any(cfg.find_path(fb, [e[1]], fr) is not None for e in edges)
            ctx.ob("R04d", "%s:%s#%d:left-over-gets-a-header" % (common.norm(fb.npath), nm.split("::")[-1], k), ok,
                   "the region taken by %s is followed by free_a_region for its left-over" % nm.split("::")[-1] if ok else
                   "`%s` takes a region out of the free list with `%s` but no path from there writes a free header for the "
                   "part the new value does not use: stray bytes stay between (or behind) the records and the header chain "
                   "cannot be scanned when the file is opened after a crash" % (common.norm(fb.npath), nm.split("::")[-1]),
                   fb.loc(i), key="%s|R04d|%s|%s-left-over" % (ctx.pid, common.norm(fb.npath), nm.split("::")[-1]))
    ctx.floor("R04d", "calls that take a region out of the free list", n_take, 3)

    optimize_rule(ctx)
    truncate_rule(ctx)
    return 0
