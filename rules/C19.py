"""C19 — every query terminates (hash-map probe loops)."""
from lib import cfg
from rules import common

CRATES = ("agdb",)
EXPLANATION = (
    "Static LOOP rule over the MIR of collections::multi_map and collections::map (the hashed containers behind aliases, "
    "indexes and key lookups): every natural loop (SCC) must carry a recognised structural termination witness: "
    "(W1) an exit guarded by an equality test between a loop-variant cursor and a loop-invariant value (wrap-around "
    "sentinel `pos == start`, or monotone cursor reaching `capacity`), (W2) a `for` loop over an iterator whose own "
    "`next` is classified, or (W3) membership in the frozen table of loops that exit on every non-Valid slot, which is "
    "accepted only together with the dominating load-factor guard that guarantees such a slot exists. A probe loop that "
    "only stops at an Empty slot or a matching key has no witness: tombstones can fill the table. (R19s) The graph search "
    "drivers (SearchImpl::search, PathSearch::search) are worklist loops: witness W4 = every iteration removes one work "
    "item; work items are pushed only by the expansion step; the expansion step is reachable only through the clear "
    "edge of the element's visited bit and sets that bit before pushing, so it runs at most once per element.")
DECIDED = ["R19 every loop of the hashed collections has a termination witness (LOOP, all SCCs enumerated)",
           "R19 (cont.) the sentinel test lies on every cycle of the loop; probe loops of the frozen table stop at every non-Valid slot",
           "R19t slot states of the hash tables are written only by insert / remove / full rehash (WHO table, shared)",
           "R19s search drivers are worklist loops (W4): one item removed per iteration, items added only by the expansion "
           "of an element, which is reachable only while its visited bit is clear and sets it (PathSearch; SearchImpl via R14b)",
           "R19u a capacity change of a hash table runs the full rebuild (shared)"]
UNDECIDED = ["time bounds", "termination of graph list walks on corrupted adjacency lists (C07 territory)",
             "loops outside collections::{multi_map,map} and the search drivers are classified for information only",
             "finiteness of one element's adjacency iteration (a corrupted list can be cyclic: C07 territory)"]

FILES = ("agdb/src/collections/multi_map.rs", "agdb/src/collections/map.rs")
PURE_GETTERS = ("::capacity", "::len")
# W3: loops whose only exits depend on slot state; accepted with the named guard (one line of reason each)
DATA_INVARIANT_LOOPS = {
    "agdb::collections::multi_map::MultiMapImpl::free_index":
        ("exits on every non-Valid slot; `len >= max_len => rehash(2x)` before the loop keeps len < capacity",
         "agdb::collections::multi_map::MultiMapImpl::rehash"),
    "agdb::collections::multi_map::MultiMapImpl::rehash_valid":
        ("exits on the first unoccupied bit; at most `len` bits are occupied and len < new_capacity", None),
}


def assigned_in(b, comp, place_origin):
    root, fields = place_origin
    for i in comp:
        blk = b.blocks[i]
        for s in blk["s"]:
            if "l" in s:
                o = cfg.origin(b, s["l"]) if len(s["l"]) > 1 or True else None
                lroot = s["l"][0]
                lf = [e for e in s["l"][1:] if e != "*"]
                if (lroot, lf) == (root, fields):
                    return True
                # assignment through the canonical origin (e.g. (*_1).pos)
                if "*" in s["l"][1:] and lroot != root:
                    o2 = cfg.origin(b, [lroot])
                    if o2[0] == root and o2[1] + lf == fields:
                        return True
                r = s["r"]
                if r["k"] == "ref" and r["mut"] and not fields:
                    if r["p"][0] == root and len(r["p"]) == 1:
                        return True      # &mut cursor handed to a callee
        t = blk["term"]
        if t["k"] == "call" and t["d"][0] == root and not fields and len(t["d"]) == 1:
            return True
    return False


def cursor_wraps(b, comp, var):
    """The cursor is reset / reduced inside the loop (wrap-around probing): assigned the constant 0, the result of a
    remainder, or the result of `next_pos`.  Otherwise it only moves forward and any loop-invariant bound ends the loop."""
    root, fields = var
    for i in comp:
        blk = b.blocks[i]
        for st in blk["s"]:
            if "l" not in st:
                continue
            lf = [e for e in st["l"][1:] if e != "*"]
            direct = st["l"][0] == root and lf == fields
            through_ref = "*" in st["l"][1:] and st["l"][0] != root and cfg.origin(b, [st["l"][0]])[0] == root and \
                cfg.origin(b, [st["l"][0]])[1] + lf == fields
            if not (direct or through_ref):
                continue
            r = st["r"]
            if r["k"] == "use":
                c = cfg.op_const(r["o"])
                if c is not None and c.get("v") == 0:
                    return True
                pl = cfg.op_place(r["o"])
                if pl:
                    for d in [x for x in cfg.defs(b).get(pl[0], []) if x[1] in comp]:
                        if d[0] == "assign" and d[2]["k"] == "use" and cfg.op_const(d[2]["o"]) and cfg.op_const(d[2]["o"]).get("v") == 0:
                            return True
                        if d[0] == "assign" and d[2]["k"] == "bin" and d[2]["op"] == "Rem":
                            return True
                        if d[0] == "call" and (cfg.callee(d[2]) or "").endswith("::next_pos"):
                            return True
            if r["k"] == "bin" and r["op"] == "Rem":
                return True
        t = blk["term"]
        if t["k"] == "call" and not fields and t["d"] == [root] and (cfg.callee(t) or "").endswith("::next_pos"):
            return True
    return False


def sentinel_is_cursor_start(fa, b, comp, var, inv):
    """The invariant side `inv` (origin) of a wrap-around test equals the value the cursor `var` (origin) had when the loop
    was entered: a snapshot `let start = pos`, the same initialiser, or - for fields of an iterator struct - every
    constructor of the struct initialises both fields from the same value."""
    # fields of self: check the constructors
    if var[0] == inv[0] and 0 < var[0] <= b.d["argc"] and var[1] and inv[1]:
        fv, fi = var[1][-1][1:], inv[1][-1][1:]
        ty = b.local_ty(var[0]).replace("&mut ", "").replace("&", "").split("<")[0].strip()
        found = 0
        for cb in fa.bodies.values():
            if cb.crate != b.crate:
                continue
            for bi, st in cfg.assigns(cb):
                r = st["r"]
                if r["k"] == "agg" and r.get("what") == "adt" and (r.get("adt") or "").split("<")[0] == ty and \
                        fv in r.get("fields", []) and fi in r.get("fields", []):
                    found += 1
                    ov = cfg.op_origin(cb, r["ops"][r["fields"].index(fv)])
                    oi = cfg.op_origin(cb, r["ops"][r["fields"].index(fi)])
                    if ov is None or ov != oi:
                        return False
        return found > 0
    if inv[1] or var[1]:
        return False
    s_loc, c_loc = inv[0], var[0]
    outside = lambda l: [d for d in cfg.defs(b).get(l, []) if d[0] != "partial" and d[1] not in comp]
    sd = outside(s_loc)
    cd = outside(c_loc)
    if len(sd) != 1:
        return False

    def src(d):
        if d[0] == "assign" and d[2]["k"] in ("use", "cast") and cfg.op_place(d[2]["o"]):
            pl = cfg.op_place(d[2]["o"])
            return pl[0] if len(pl) == 1 else None
        return None
    if src(sd[0]) == c_loc:
        return True                      # let start = pos;
    if len(cd) == 1 and src(cd[0]) == s_loc:
        return True                      # let mut pos = start;
    if len(cd) == 1 and src(sd[0]) is not None and src(sd[0]) == src(cd[0]):
        return True                      # both copies of one value
    return False


def classify(b, comp, fa):
    """Return (kind, detail) for loop `comp` of body b."""
    exits = [(u, v) for u in sorted(comp) for v in cfg.succs(b, u) if v not in comp]
    # W2: for-loop
    for u, v in exits:
        t = b.blocks[u]["term"]
        if t["k"] == "switch" and t.get("x") == "desugar:ForLoop":
            nxt = [cfg.callee_full(tt) or cfg.callee(tt) for i, tt in cfg.calls(b) if i in comp and
                   (cfg.callee_decl(tt) or "").endswith("Iterator::next")]
            return "W2", "for loop over %s" % (nxt[0] if nxt else "iterator")
    # W1: sentinel exit
    for u, v in exits:
        t = b.blocks[u]["term"]
        if t["k"] != "switch":
            continue
        pl = cfg.op_place(t["d"])
        if not pl or len(pl) != 1:
            continue
        # find the comparison feeding this switch (through Not)
        seen = set()
        cur = pl[0]
        cmp_stmt = None
        for _ in range(6):
            ds = [d for d in cfg.defs(b).get(cur, []) if d[0] == "assign"]
            if len(ds) != 1 or cur in seen:
                break
            seen.add(cur)
            r = ds[0][2]
            if r["k"] == "bin" and r["op"] in ("Eq", "Ne"):
                cmp_stmt = r
                break
            if r["k"] == "un" and r["op"] == "Not":
                cur = cfg.op_place(r["a"])[0]
                continue
            if r["k"] == "use" and cfg.op_place(r["o"]):
                cur = cfg.op_place(r["o"])[0]
                continue
            break
        if not cmp_stmt:
            continue
        sides = []
        for o in (cmp_stmt["a"], cmp_stmt["b"]):
            if cfg.op_const(o):
                sides.append(("const", None))
                continue
            org = cfg.op_origin(b, o)
            dc = cfg.def_call(b, org[0]) if org and not org[1] else None
            if dc and (cfg.callee(dc[1]) or "").endswith(PURE_GETTERS):
                sides.append(("invariant-getter", org))
            elif org and assigned_in(b, comp, org):
                sides.append(("variant", org))
            else:
                sides.append(("invariant", org))
        kinds = sorted(k for k, _ in sides)
        if "variant" in kinds and any(k in ("invariant", "invariant-getter", "const") for k in kinds):
            var = [o for k, o in sides if k == "variant"][0]
            # the sentinel must be tested on EVERY iteration: without its block the loop body has no cycle left
            # (a `continue` that jumps over the wrap-around test defeats it)
            rest = set(comp) - {u}
            cyc = False
            for s0 in rest:
                seen_, stack = set(), [x for x in cfg.succs(b, s0) if x in rest]
                while stack:
                    x = stack.pop()
                    if x == s0:
                        cyc = True
                        break
                    if x in seen_:
                        continue
                    seen_.add(x)
                    stack.extend(y for y in cfg.succs(b, x) if y in rest)
                if cyc:
                    break
            if cyc:
                return None, ("the sentinel test at %s can be bypassed: some cycle of the loop does not pass it" % b.loc(u))
            # a wrap-around sentinel must be a position the cursor actually visits: the value the cursor started from
            # (`let start = pos;`, or the `start` field set together with `pos`).  Bounds (capacity()/len(), constants)
            # are for monotone cursors and need no such link.
            inv = [(k, o) for k, o in sides if k == "invariant"]
            if inv and inv[0][1] is not None and cursor_wraps(b, comp, var) and \
                    not sentinel_is_cursor_start(fa, b, comp, var, inv[0][1]):
                return None, ("the loop-invariant value compared with the cursor at %s is not the cursor's starting position "
                              "(e.g. the unreduced hash instead of `hash %% capacity`): the cursor may never reach it" % b.loc(u))
            return "W1", "exit on `%s %s <loop-invariant>` at %s, tested on every iteration" % (
                (b.local_name(var[0]) or "_%d" % var[0]) + "".join(var[1]), cmp_stmt["op"], b.loc(u))
    return None, "exits: %s" % ", ".join(b.loc(u) for u, v in exits[:6])


# ---------------------------------------------------------------- R19s: the search drivers (worklist loops)

PS = "agdb::graph_search::path_search::PathSearch::"
SI = "agdb::graph_search::search_impl::SearchImpl::"


def _same_index_arg(b, t_a, t_b):
    """both calls take `<x>.as_u64()` of the same origin as their second argument"""
    def src(t):
        dc = cfg.def_call(b, cfg.op_place(t["a"][1])[0]) if len(t["a"]) > 1 and cfg.op_place(t["a"][1]) else None
        if dc and (cfg.callee(dc[1]) or "").endswith("::as_u64") and dc[1]["a"]:
            return cfg.op_origin(b, dc[1]["a"][0])
        return cfg.op_origin(b, t["a"][1]) if len(t["a"]) > 1 else None
    return src(t_a) is not None and src(t_a) == src(t_b)


def search_worklist_rule(ctx, rule="R19s"):
    """W4 (worklist): every iteration of a search driver removes one work item, and work items are added only while an
    element is expanded, which happens at most once per element: the expansion is reachable only when the element's
    visited bit is clear, and sets it.  The number of iterations is then bounded by elements + pushed items."""
    fa = ctx.facts
    # ---- path search
    b = ctx.anchor(rule, PS + "process_index")
    if b:
        vals = [(i, t) for i, t in cfg.calls(b) if common.norm(cfg.callee(t) or "").endswith("BitSet::value")]
        ex = [(i, t) for i, t in cfg.calls(b) if common.norm(cfg.callee(t) or "") == PS + "expand"]
        ok = len(vals) == 1 and bool(ex)
        if ok:
            sws = cfg.bool_switches(b, cfg.derived_locals(b, [vals[0][1]["d"][0]]))
            ok = bool(sws) and all(cfg.find_path(b, [0], [i], removed_edges=[sw["false_edge"] for sw in sws]) is None for i, t in ex)
            ok = ok and all(cfg.op_origin(b, t["a"][1]) == _arg_of_value(b, vals[0][1]) for i, t in ex)
        ctx.ob(rule, "PathSearch::process_index:expand-unvisited-only", ok,
               "expand(index) is reachable only when visited.value(index) is false" if ok else
               "PathSearch::process_index can expand an element whose visited bit is already set (or tests another index): "
               "on a cyclic graph the path list never drains", b.where)
    b = ctx.anchor(rule, PS + "expand")
    if b:
        st = [(i, t) for i, t in cfg.calls(b) if common.norm(cfg.callee(t) or "").endswith("BitSet::set")]
        okb, errb, unk = cfg.ret_class_blocks(b)
        pushers = common.call_blocks_reaching(fa, b, ["std::vec::Vec::push"]) if False else \
            [i for i, t in cfg.calls(b) if common.norm(cfg.callee(t) or "") in (PS + "expand_edge", PS + "expand_node")]
        ok = bool(st) and cfg.find_path(b, [0], okb + unk, avoid=[i for i, t in st]) is None and \
            cfg.find_path(b, [0], pushers, avoid=[i for i, t in st]) is None
        if ok:
            dc = cfg.def_call(b, cfg.op_place(st[0][1]["a"][1])[0])
            ok = bool(dc) and (cfg.callee(dc[1]) or "").endswith("::as_u64") and cfg.op_origin(b, dc[1]["a"][0])[0] == 2
        ctx.ob(rule, "PathSearch::expand:marks-visited", ok,
               "visited.set(index) precedes every push of a continuation and every success return" if ok else
               "PathSearch::expand no longer marks the expanded element visited before adding continuations", b.where)
    for fn, callers in ((PS + "expand_node", {PS + "expand_edge"}), (PS + "expand_edge", {PS + "expand"}),
                        (PS + "expand", {PS + "process_index"})):
        ups = {common.norm(ub.root or ub.npath) for ub, j, tj in common.callers_of(fa, fn, "agdb")}
        ctx.ob(rule, "only-caller:%s" % fn.split("::")[-1], ups == callers,
               "called only from %s" % sorted(x.split("::")[-1] for x in callers) if ups == callers else
               "`%s` (adds work items) is called from %s, expected only %s" % (fn, sorted(ups), sorted(callers)), "")
    pushes = []
    for pb in fa.find(r"^agdb::graph_search::path_search::PathSearch::"):
        for i, t in cfg.calls(pb):
            if cfg.callee(t) == "std::vec::Vec::push" and t["a"]:
                o = cfg.op_origin(pb, t["a"][0])
                if o and o[0] == 1 and o[1][:1] == [".paths"]:
                    pushes.append(common.norm(pb.npath))
    ctx.ob(rule, "PathSearch:paths-pushed-by", set(pushes) == {PS + "expand_node"},
           "self.paths grows only in expand_node" if set(pushes) == {PS + "expand_node"} else
           "self.paths is pushed to by %s, expected only expand_node" % sorted(set(pushes)), "")
    b = ctx.anchor(rule, PS + "search")
    plp = ctx.anchor(rule, PS + "process_last_path")
    if b and plp:
        cs = [i for i, t in cfg.calls(b) if common.norm(cfg.callee(t) or "") == PS + "process_last_path"]
        fin = [i for i, t in cfg.calls(b) if common.norm(cfg.callee(t) or "") == PS + "is_finished"]
        loops = [c for c in cfg.sccs(b) if cs and cs[0] in c]
        ok = bool(loops and fin) and all(fin[0] in c for c in loops)
        pops = [i for i, t in cfg.calls(plp) if cfg.callee(t) == "std::vec::Vec::pop"]
        ok = ok and bool(pops) and cfg.must_pass(plp, [0], pops, cfg.return_blocks(plp))[0]
        ctx.ob(rule, "PathSearch::search:loop", ok,
               "every iteration tests is_finished() and pops one path (process_last_path)" if ok else
               "PathSearch::search: an iteration no longer removes a path from the work list / tests is_finished", b.where)
    fi = ctx.anchor(rule, PS + "is_finished")
    if fi:
        ie = [t for i, t in cfg.calls(fi) if (cfg.callee(t) or "").endswith("::is_empty") and
              (cfg.op_origin(fi, t["a"][0]) or (0, []))[1][:1] == [".paths"]]
        ctx.ob(rule, "PathSearch::is_finished", bool(ie), "finished when the path list is empty" if ie else
               "is_finished no longer tests self.paths.is_empty()", fi.where)
    # ---- breadth/depth-first searches: visit-once is R14b (visit_index reads-then-sets, process_index expands only
    # unvisited elements); here: work items are added only by the algorithms' expand, called only for an unvisited element
    exp_callers = set()
    pushers = set()
    for sb in fa.bodies.values():
        if sb.crate != "agdb" or not sb.file.startswith("agdb/src/graph_search/") or "path_search" in sb.file:
            continue
        for i, t in cfg.calls(sb):
            d = cfg.callee_decl(t) or ""
            if d.endswith("SearchIterator::expand"):
                exp_callers.add(common.norm(sb.root or sb.npath))
            if cfg.callee(t) in ("std::collections::VecDeque::push_back", "std::collections::VecDeque::push_front", "std::vec::Vec::push"):
                o = cfg.op_origin(sb, t["a"][0]) if t["a"] else None
                if o and o[0] == 1 and o[1][:1] == [".stack"]:
                    pushers.add((sb.d.get("name"), sb.d.get("impl_trait", "") or ""))
    ctx.ob(rule, "SearchImpl:expand-callers", exp_callers == {SI + "process_unvisited_index"},
           "SearchIterator::expand is called only from process_unvisited_index" if exp_callers == {SI + "process_unvisited_index"} else
           "SearchIterator::expand is called from %s" % sorted(exp_callers), "")
    bad = sorted(p for p in pushers if p[0] not in ("expand", "new"))
    ctx.ob(rule, "SearchIterator:pushers", bool(pushers) and not bad,
           "the work lists grow only in new() and expand()" if pushers and not bad else
           "a search work list is pushed to outside new()/expand(): %s" % bad, "")
    from rules import C14
    C14.visit_once_rule(ctx)


def _arg_of_value(b, t):
    dc = cfg.def_call(b, cfg.op_place(t["a"][1])[0]) if len(t["a"]) > 1 and cfg.op_place(t["a"][1]) else None
    if dc and (cfg.callee(dc[1]) or "").endswith("::as_u64") and dc[1]["a"]:
        return cfg.op_origin(b, dc[1]["a"][0])
    return None



def run(ctx):
    fa = ctx.facts
    n = 0
    for b in sorted(fa.bodies.values(), key=lambda x: (x.file, x.line)):
        if b.crate != "agdb" or not b.file.endswith(FILES):
            continue
        comps = cfg.loop_nest(b)        # outer loops AND the loops nested inside them (one SCC in Tarjan terms)
        for k, comp in enumerate(comps):
            n += 1
            name = common.norm(b.root or b.npath)
            kind, detail = classify(b, comp, fa)
            header = min(comp)
            inst = "%s#loop%d" % (name, k)
            if kind:
                ctx.ob("R19", inst, True, "%s: %s" % (kind, detail), b.loc(header))
                continue
            tab = DATA_INVARIANT_LOOPS.get(name)
            if tab:
                reason, guard_callee = tab
                ok = True
                if guard_callee:
                    gc = [i for i, t in cfg.calls(b) if common.norm(cfg.callee(t) or "") == guard_callee]
                    # the guard call sits before the loop and is conditional on a >= comparison
                    ok = bool(gc) and all(g not in comp for g in gc) and any(
                        s["r"]["k"] == "bin" and s["r"]["op"] in ("Ge", "Gt", "Le", "Lt") for bi, s in cfg.assigns(b) if bi not in comp)
                msg = "loop of `%s` relies on the load-factor guard `%s`, which is no longer present before the loop" % (name, guard_callee)
                # the loop must leave on EVERY non-Valid slot state: the switch on the slot's MapValueState keeps only
                # `Valid` inside the loop (a loop that skips tombstones never ends once no Empty slot is left)
                for i_sw in sorted(comp):
                    tt = b.blocks[i_sw]["term"]
                    if tt["k"] != "switch":
                        continue
                    pl = cfg.op_place(tt["d"])
                    ds = cfg.defs(b).get(pl[0], []) if pl else []
                    if ds and ds[0][0] == "assign" and ds[0][2]["k"] == "discr" and (ds[0][2].get("enum") or "").endswith("MapValueState"):
                        names = dict((v, nme) for v, nme in ds[0][2]["variants"])
                        stay = sorted(names.get(v, "?") for v, tb in tt["ts"] if tb in comp and
                                      b.blocks[tb]["term"]["k"] != "unreachable")
                        if stay != ["Valid"]:
                            ok = False
                            msg = ("the probe loop of `%s` continues on slot states %s; it must stop at every non-Valid slot "
                                   "(Empty and Deleted), otherwise it never ends once no Empty slot is left" % (name, stay))
                ctx.ob("R19", inst, ok, "W3 (frozen): " + reason if ok else msg, b.loc(header))
                continue
            ctx.ob("R19", inst, False,
                   "loop in `%s` has no structural termination witness (no wrap-around / bound sentinel exit; %s): with every "
                   "slot Valid or Deleted it never terminates" % (name, detail), b.loc(header),
                   key="%s|R19|%s|no-termination-witness" % (ctx.pid, name))
    ctx.floor("R19", "loops in collections::{multi_map,map}", n, 9)
    # informational classification of other hand-written loops
    info = {}
    for b in fa.bodies.values():
        if b.crate != "agdb" or b.file.endswith(FILES) or "test_utilities" in b.file:
            continue
        for comp in cfg.sccs(b):
            kind, _ = classify(b, comp, fa)
            info[kind or "unclassified"] = info.get(kind or "unclassified", 0) + 1
    ctx.note("loops elsewhere in crate agdb (informational, not armed): %s" % info)
    # tombstone discipline of the open-addressing tables behind every map (a table without Empty slots is also what makes the probe loops spin) (shared rule, rules/maps_common.py)
    from rules import maps_common
    maps_common.slot_state_rule(ctx)
    maps_common.resize_rehash_rule(ctx)
    search_worklist_rule(ctx)
    return 0
