"""C05 — reopening and maintenance preserve the database."""
from lib import cfg
from rules import common, C06

CRATES = ("agdb",)
EXPLANATION = (
    "Static analysis: (R05a) drop optimizes the storage, shrink_to_fit shrinks all four structures and then optimizes; "
    "(R05b) the two loaders (DbImpl::copy and the load branch of try_new_with_storage) build graph/aliases/indexes/values "
    "from the same four DbStorageIndex fields with the same from_storage constructors; (R05c) DbStorageIndex serializes, "
    "deserializes and sizes the same five fields in the same order; (R05d) the memory-mapped variant mirrors mutations into "
    "file and memory; (R05e) rename reopens the data file and creates the new log before removing the old log; "
    "copy = backup + new.")
DECIDED = ["R05a maintenance entry points call what they document (MUST)",
           "R05b both loaders load the same root (SIBLING table)",
           "R05c DbStorageIndex field order agreement (TABLE)",
           "R05d memory-mapped mirror (DELEGATE)",
           "R05e FileStorage::rename ordering; FileStorage::copy = backup + new",
           "R05e (cont.) rename deletes the OLD log",
           "R05f cached DbVec length and stored length change together",
           "R05g DbIndexes keeps the in-memory and the stored index lists aligned",
           "R19t slot states of the hash tables are written only by insert / remove / full rehash (WHO table, shared)",
           "R04b raw storage bytes are read only by the frozen readers (shared with C04)",
           "R19u a capacity change of a hash table runs the full rebuild (shared)"]
UNDECIDED = ["equality of query results before/after the maintenance operation (needs execution)"]

DB = "agdb::db::DbImpl::"
FS_SD = "<agdb::storage::file_storage::FileStorage as agdb::storage::StorageData>::"


def loader_table(b):
    """field of DbStorageIndex -> from_storage constructor (callee self type) used in body b"""
    out = {}
    for i, t in cfg.calls(b):
        n = cfg.callee(t) or ""
        if not n.endswith("::from_storage"):
            continue
        if len(t["a"]) < 2:
            continue
        o = cfg.op_origin(b, t["a"][1])
        if o and o[1]:
            out[o[1][-1][1:]] = common.norm(n)
    return out


def rename_rule(ctx):
    """R05e: FileStorage::rename keeps a working write-ahead log (also evaluated by C01 and C03)."""
    b = ctx.anchor("R05e", FS_SD + "rename")
    if b:
        ren = cfg.call_blocks(b, ["std::fs::rename"])
        opn = cfg.call_blocks(b, ["std::fs::OpenOptions::open"])
        wal = cfg.call_blocks(b, ["agdb::storage::write_ahead_log::WriteAheadLog::new"])
        rm = cfg.call_blocks(b, ["std::fs::remove_file"])
        ok = bool(ren and opn and wal and rm)
        if ok:
            ok = (cfg.find_path(b, [0], rm, avoid=wal) is None and cfg.find_path(b, [0], rm, avoid=opn) is None
                  and cfg.find_path(b, [0], opn, avoid=ren) is None)
        ctx.ob("R05e", "FileStorage::rename", ok,
               "rename -> reopen data file -> new log -> remove old log" if ok else
               "FileStorage::rename removes the old log before the new file/log exist (or a step is missing)", b.where)
        # the log that is removed must be the OLD one: self.filename may only be re-assigned after remove_file,
        # and the removed path derives from wal_filename(&self.filename)
        assign = [bi for bi, s in cfg.assigns(b) if s["l"][0] == 1 and [e for e in s["l"][1:] if e != "*"] == [".filename"]]
        wf = [(i, t) for i, t in cfg.calls(b) if (cfg.callee(t) or "").endswith("WriteAheadLog::wal_filename")]
        ok2 = bool(assign and rm and wf)
        if ok2:
            ok2 = all(cfg.find_path(b, [0], [a], avoid=rm) is None for a in assign)
            ok2 = ok2 and all(cfg.is_self_field(b, t["a"][0], "filename") for i, t in wf)
            ok2 = ok2 and all(cfg.find_path(b, [a], [i for i, t in wf], leave_start=True) is None for a in assign)
        ctx.ob("R05e", "FileStorage::rename:removes-old-log", ok2,
               "the removed log is wal_filename(old name): self.filename is updated only after remove_file" if ok2 else
               "FileStorage::rename computes the log to delete after (or not from) the old self.filename: it would delete "
               "the NEW write-ahead log, leaving later transactions without recovery", b.where)


def cached_state_rules(ctx):
    """Reopening rebuilds in-memory caches from the file, so a cached value and its persisted copy must change together.
    R05f: every DbVecData method that changes the cached `len` writes the length field (offset 0 of the vector's value)
    on every success path.  R05g: DbIndexes keeps `indexes` (memory) and `storage_indexes` (file) position-aligned: the
    same kind of operation is applied to both."""
    fa = ctx.facts
    n = 0
    for b in sorted(fa.bodies.values(), key=lambda x: x.path):
        if b.crate != "agdb" or "collections::vec::DbVecData" not in (b.d.get("impl_self") or "") or b.d["argc"] < 1:
            continue
        asg = [bi for bi, s in cfg.assigns(b) if s["l"][0] == 1 and [e for e in s["l"][1:] if e != "*"] == [".len"]]
        if not asg:
            continue
        n += 1
        wr = []
        for i, t in cfg.calls(b):
            if common.norm(cfg.callee(t) or "") == "agdb::storage::Storage::insert_at" and len(t["a"]) > 2:
                k = cfg.op_const(t["a"][2])
                src = t["a"][2]
                v = k.get("v") if k else None
                if v is None:
                    o = cfg.op_origin(b, src)
                    ds = cfg.defs(b).get(o[0], []) if o else []
                    if len(ds) == 1 and ds[0][0] == "assign" and ds[0][2]["k"] == "use" and cfg.op_const(ds[0][2]["o"]):
                        v = cfg.op_const(ds[0][2]["o"]).get("v")
                if v == 0:
                    wr.append(i)
        okb, errb, unk = cfg.ret_class_blocks(b)
        targets = (okb + unk) or cfg.return_blocks(b)
        p = cfg.find_path(b, [0], targets, avoid=wr) if wr else [0]
        # paths that do not change the length need no write: only paths through an assignment of self.len count
        bad = None
        for a in asg:
            pre = cfg.find_path(b, [0], [a], avoid=wr)
            post = cfg.find_path(b, [a], targets, avoid=wr, leave_start=True) if a not in targets else [a]
            if pre is not None and post is not None:
                bad = a
        name = b.d.get("name")
        ctx.ob("R05f", "DbVecData::%s:len-persisted" % name, bool(wr) and bad is None,
               "the cached length and the length stored in the file are updated together" if (wr and bad is None) else
               "DbVecData::%s changes the cached length on a path that never writes the stored length: after reopen the "
               "vector (e.g. a hash map's state table) has its old length" % name, b.where)
    ctx.floor("R05f", "DbVecData methods changing the cached length", n, 2)

    IX = "agdb::db::db_index::DbIndexes::"
    PAIR = {"push": "push", "remove": "remove", "shrink_to_fit": "shrink_to_fit", "clear": "clear", "insert": "insert",
            "swap_remove": "swap_remove", "truncate": "truncate", "swap": "swap", "pop": "pop", "drain": "drain"}
    nix = 0
    for b in fa.find(r"^agdb::db::db_index::DbIndexes::[a-z_]+$"):
        mem, disk = [], []
        for i, t in cfg.calls(b):
            if not t["a"]:
                continue
            o = cfg.op_origin(b, t["a"][0])
            nme = (cfg.callee(t) or "").split("::")[-1]
            if not (o and o[0] == 1 and o[1]) or nme not in PAIR:
                continue
            if o[1][0] == ".indexes" and (cfg.callee(t) or "").startswith("std::vec::Vec::"):
                mem.append(nme)
            elif o[1][0] == ".storage_indexes":
                disk.append(nme)
        if not mem and not disk:
            continue
        nix += 1
        ctx.ob("R05g", "DbIndexes::%s:memory~storage" % b.d.get("name"), sorted(mem) == sorted(disk),
               "the in-memory list and the stored list receive the same operations %s" % sorted(mem) if sorted(mem) == sorted(disk)
               else "DbIndexes::%s applies %s to the in-memory index list but %s to the stored list: positions diverge and "
               "the next removal (or reopen) hits the wrong index" % (b.d.get("name"), sorted(mem), sorted(disk)), b.where)
    ctx.floor("R05g", "DbIndexes methods mutating both lists", nix, 2)


def run(ctx):
    fa = ctx.facts
    cached_state_rules(ctx)
    b = ctx.anchor("R05a", "<agdb::db::DbImpl<Store> as std::ops::Drop>::drop")
    if b:
        cb = cfg.call_blocks(b, ["agdb::storage::Storage::optimize_storage"])
        ok = bool(cb) and cfg.must_pass(b, [0], cb, cfg.return_blocks(b))[0]
        ctx.ob("R05a", "DbImpl::drop:optimize_storage", ok,
               "drop packs the storage on every path" if ok else "drop no longer calls optimize_storage", b.where)
    b = ctx.anchor("R05a", DB + "shrink_to_fit")
    if b:
        fields = set()
        for i, t in cfg.calls(b):
            if (cfg.callee(t) or "").endswith("::shrink_to_fit") and t["a"]:
                o = cfg.op_origin(b, t["a"][0])
                if o and o[0] == 1 and o[1]:
                    fields.add(o[1][0][1:])
        opt = cfg.call_blocks(b, [DB + "optimize_storage", "agdb::storage::Storage::optimize_storage"])
        ok = {"graph", "aliases", "indexes", "values"} <= fields and bool(opt)
        ctx.ob("R05a", "DbImpl::shrink_to_fit", ok,
               "shrinks graph, aliases, indexes, values then optimizes" if ok else
               "shrink_to_fit covers only %s (optimize: %s)" % (sorted(fields), bool(opt)), b.where)

    c = ctx.anchor("R05b", DB + "copy")
    l = ctx.anchor("R05b", DB + "try_new_with_storage")
    if c and l:
        tc, tl = loader_table(c), loader_table(l)
        ok = tc == tl and set(tc) == {"graph", "aliases", "indexes", "values"}
        ctx.ob("R05b", "copy~try_new_with_storage", ok,
               "both loaders: %s" % sorted(tc.items()) if ok else
               "the two loaders disagree: copy=%s, open=%s" % (sorted(tc.items()), sorted(tl.items())), c.where)
        # both read the root index from StorageIndex(1)
        for name, body in (("copy", c), ("try_new_with_storage", l)):
            vals = [(i, t) for i, t in cfg.calls(body) if (cfg.callee(t) or "") == "agdb::storage::Storage::value"
                    and "DbStorageIndex" in (cfg.callee_full(t) or "")]
            ctx.ob("R05b", name + ":root-index", bool(vals),
                   "reads DbStorageIndex through Storage::value" if vals else "root index no longer read", body.where)

    # R05c: DbStorageIndex field agreement (simple instance of C20's rule)
    ser = ctx.anchor("R05c", "<agdb::db::DbStorageIndex as agdb::utilities::serialize::Serialize>::serialize")
    de = ctx.anchor("R05c", "<agdb::db::DbStorageIndex as agdb::utilities::serialize::Serialize>::deserialize")
    sz = ctx.anchor("R05c", "<agdb::db::DbStorageIndex as agdb::utilities::serialize::Serialize>::serialized_size")
    adt = fa.adts.get("agdb::db::DbStorageIndex")
    if ser and de and sz and adt:
        fields = [f["name"] for f in adt["variants"][0]["fields"]]

        def order_of(body, suffix):
            seq = []
            for i, blk in enumerate(body.blocks):
                t = blk["term"]
                if blk.get("cleanup") or t["k"] != "call":
                    continue
                if (cfg.callee_decl(t) or "").endswith(suffix) and t["a"]:
                    o = cfg.op_origin(body, t["a"][0])
                    if o and o[0] == 1 and o[1]:
                        seq.append(o[1][0][1:])
            return seq
        s_order = order_of(ser, "Serialize::serialize")
        dedup = [x for k, x in enumerate(s_order) if k == 0 or s_order[k - 1] != x]
        # deserialize: one deserialize call per serialized item, at offsets size*k
        n_de = len([1 for i, t in cfg.calls(de) if (cfg.callee_decl(t) or "").endswith("Serialize::deserialize")])
        mults = sorted({cfg.op_const(o)["v"] for bi, s in cfg.assigns(de) if s["r"]["k"] == "bin" and
                        s["r"]["op"].startswith("Mul") for o in (s["r"]["a"], s["r"]["b"])
                        if cfg.op_const(o) and "v" in cfg.op_const(o)})
        zm = [cfg.op_const(o)["v"] for bi, s in cfg.assigns(sz) if s["r"]["k"] == "bin" and s["r"]["op"].startswith("Mul")
              for o in (s["r"]["a"], s["r"]["b"]) if cfg.op_const(o) and "v" in cfg.op_const(o)]
        n = len(s_order)
        ok = (dedup == fields and n_de == n and zm == [n] and mults == list(range(2, n)))
        ctx.ob("R05c", "DbStorageIndex", ok,
               "serialize writes %d items in declaration order; deserialize reads %d items at offsets size*{1..%d}; "
               "serialized_size = %s items" % (n, n_de, n - 1, zm) if ok else
               "DbStorageIndex serialize %s / deserialize count %d offsets x%s / size multiplier %s disagree (fields %s)" % (
                   s_order, n_de, mults, zm, fields), ser.where)

    C06.mirror_rule(ctx, "R05d")

    rename_rule(ctx)
    b = ctx.anchor("R05e", FS_SD + "copy")
    if b:
        bk = [i for i, t in cfg.calls(b) if cfg.callee_decl(t) == "agdb::storage::StorageData::backup"]
        nw = common.call_blocks_incl_closures(fa, b, lambda t: cfg.callee_decl(t) == "agdb::storage::StorageData::new")
        ok = bool(bk and nw) and cfg.find_path(b, [0], nw, avoid=bk) is None
        ctx.ob("R05e", "FileStorage::copy", ok, "copy = backup(name)? then new(name)" if ok else
               "FileStorage::copy no longer copies the file before opening it", b.where)
    # tombstone discipline of the open-addressing tables behind aliases and indexes (shrink_to_fit must keep every key reachable) (shared rule, rules/maps_common.py)
    from rules import maps_common
    maps_common.slot_state_rule(ctx)
    maps_common.resize_rehash_rule(ctx)
    # data relocated by the compaction is read through the frozen raw readers only (R04b, shared with C04)
    from rules import C04
    C04.reader_rule(ctx)
    return 0
