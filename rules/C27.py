"""C27 — at most one cluster leader per term.

Also hosts the small symbolic-term / comparison-edge helpers shared by the Raft rules (C27, C28, C29)."""
from lib import cfg
from rules import common

EXPLANATION = (
    "Static analysis of the hand-rolled Raft in agdb_server/src/raft.rs (MIR cut-sets + comparison tables): (R27a) the vote "
    "grant in Cluster::vote_request (state = Voted(..) and the Ok response) is reachable only through the Ok edge of each of "
    "validate_hash / validate_vote_state / validate_term_for_vote / validate_log_for_vote; (R27b) validate_vote_state rejects "
    "in Leader, Candidate, Follower(_) and in Voted(t) unless request.term > t, validate_term_for_vote rejects unless "
    "self.term < request.term; (R27c) the Leader / Candidate transitions of vote_received / pre_vote_received are guarded by "
    "a strict-majority comparison of the number of nodes with `voted` set against self.size; (R27d) ClusterState::Leader is "
    "constructed only in vote_received and in `new` under size == 1, and self.state is only ever written with a literal "
    "ClusterState variant; (R27e) a granted vote is durable: the grant path raises self.term to request.term or records the "
    "vote in a field other than the scratch variable `state`; (R27f) a vote response is counted only for the election it was "
    "requested in: the Leader transition (or every call of vote_received) is guarded by request.term == self.term.")
DECIDED = ["R27a grant dominated by the four validators (DOM, cut-set over `?` Ok edges)",
           "R27b rejection tables of validate_vote_state / validate_term_for_vote (TABLE, per-variant specialised CFG)",
           "R27c strict majority before becoming candidate / leader (TABLE of accepted comparison forms + DOM)",
           "R27d who constructs ClusterState::Leader and who writes Cluster::state (WHO)",
           "R27e a granted vote is durable (MUST over the grant path)",
           "R27f votes are counted only for the election they were requested in (DOM over the term-equality edge)",
           "R27h a response resets the node to Election only for a strictly newer term (DOM)",
           "R27i election() clears every peer's voted flag before the vote round (MUST)"]
UNDECIDED = ["the election protocol itself over message schedules (needs execution; see findings/server/F17, F20)"]

CL = "agdb_server::raft::Cluster::"
STATE = "agdb_server::raft::ClusterState"
CMP = ("Lt", "Le", "Gt", "Ge", "Eq", "Ne")
REL = {"Lt": "<", "Le": "<=", "Gt": ">", "Ge": ">=", "Eq": "==", "Ne": "!="}
NEG = {"<": ">=", "<=": ">", ">": "<=", ">=": "<", "==": "!=", "!=": "=="}
FLIP = {"<": ">", "<=": ">=", ">": "<", ">=": "<=", "==": "==", "!=": "!="}
IMPLIES = {"<": {"<", "<=", "!="}, ">": {">", ">=", "!="}, "==": {"==", "<=", ">="}, "<=": {"<="}, ">=": {">="},
           "!=": {"!="}}


# ---------------------------------------------------------------------------------------------------------------
# symbolic terms: every MIR operand is rendered as a canonical string such as `self.term`, `request.log_index`,
# `local.log_commit` (the local node: self.local() / self.node(self.index)), `(local.log_index + 1)`,
# `(self.size / 2)`, `count(filter(iter(self.nodes), closure:<def path>))`.
# ---------------------------------------------------------------------------------------------------------------

BINSYM = {"Add": "+", "AddWithOverflow": "+", "AddUnchecked": "+", "Sub": "-", "SubWithOverflow": "-", "Mul": "*",
          "MulWithOverflow": "*", "Div": "/", "Rem": "%", "Lt": "<", "Le": "<=", "Gt": ">", "Ge": ">=", "Eq": "==",
          "Ne": "!=", "BitAnd": "&", "BitOr": "|"}
TRANSPARENT = ("Deref>::deref", "DerefMut>::deref_mut", "Deref::deref", "DerefMut::deref_mut", "Clone>::clone",
               "Clone::clone", "::as_ref", "::as_mut", "IntoIterator>::into_iter", "IntoIterator::into_iter")


class Sym:
    def __init__(self, fa, body):
        self.fa = fa
        self.b = body
        self.defs = cfg.defs(body)
        self._up = {}

    # -- upvars of closures / coroutines --------------------------------------------------------------------
    def upvar(self, n, d):
        if n in self._up:
            return self._up[n]
        out = "upvar%d" % n
        pb = self.fa.body(self.b.parent) if self.b.parent else None
        if pb is not None:
            ps = Sym(self.fa, pb)
            for bi, s in cfg.assigns(pb):
                r = s["r"]
                if r["k"] == "agg" and r.get("def") == self.b.path and n < len(r["ops"]):
                    out = ps.op(r["ops"][n], d + 1)
                    break
            else:
                if self.b.d.get("coroutine") and pb.d["argc"] > n:
                    # `async fn`: upvar n is parameter n+1 of the thin fn body
                    out = ps.argname(n + 1)
        self._up[n] = out
        return out

    def argname(self, l):
        """Parameters of the Raft code are named by their type, so that renaming a parameter changes nothing."""
        ty = self.b.local_ty(l)
        for pat, nm in (("agdb_server::raft::Cluster<", "self"), ("agdb_server::raft::Request<", "request"),
                        ("agdb_server::raft::Log<", "log")):
            if ty.lstrip("&").replace("mut ", "").startswith(pat):
                return nm
        return self.b.local_name(l) or "arg%d" % l

    def local(self, l, d):
        b = self.b
        if d > 60:
            return "_%d" % l
        if 1 <= l <= b.d["argc"]:
            if b.parent and l == 1:
                return "<closure-env>"
            return self.argname(l)
        ds = [x for x in self.defs.get(l, []) if x[0] != "partial"]
        name = b.local_name(l)
        if len(ds) != 1:
            return name or "_%d" % l
        kind, bi, r = ds[0]
        if kind == "call":
            return self.call(r, d + 1)
        k = r["k"]
        if k in ("use", "cast"):
            return self.op(r["o"], d + 1)
        if k == "ref":
            return self.place(r["p"], d + 1)
        if k == "bin":
            x, y = self.op(r["a"], d + 1), self.op(r["b"], d + 1)
            if r["op"].startswith(("Add", "Mul")) and y < x:
                x, y = y, x
            return "(%s %s %s)" % (x, BINSYM.get(r["op"], r["op"]), y)
        if k == "un":
            return "%s(%s)" % (r["op"], self.op(r["a"], d + 1))
        if k == "discr":
            return "discr(%s)" % self.place(r["p"], d + 1)
        if k == "agg":
            if r.get("what") in ("closure", "coroutine", "coroutine_closure"):
                return "closure:%s" % r["def"]
            if r.get("what") == "adt":
                return "%s::%s{%s}" % (r["adt"].split("::")[-1], r.get("variant"), ",".join(self.op(o, d + 1) for o in r["ops"]))
            return "%s{%s}" % (r.get("what"), ",".join(self.op(o, d + 1) for o in r["ops"]))
        return name or "_%d" % l

    def call(self, t, d):
        n = common.norm(cfg.callee(t) or "?")
        args = [self.op(a, d + 1) for a in t["a"]]
        if n in (CL + "local", CL + "local_mut") and args[:1] == ["self"]:
            return "local"
        if n in (CL + "node", CL + "node_mut") and args[:1] == ["self"] and len(args) == 2:
            return "local" if args[1] == "self.index" else "node(%s)" % args[1]
        if n.endswith(TRANSPARENT) and args:
            return args[0]
        short = n.split("::")[-1]
        return "%s(%s)" % (short, ", ".join(args))

    def place(self, p, d=0):
        proj = [e for e in p[1:] if e != "*"]
        if p[0] == 1 and self.b.parent and proj and proj[0].startswith(".") and proj[0][1:].isdigit():
            base = self.upvar(int(proj[0][1:]), d)
            proj = proj[1:]
        else:
            base = self.local(p[0], d)
        for e in proj:
            if e.startswith("."):
                # `(x + y).0` of a checked operation is the result
                if e == ".0" and base.startswith("(") and base.endswith(")"):
                    continue
                base += e
            elif e.startswith("as "):
                base += " as " + e[3:]
            else:
                base += e
        return base

    def op(self, o, d=0):
        c = o.get("k")
        if c is not None:
            if "v" in c and c.get("ty") != "bool":
                return str(c["v"])
            return str(c.get("c", c.get("fn", "?")))
        return self.place(cfg.op_place(o), d)


def cmp_edges(fa, body):
    """Every comparison `a op b` of the body that is branched on: list of dicts
    {a, b, op, bb, edges: [(relation holding on the edge, edge)]} (boolean negations applied)."""
    sy = Sym(fa, body)
    out = []
    for bi, s in cfg.assigns(body):
        r = s["r"]
        if r["k"] != "bin" or r["op"] not in CMP or len(s["l"]) != 1:
            continue
        a, b_ = sy.op(r["a"]), sy.op(r["b"])
        rel = REL[r["op"]]
        es = []
        for sw in cfg.bool_switches(body, cfg.derived_locals(body, [s["l"][0]])):
            es.append((rel, sw["true_edge"]))
            es.append((NEG[rel], sw["false_edge"]))
        out.append({"a": a, "b": b_, "op": r["op"], "bb": bi, "edges": es, "dst": s["l"][0], "ln": s.get("ln", 0)})
    return out


def edges_implying(cmps, left, right, want):
    """Edges on which `left <want> right` is known to hold. left/right: predicates on term strings (or strings)."""
    lp = left if callable(left) else (lambda x, _l=left: x == _l)
    rp = right if callable(right) else (lambda x, _r=right: x == _r)
    out = []
    for c in cmps:
        for rel, e in c["edges"]:
            if lp(c["a"]) and rp(c["b"]):
                r = rel
            elif lp(c["b"]) and rp(c["a"]):
                r = FLIP[rel]
            else:
                continue
            if want in IMPLIES[r]:
                out.append(("%s %s %s" % (c["a"], rel, c["b"]), e))
    return out


def ok_return_blocks(body):
    """Blocks producing an Ok(..)/unknown (call result) return value, and Err-producing ones."""
    okb, errb, unk = cfg.ret_class_blocks(body)
    return okb + unk, errb


def validator_cut(body, name):
    """Ok edges of `?` applied to the result of every call of Cluster::<name>(self, request, ..) in body."""
    sites = [(i, t) for i, t in cfg.calls(body) if common.norm(cfg.callee(t) or "") == CL + name]
    edges = []
    for i, t in sites:
        for te in cfg.try_edges(body, cfg.derived_locals(body, [t["d"][0]])):
            if te["ok_edge"]:
                edges.append(te["ok_edge"])
    return sites, edges


def state_writes(fa):
    """Every write to the `state` field of a raft::Cluster (assignment through a &mut Cluster) and every
    construction of a ClusterState value: [(body, bb, kind, variant)]"""
    out = []
    for b in fa.bodies.values():
        if b.crate != "agdb_server":
            continue
        for bi, s in cfg.assigns(b):
            l, r = s["l"], s["r"]
            if r["k"] == "agg" and r.get("adt") == STATE:
                out.append((b, bi, "construct", r.get("variant")))
            if r["k"] == "agg" and r.get("what") == "adt" and r.get("adt") == "agdb_server::raft::Cluster":
                out.append((b, bi, "struct-literal", None))
            tyroot = b.local_ty(l[0]) if l else ""
            if len(l) > 1 and l[-1] == ".state" and "raft::Cluster<" in tyroot:
                var = None
                if r["k"] == "use":
                    pl = cfg.op_place(r["o"])
                    ds = [x for x in cfg.defs(b).get(pl[0], [])] if pl and len(pl) == 1 else []
                    vs = {x[2].get("variant") for x in ds if x[0] == "assign" and x[2]["k"] == "agg" and x[2].get("adt") == STATE}
                    if ds and len(vs) == 1 and all(x[0] == "assign" and x[2]["k"] == "agg" for x in ds):
                        var = vs.pop()
                elif r["k"] == "agg" and r.get("adt") == STATE:
                    var = r.get("variant")
                out.append((b, bi, "assign", var))
            if r["k"] == "ref" and r.get("mut") and r["p"][-1:] == [".state"] and "raft::Cluster<" in b.local_ty(r["p"][0]):
                out.append((b, bi, "mut-borrow", None))
    return out


def fn_name(b):
    return common.norm(b.root or b.npath)


# ---------------------------------------------------------------------------------------------------------------
# R27c (also used by C29): strict majority
# ---------------------------------------------------------------------------------------------------------------

def is_flag_count(fa, term, flag):
    """`count(filter(iter(self.nodes), closure))` whose closure returns exactly `node.<flag>`."""
    if not (term.startswith("count(filter(iter(self.nodes), closure:") and term.endswith("))")):
        return False
    cb = fa.body(term[len("count(filter(iter(self.nodes), closure:"):-2])
    if cb is None:
        return False
    sy = Sym(fa, cb)
    vals = [sy.op(s["r"]["o"]) if s["r"]["k"] == "use" else "?" for bi, s in cfg.assigns(cb) if s["l"] == [0]]
    return bool(vals) and all(v == "node." + flag or v.endswith("." + flag) and v.count(".") == 1 for v in vals)


def majority_edges(cmps, is_count, size="self.size"):
    """Edges on which `count` is a strict majority of `size`; accepted forms:
    v > n/2, v >= n/2 + 1, 2*v > n (and the mirrored spellings)."""
    half = "(%s / 2)" % size
    forms = [
        (is_count, half, ">"),
        (is_count, lambda x: x in ("(%s + 1)" % half, "(1 + %s)" % half), ">="),
        (lambda x: x.startswith("(") and x.endswith(")") and " * " in x and
         sorted(x[1:-1].split(" * "), key=lambda y: y == "2")[1] == "2" and is_count(sorted(x[1:-1].split(" * "), key=lambda y: y == "2")[0]),
         size, ">"),
    ]
    out = []
    for l, r, want in forms:
        for desc, e in edges_implying(cmps, l, r, want):
            # `implies` would also let `v > n/2 + 1` style stronger tests pass: they are still majorities
            out.append((desc, e))
    return out


def rule_majority(ctx, rule="R27c"):
    fa = ctx.facts
    n = 0
    for meth, effect_desc in (("vote_received", "state = Leader"), ("pre_vote_received", "election()")):
        b = ctx.anchor(rule, CL + meth)
        if not b:
            continue
        if meth == "vote_received":
            eff = [bi for bb_, bi, kind, var in state_writes(fa) if bb_.path == b.path and kind in ("assign", "construct") and var == "Leader"]
        else:
            eff = [i for i, t in cfg.calls(b) if common.norm(cfg.callee(t) or "") == CL + "election"]
        if not eff:
            ctx.ob(rule, meth + ":transition", False, "transition `%s` not found in %s (idiom not recognised)" % (effect_desc, meth), b.where)
            continue
        cmps = cmp_edges(fa, b)
        permit = majority_edges(cmps, lambda x: is_flag_count(fa, x, "voted"))
        p = cfg.find_path(b, [0], eff, removed_edges=[e for d, e in permit])
        seen = ["%s %s %s" % (c["a"], REL[c["op"]], c["b"]) for c in cmps]
        n += 1
        ctx.ob(rule, meth + ":strict-majority", bool(permit) and p is None,
               "`%s` only on %s" % (effect_desc, sorted({d for d, e in permit})) if permit and p is None else
               "`%s` in %s is reachable without a strict-majority test of the granted votes against self.size "
               "(accepted: v > n/2, v >= n/2 + 1, 2*v > n with v = number of nodes with `voted`); comparisons found: %s%s" % (
                   effect_desc, meth, seen, "; path " + cfg.path_str(b, p) if p else ""), b.loc(eff[0]),
               key="%s|%s|%s|no-strict-majority" % (ctx.pid, rule, CL + meth))
    ctx.floor(rule, "majority-guarded transitions", n, 2)


# ---------------------------------------------------------------------------------------------------------------

def rule_grant_dominated(ctx, rule, validators, fn="vote_request", effects=("voted", "ok")):
    """R27a: the grant is reachable only through the Ok edge of each validator."""
    fa = ctx.facts
    b = ctx.anchor(rule, CL + fn)
    if not b:
        return
    okb, errb = ok_return_blocks(b)
    # error returns produced by `?` are not grants; a direct Err(..) aggregate is not one either
    grant = {"ok": okb}
    if "voted" in effects:
        grant["voted"] = [bi for bb_, bi, kind, var in state_writes(fa) if bb_.path == b.path and kind == "assign" and var == "Voted"]
    if "voted" in effects:
        vals = sorted({val for bi, f_, val in self_writes(fa, b, depth=2) if f_ == "state"})
        ctx.ob(rule, "%s:voted-term" % fn, vals == ["ClusterState::Voted{request.term}"],
               "the grant records Voted(request.term), the value validate_vote_state compares later requests with"
               if vals == ["ClusterState::Voted{request.term}"] else
               "%s writes self.state = %s (expected exactly Voted(request.term))" % (fn, vals), b.where)
    for v in validators:
        ctx.anchor(rule, CL + v)
        sites, edges = validator_cut(b, v)
        sy = Sym(fa, b)
        args_ok = all([sy.op(a) for a in t["a"][:2]] == ["self", "request"] for i, t in sites)
        for what in effects:
            eff = grant[what]
            if not eff:
                ctx.ob(rule, "%s:%s<=%s" % (fn, what, v), False, "grant effect `%s` not found in %s (idiom not recognised)" % (what, fn), b.where)
                continue
            p = cfg.find_path(b, [0], eff, removed_edges=edges) if sites else [0]
            ok = bool(sites) and bool(edges) and args_ok and p is None
            ctx.ob(rule, "%s:%s<=%s" % (fn, what, v), ok,
                   "%s reachable only through the Ok edge of %s(self, request)?" % (
                       "state = Voted(..)" if what == "voted" else "the Ok response", v) if ok else
                   "%s in %s is reachable without passing %s (%s)" % (
                       "the vote grant `state = Voted(..)`" if what == "voted" else "the Ok response", fn, v,
                       "validator is not called" if not sites else ("called with other arguments than (self, request)" if not args_ok
                                                                    else "path " + cfg.path_str(b, p or []))),
                   b.loc(eff[0]), key="%s|%s|%s|%s-without-%s" % (ctx.pid, rule, CL + fn, what, v))


def variant_cut(b, variant):
    """Edges to delete so that every switch on discr(self.state) follows only `variant`'s edge."""
    removed = []
    found = 0
    for i, blk in enumerate(b.blocks):
        t = blk["term"]
        if t["k"] != "switch":
            continue
        pl = cfg.op_place(t["d"])
        ds = cfg.defs(b).get(pl[0], []) if pl and len(pl) == 1 else []
        if not (len(ds) == 1 and ds[0][0] == "assign" and ds[0][2]["k"] == "discr" and ds[0][2].get("enum") == STATE):
            continue
        if cfg.origin(b, ds[0][2]["p"]) != (1, [".state"]):
            continue
        found += 1
        idx = {n: v for v, n in ds[0][2]["variants"]}.get(variant)
        keep = dict((v, tb) for v, tb in t["ts"]).get(idx, t["else"])
        for v, tb in t["ts"]:
            if tb != keep:
                removed.append((i, tb))
        if t["else"] != keep:
            removed.append((i, t["else"]))
    return removed, found


def rule_reject_tables(ctx, rule="R27b"):
    fa = ctx.facts
    b = ctx.anchor(rule, CL + "validate_vote_state")
    if b:
        okb, errb = ok_return_blocks(b)
        cmps = cmp_edges(fa, b)
        variants = [v["name"] for v in fa.adts.get(STATE, {}).get("variants", [])]
        ctx.floor(rule, "ClusterState variants", len(variants), 5)
        for v in variants:
            cut, found = variant_cut(b, v)
            if not found:
                ctx.ob(rule, "validate_vote_state[%s]" % v, False, "no match on self.state found (idiom not recognised)", b.where)
                continue
            if v in ("Leader", "Candidate", "Follower"):
                p = cfg.find_path(b, [0], okb, removed_edges=cut)
                ctx.ob(rule, "validate_vote_state[%s]" % v, p is None,
                       "%s => Err on every path" % v if p is None else
                       "validate_vote_state can return Ok in state %s (a node that is/has a leader grants a vote): %s" % (
                           v, cfg.path_str(b, p)), b.where)
            elif v == "Voted":
                permit = edges_implying(cmps, "request.term", lambda x: x in ("self.state as Voted.0", "term"), ">")
                p = cfg.find_path(b, [0], okb, removed_edges=cut + [e for d, e in permit])
                ctx.ob(rule, "validate_vote_state[Voted]", p is None,
                       "Voted(t) => Ok only on %s" % sorted({d for d, e in permit}) if p is None else
                       "validate_vote_state can return Ok in state Voted(t) without request.term > t (second vote in "
                       "the same term): %s; comparisons: %s" % (cfg.path_str(b, p), [(c["a"], c["op"], c["b"]) for c in cmps]),
                       b.where)
            else:
                p = cfg.find_path(b, [0], okb, removed_edges=cut)
                ctx.ob(rule, "validate_vote_state[%s]" % v, True,
                       "%s => %s (not constrained by the property)" % (v, "Ok reachable" if p else "Err"), b.where, nontrivial=False)
    b = ctx.anchor(rule, CL + "validate_term_for_vote")
    if b:
        okb, errb = ok_return_blocks(b)
        cmps = cmp_edges(fa, b)
        permit = edges_implying(cmps, "self.term", "request.term", "<")
        p = cfg.find_path(b, [0], okb, removed_edges=[e for d, e in permit])
        ctx.ob(rule, "validate_term_for_vote", bool(permit) and p is None,
               "Ok only on %s (rejects self.term >= request.term; accepted spellings: any comparison of self.term "
               "with request.term whose taken edge implies self.term < request.term, negations included)" %
               sorted({d for d, e in permit}) if permit and p is None else
               "validate_term_for_vote can return Ok without self.term < request.term: %s; comparisons: %s" % (
                   cfg.path_str(b, p or []), [(c["a"], c["op"], c["b"]) for c in cmps]), b.where)


def rule_who_leader(ctx, rule="R27d"):
    fa = ctx.facts
    ws = state_writes(fa)
    n = 0
    allowed = {CL + "vote_received", CL + "new"}
    for b, bi, kind, var in sorted(ws, key=lambda x: (x[0].path, x[1])):
        f = fn_name(b)
        if kind == "construct" and var == "Leader":
            n += 1
            ok = f in allowed
            how = ""
            if ok and f == CL + "new":
                cmps = cmp_edges(fa, b)
                permit = edges_implying(cmps, lambda x: x.endswith(".size"), "1", "==")
                ok = bool(permit) and cfg.find_path(b, [0], [bi], removed_edges=[e for d, e in permit]) is None
                how = " under size == 1"
            ctx.ob(rule, "Leader-constructed-in:%s" % f, ok,
                   "ClusterState::Leader constructed in %s%s" % (f.split("::")[-1], how) if ok else
                   "ClusterState::Leader is constructed in `%s`%s: a node can become leader without winning an election" % (
                       f, " without the size == 1 guard" if f in allowed else " (allowed: vote_received, new under size == 1)"),
                   b.loc(bi), key="%s|%s|%s|constructs-Leader" % (ctx.pid, rule, f))
        elif kind == "assign":
            okw = var is not None and (var != "Leader" or f == CL + "vote_received")
            ctx.ob(rule, "state-write:%s:%s" % (f, var), okw,
                   "self.state = ClusterState::%s" % var if okw else
                   ("`%s` sets self.state = Leader (allowed only in vote_received, behind the majority test)" % f if var else
                    "`%s` writes Cluster::state with a value that is not a literal ClusterState variant (cannot be classified)" % f),
                   b.loc(bi), key="%s|%s|%s|state-write-%s" % (ctx.pid, rule, f, var))
        elif kind == "mut-borrow":
            ctx.ob(rule, "state-borrow:%s" % f, False, "`%s` takes `&mut self.state` (writes through it cannot be classified)" % f,
                   b.loc(bi), key="%s|%s|%s|state-mut-borrow" % (ctx.pid, rule, f))
        elif kind == "struct-literal":
            ctx.ob(rule, "Cluster-literal:%s" % f, f == CL + "new", "Cluster { .. } built in %s" % f, b.loc(bi),
                   key="%s|%s|%s|cluster-literal" % (ctx.pid, rule, f))
    ctx.floor(rule, "constructions of ClusterState::Leader", n, 2)


def self_writes(fa, b, sy=None, depth=0):
    """Writes to fields of the Cluster through `self` in body b, following calls of Cluster methods that receive
    `self` mutably (two levels). Returns [(bb in b, field, value term)] with callee parameters renamed to the
    caller's terms where they are passed through."""
    sy = sy or Sym(fa, b)
    out = []
    for bi, s in cfg.assigns(b):
        l = s["l"]
        proj = [e for e in l[1:] if e != "*"]
        root = sy.local(l[0], 0) if proj and proj[0].startswith(".") else None
        if root == "self":
            out.append((bi, proj[0][1:], _rvalue_term(sy, s["r"])))
        elif root == "local":
            out.append((bi, "local." + proj[0][1:], _rvalue_term(sy, s["r"])))
    if depth < 2:
        for i, t in cfg.calls(b):
            n = common.norm(cfg.callee(t) or "")
            if not n.startswith(CL) or not t["a"]:
                continue
            if sy.op(t["a"][0]) != "self":
                continue
            cb = fa.body(n)
            if cb is None or not cb.local_ty(1).startswith("&mut"):
                continue
            if cb.d.get("coroutine") is False and fa.body(cb.path + "::{closure#0}") is not None and cb.d.get("kind") != "Closure":
                inner = fa.body(cb.path + "::{closure#0}")
                if inner is not None and inner.d.get("coroutine"):
                    cb = inner
            names = {}
            thin = fa.body(cb.parent) if cb.parent else cb
            for k, a in enumerate(t["a"]):
                pn = thin.local_name(k + 1)
                if pn:
                    names[pn] = sy.op(a)
            for bj, f, val in self_writes(fa, cb, None, depth + 1):
                for pn, at in names.items():
                    if pn != "self" and val is not None:
                        val = val.replace(pn + ".", at + ".") if at != pn else val
                        if val == pn:
                            val = at
                out.append((i, f, val))
    return out


def _rvalue_term(sy, r):
    k = r["k"]
    if k in ("use", "cast"):
        return sy.op(r["o"])
    if k == "bin":
        return "(%s %s %s)" % (sy.op(r["a"]), BINSYM.get(r["op"], r["op"]), sy.op(r["b"]))
    if k == "agg":
        return "%s::%s{%s}" % ((r.get("adt") or r.get("what") or "").split("::")[-1], r.get("variant"),
                               ",".join(sy.op(o) for o in r["ops"]))
    if k == "ref":
        return sy.place(r["p"])
    return "?"


def rule_vote_durable(ctx, rule="R27e"):
    fa = ctx.facts
    b = ctx.anchor(rule, CL + "vote_request")
    if not b:
        return
    okb, errb = ok_return_blocks(b)
    ws = self_writes(fa, b)
    durable = []
    for bi, f, val in ws:
        if f == "term" and val == "request.term":
            durable.append((bi, "self.term = request.term"))
        elif f == "term" and val is not None and val.startswith("max(") and "request.term" in val:
            durable.append((bi, "self.term = %s" % val))
        elif f not in ("state", "term") and val is not None and "request.term" in val:
            durable.append((bi, "self.%s = %s" % (f, val)))
    blocks = [bi for bi, d in durable]
    p = cfg.find_path(b, [0], okb, avoid=blocks) if okb else None
    ok = bool(okb) and bool(durable) and p is None
    written = sorted({"self.%s = %s" % (f, v) for bi, f, v in ws})
    ctx.ob(rule, "vote_request:vote-durable", ok,
           "every grant path records the vote durably: %s" % sorted({d for bi, d in durable}) if ok else
           ("the durable write %s is not on every grant path (%s); otherwise " % (sorted({d for bi, d in durable}), cfg.path_str(b, p))
            if durable and p else "") +
           "the vote grant writes only %s: the vote lives in the scratch variable `state`, which process() replaces by "
           "Election after term_timeout while self.term is still below the voted term; validate_vote_state / "
           "validate_term_for_vote then accept a second candidate of the same term (two leaders in one term, F17). "
           "Accepted on every grant path: `self.term = request.term`, or a write of a value containing request.term to a "
           "field other than `state` (directly or in a Cluster method called with &mut self)" % (written or ["nothing"]),
           b.where, key="%s|%s|%s|vote-not-durable" % (ctx.pid, rule, CL + "vote_request"))


def rule_votes_of_this_election(ctx, rule="R27f"):
    """A vote is counted only for the election it was requested in: the Leader transition of vote_received is
    reachable only on an edge implying request.term == self.term, in vote_received itself or at each of its call sites."""
    fa = ctx.facts
    b = ctx.anchor(rule, CL + "vote_received")
    if not b:
        return
    eff = [bi for bb_, bi, kind, var in state_writes(fa) if bb_.path == b.path and kind == "assign" and var == "Leader"]
    permit = edges_implying(cmp_edges(fa, b), "request.term", "self.term", "==")
    inside = bool(eff and permit) and cfg.find_path(b, [0], eff, removed_edges=[e for d, e in permit]) is None
    sites = common.callers_of(fa, CL + "vote_received", "agdb_server")
    at_sites = bool(sites)
    for cb, j, tj in sites:
        pe = edges_implying(cmp_edges(fa, cb), "request.term", "self.term", "==")
        sy = Sym(fa, cb)
        if not (pe and [sy.op(a) for a in tj["a"][:2]] == ["self", "request"] and
                cfg.find_path(cb, [0], [j], removed_edges=[e for d, e in pe]) is None):
            at_sites = False
    ok = inside or at_sites
    ctx.ob(rule, "vote_received:votes-of-this-election", ok,
           "a vote response is counted only when request.term == self.term" if ok else
           "vote_received marks `voted` and counts the majority for ANY Vote/Ok response that arrives while the node is "
           "Candidate: a vote granted for an earlier election of this node (request.term < self.term, response delayed) is "
           "counted in the current one, although the voter is free to vote for somebody else in the current term. "
           "In a 5-node cluster the candidate becomes leader of term T with {self, one vote of term T, one stale vote of "
           "term T-1} while the stale voter and a fourth node elect another leader of term T (F20, reproduced; independent "
           "of F17). Accepted: an equality test request.term == self.term guarding the Leader transition in vote_received or "
           "every call of vote_received (e.g. a guard on the `(Candidate, Vote, OK)` arm of response())",
           b.where, key="%s|%s|%s|stale-vote-counted" % (ctx.pid, rule, CL + "vote_received"))


def rule_leader_term_is_vote_term(ctx, rule="R27g"):
    """A candidate that wins with a vote leads the term that vote was granted for: where vote_received makes the node
    Leader it also sets self.term to the term carried by the counted response.  (A vote granted for an earlier candidacy
    must not elect the node for its newer term, in which the voter is still free to vote for someone else.)"""
    fa = ctx.facts
    b = fa.body(CL + "vote_received")
    if b is None:
        ctx.ob(rule, "anchor:vote_received", False, "mechanism `Cluster::vote_received` not found",
               key="%s|%s|missing-anchor|vote_received" % (ctx.pid, rule))
        return
    leader = [bi for bi, s in cfg.assigns(b) if s["r"]["k"] == "agg" and s["r"].get("adt", "").endswith("ClusterState") and
              s["r"].get("variant") == "Leader"]
    term_set = []
    for bi, s in cfg.assigns(b):
        if s["l"][0] == 1 and [e for e in s["l"][1:] if e != "*"] == [".term"]:
            src = cfg.op_origin(b, s["r"]["o"]) if s["r"]["k"] in ("use", "cast") else None
            if src and 1 < src[0] <= b.d["argc"] and src[1] and src[1][-1] == ".term":
                term_set.append(bi)
    ok = bool(leader) and bool(term_set) and all(
        cfg.find_path(b, [0], [l], avoid=term_set) is None or cfg.find_path(b, [l], cfg.return_blocks(b), avoid=term_set) is None
        for l in leader)
    ctx.ob(rule, "vote_received:leader-term", ok,
           "becoming Leader is accompanied by `self.term = <response>.term` on every path" if ok else
           "vote_received makes the node Leader without adopting the term of the counted vote: a vote granted for an "
           "earlier candidacy elects it for a newer term in which the voter may still vote for another node", b.where)


def rule_stepdown_needs_newer_term(ctx, rule="R27h"):
    """A node forgets what it did in its term (state := Election drops Voted(t) / Leader / Candidate) on a response only
    for a strictly newer term: the write in `response` is reachable only through an edge implying
    `<remote term> > self.term`.  With `>=`, a delayed refusal at the node's own term wipes its vote record and it votes
    a second time in that term."""
    fa = ctx.facts
    b = ctx.anchor(rule, CL + "response::{closure#0}")
    if not b:
        return
    writes = [bi for bb_, bi, kind, var in state_writes(fa) if bb_.path == b.path and kind == "assign" and var == "Election"]
    cmps = cmp_edges(fa, b)
    newer = edges_implying(cmps, lambda x: x != "self.term" and "term" in x.lower() or "local" in x, "self.term", ">")
    ok = bool(writes) and bool(newer) and all(
        any(cfg.find_path(b, [0], [w], removed_edges=[e]) is None for d, e in newer) for w in writes)
    ctx.ob(rule, "response:step-down-needs-newer-term", ok,
           "`state = Election` in response() only on %s" % sorted({d for d, e in newer}) if ok else
           "response() resets the node to Election (forgetting its vote / leadership of the current term) without a "
           "strictly newer remote term (writes at %s; comparisons %s)" % (
               [b.loc(w) for w in writes], [(c["a"], c["op"], c["b"]) for c in cmps]), b.where)


def rule_election_resets_votes(ctx, rule="R27i"):
    """`node.voted` is shared by the pre-vote round and the vote round (pre_vote_received and vote_received both count
    it): election() must clear it for every peer before it asks for votes, otherwise non-exclusive pre-vote grants are
    counted as votes of the new term."""
    fa = ctx.facts
    b = ctx.anchor(rule, CL + "election")
    if not b:
        return
    resets = []
    for cb in [b] + fa.closures_of(b.path):
        for bi, st in cfg.assigns(cb):
            if st["l"][-1:] == [".voted"] and st["r"]["k"] == "use":
                c = cfg.op_const(st["r"]["o"])
                if c is not None and c.get("v") == 0:
                    resets.append(cb)
    # the reset runs over all peers: its closure is handed to for_each / a loop over self.nodes before the requests are built
    fe = [i for i, t in cfg.calls(b) if (cfg.callee_decl(t) or "").endswith(("Iterator::for_each", "Iterator::fold")) and
          any(cb.path in [x.path for x in resets] for cb in common.closure_bodies_passed(fa, b, t))]
    direct = [bi for bi, st in cfg.assigns(b) if st["l"][-1:] == [".voted"] and st["r"]["k"] == "use" and
              cfg.op_const(st["r"]["o"]) is not None and cfg.op_const(st["r"]["o"]).get("v") == 0 and any(bi in c for c in cfg.sccs(b))]
    # a reset written as a loop: the loop itself (its `next()` call) is what every path must pass; zero peers = nothing to reset
    loop_heads = []
    for bi in direct:
        for c in cfg.sccs(b):
            if bi in c:
                loop_heads += [i for i, t in cfg.calls(b) if i in c and (cfg.callee_decl(t) or cfg.callee(t) or "").endswith("Iterator::next")]
    sites = fe + (loop_heads if loop_heads else direct)
    okb = cfg.return_blocks(b)
    ok = bool(sites) and cfg.find_path(b, [0], okb, avoid=sites) is None
    ctx.ob(rule, "election:resets-voted", ok,
           "every peer's `voted` flag is cleared on every path through election()" if ok else
           "election() no longer clears the peers' `voted` flags: pre-vote grants (not exclusive) are counted as votes of "
           "the new term by vote_received", b.where)
    # and both rounds really share the flag (otherwise the rule is moot): pre_vote_received and vote_received set it
    users = {fn_name(cb).split("::")[-1] for cb in fa.bodies.values() if cb.crate == "agdb_server" and "raft::" in cb.path
             for bi, st in cfg.assigns(cb) if st["l"][-1:] == [".voted"] and not (st["r"]["k"] == "use" and (cfg.op_const(st["r"]["o"]) or {}).get("v") == 0)}
    ctx.note("R27i: `voted` is set by %s" % sorted(users))


def run(ctx):
    rule_leader_term_is_vote_term(ctx)
    rule_grant_dominated(ctx, "R27a", ["validate_hash", "validate_vote_state", "validate_term_for_vote", "validate_log_for_vote"])
    rule_reject_tables(ctx)
    rule_majority(ctx)
    rule_who_leader(ctx)
    rule_vote_durable(ctx)
    rule_votes_of_this_election(ctx)
    rule_stepdown_needs_newer_term(ctx)
    rule_election_resets_votes(ctx)
    return 0
