"""C16 — limit, offset and ordering slice and sort without failing."""
import re
from lib import cfg
from rules import common

CRATES = ("agdb",)
EXPLANATION = (
    "Static analysis: (R16a) SearchQuery::slice contains no panic-capable range operation (range index, drain, split_at, "
    "split_off) whose bound does not derive from a clamp against the result length (cmp::min / saturating_* / len), and no "
    "overflow-checked arithmetic on the user-supplied offset/limit; (R16b) the (limit, offset) -> handler tables of "
    "DbImpl::search_from and search_to, evaluated with first-match semantics over the four zero/non-zero classes, select "
    "Default/Limit/Offset/LimitOffset handlers for every algorithm arm and agree with each other; (R16c) in "
    "SearchQuery::search every ordered branch searches with (0,0), then sorts, then slices, and the unordered branches "
    "pass limit/offset through, selected by order_by.is_empty(); (R16d) the sort comparator table (missing key sorts "
    "after present, Desc reverses) with the stable sort_by.")
DECIDED = ["R16a slice cannot index past the end (PANIC local)", "R16b (limit, offset) -> handler table (TABLE + SIBLING)",
           "R16c ordered searches: full search, sort, slice in that order (MUST)", "R16d comparator table, stable sort",
           "R16b (cont.) handler constructors receive limit/offset in the right positions",
           "R16d (cont.) ordering keys are looked up by key equality",
           "R16e streaming handlers pass the conditions' Continue/Stop kind through (value provenance of every Ok return)"]
UNDECIDED = ["that the streaming handlers count correctly (arithmetic on counters)", "result contents (needs execution)"]

SQ = "agdb::query::search_query::SearchQuery::"
DB = "agdb::db::DbImpl::"
PANIC_RANGE_CALLS = ("std::ops::Index::index", "std::ops::IndexMut::index_mut", "std::vec::Vec::drain",
                     "std::vec::Vec::split_off", "core::slice::<impl [T]>::split_at", "core::slice::<impl [T]>::split_at_mut",
                     "std::vec::Vec::remove", "std::vec::Vec::swap_remove", "core::slice::<impl [T]>::copy_from_slice")
CLAMPS = ("std::cmp::min", "std::cmp::Ord::min", "core::slice::<impl [T]>::len", "std::vec::Vec::len")


def is_clamp(name):
    n = name or ""
    return n in CLAMPS or ".saturating_" in n or "::saturating_" in n or n.endswith("::min")


def zero_class(p):
    """structured pattern -> 'z' (literal 0), 'any' (wildcard/binding) or None"""
    if p["k"] in ("wild", "bind"):
        return "any"
    if p["k"] == "lit":
        m = re.search(r"Pu128\((\d+)\)", p.get("v", ""))
        if m and int(m.group(1)) == 0:
            return "z"
    return None


def handler_table(fa, b):
    ms = [m for m in fa.matches(b.path) if m["scrut_ty"].replace(" ", "") == "(u64,u64)"]
    if not ms:
        return None, None
    rows = []
    for a in ms[0]["arms"]:
        p = a["p"]
        if p["k"] != "tuple" or len(p["sub"]) != 2:
            return None, None
        cls = (zero_class(p["sub"][0]), zero_class(p["sub"][1]))
        handlers = sorted({common.norm(c).split("::")[-2] for c in a["body"]["calls"] if "db_search_handlers::" in c and c.endswith("::new")})
        algos = sorted({common.norm(c).split("::")[-1] for c in a["body"]["calls"] if common.norm(c).startswith("agdb::graph_search::GraphSearch::")})
        rows.append((cls, handlers, algos))
    table = {}
    for lz in (True, False):
        for oz in (True, False):
            for cls, handlers, algos in rows:
                if None in cls:
                    continue
                if (cls[0] == "any" or lz) and (cls[1] == "any" or oz):
                    table[(lz, oz)] = (handlers, algos)
                    break
    return table, rows


def handler_control_rule(ctx, rule="R16e"):
    """The streaming handlers (Default/Limit/Offset/LimitOffset) decide only WHETHER an element is added and WHEN the
    search is finished; the Continue/Stop kind computed by the conditions is passed through: every success value of
    `process` is the evaluate_conditions result itself (possibly after set_value) or a `Finish(..)`.  A literal
    Continue(..) / Stop(..) replaces the kind: a Stop of `not_beyond` on a skipped element would be walked past."""
    fa = ctx.facts
    n = 0
    for b in sorted(fa.bodies.values(), key=lambda x: x.path):
        if b.crate != "agdb" or b.d.get("name") != "process" or not (b.d.get("impl_trait") or "").endswith("graph_search::SearchHandler"):
            continue
        if not b.file.endswith("db/db_search_handlers.rs"):
            continue
        n += 1
        ev = [(i, t) for i, t in cfg.calls(b) if common.norm(cfg.callee(t) or "") == "agdb::db::DbImpl::evaluate_conditions"]
        der = cfg.derived_locals(b, [t["d"][0] for i, t in ev]) if ev else {}
        bad = []
        seen_ok = 0
        for bi, st in cfg.assigns(b):
            r = st["r"]
            if st["l"] == [0] and r["k"] == "agg" and r.get("variant") == "Ok":
                seen_ok += 1
                pl = cfg.op_place(r["ops"][0]) if r["ops"] else None
                if pl is None:
                    bad.append(b.loc(bi))
                    continue
                if pl[0] in der or cfg.origin(b, pl)[0] in der:
                    continue
                ds = [d for d in cfg.defs(b).get(pl[0], []) if d[0] == "assign" and d[2]["k"] == "agg"]
                if ds and all(d[2].get("variant") == "Finish" for d in ds):
                    continue
                bad.append("%s:%s" % (b.loc(bi), [d[2].get("variant") for d in ds] or "?"))
        direct = bool(ev) and any(t["d"] == [0] for i, t in ev)      # DefaultHandler returns the call result itself
        ok = bool(ev) and not bad and (seen_ok > 0 or direct)
        name = (b.d.get("impl_self") or b.path).split("::")[-1].split("<")[0]
        ctx.ob(rule, "%s::process:control-kind" % name, ok,
               "returns the conditions' control (or Finish)" if ok else
               "%s::process returns a control that is neither the evaluate_conditions result nor Finish(..) (%s): the "
               "Stop/Continue decision of the conditions is lost" % (name, bad or "evaluate_conditions not called"), b.where)
    ctx.floor(rule, "SearchHandler impls of db_search_handlers", n, 4)


def path_slices_after_filter(fa):
    """True when the path search applies skip / take only to the elements that passed the flag filter (every `skip` /
    `take` in PathSearch receives an iterator derived from the `filter` on the per-element flag)."""
    found = False
    for pb in fa.find(r"^agdb::graph_search::path_search::PathSearch::"):
        flt = [t["d"][0] for i, t in cfg.calls(pb) if (cfg.callee_decl(t) or "").endswith("Iterator::filter")]
        der = cfg.derived_locals(pb, flt, extra_through=tuple(
            {cfg.callee(t) for i, t in cfg.calls(pb) if (cfg.callee_decl(t) or "").startswith("std::iter::Iterator::")})) if flt else {}
        for i, t in cfg.calls(pb):
            if (cfg.callee_decl(t) or "") in ("std::iter::Iterator::skip", "std::iter::Iterator::take"):
                found = True
                pl = cfg.op_place(t["a"][0])
                if not (pl and pl[0] in der):
                    return False
    return found


def run(ctx):
    fa = ctx.facts
    b = ctx.anchor("R16a", SQ + "slice")
    if b:
        clamp_dests = [t["d"][0] for i, t in cfg.calls(b) if is_clamp(cfg.callee(t)) or is_clamp(cfg.callee_decl(t))]
        der = cfg.derived_locals(b, clamp_dests)
        n = 0
        for i, t in cfg.calls(b):
            d = cfg.callee_decl(t) or ""
            if d not in PANIC_RANGE_CALLS:
                continue
            n += 1
            bad = []
            for a in t["a"][1:]:
                o = cfg.op_origin(b, a)
                if o is None:
                    continue     # constant bound
                if o[0] not in der:
                    bad.append(b.local_name(o[0]) or "_%d" % o[0])
            ctx.ob("R16a", "slice:%s#%d" % (d.split("::")[-1], n), not bad,
                   "range bound derives from a clamp against ids.len()" if not bad else
                   "`%s` in SearchQuery::slice uses bound(s) %s that do not derive from a clamp (min/saturating/len): an "
                   "offset or limit past the end panics" % (d.split("::")[-1], bad), b.loc(i),
                   key="%s|R16a|slice|%s" % (ctx.pid, d.split("::")[-1]))
        ovf = [i for i, blk in enumerate(b.blocks) if not blk.get("cleanup") and blk["term"]["k"] == "assert" and
               blk["term"]["ak"].startswith("Overflow")]
        ctx.ob("R16a", "slice:no-checked-arithmetic", not ovf,
               "no overflow-checked arithmetic on offset/limit" if not ovf else
               "overflow-checked arithmetic on user-supplied offset/limit at %s (panics for large values)" % ", ".join(b.loc(i) for i in ovf),
               b.loc(ovf[0]) if ovf else b.where)

    want = {(True, True): "DefaultHandler", (False, True): "LimitHandler", (True, False): "OffsetHandler",
            (False, False): "LimitOffsetHandler"}
    tables = {}
    for fn, algos in (("search_from", ["breadth_first_search", "depth_first_search", "elements"]),
                      ("search_to", ["breadth_first_search_reverse", "depth_first_search_reverse"])):
        b = ctx.anchor("R16b", DB + fn)
        if not b:
            continue
        table, rows = handler_table(fa, b)
        if table is None:
            ctx.ob("R16b", fn + ":table", False, "match on (limit, offset) not found (idiom not recognised)", b.where)
            continue
        tables[fn] = {k: v[0] for k, v in table.items()}
        for (lz, oz), h in want.items():
            got = table.get((lz, oz))
            ok = got is not None and got[0] == [h] and got[1] == sorted(algos)
            ctx.ob("R16b", "%s(limit%s0,offset%s0)" % (fn, "=" if lz else "!=", "=" if oz else "!="), ok,
                   "-> %s for %s" % (h, algos) if ok else
                   "%s with limit%s0, offset%s0 selects %s (expected [%s] over %s)" % (fn, "=" if lz else "!=", "=" if oz else "!=", got, h, algos),
                   b.where)
    # R16b (cont.): the streaming handlers receive the query's limit / offset in the right positions
    ARGS = {"LimitHandler": ["limit"], "OffsetHandler": ["offset"], "LimitOffsetHandler": ["limit", "offset"]}
    n_ctor = 0
    for fn in ("search_from", "search_to"):
        b = fa.body(DB + fn)
        if not b:
            continue
        # which parameter is the limit and which the offset: the operands of the matched `(limit, offset)` tuple
        pidx = {}
        for bi, s in cfg.assigns(b):
            r = s["r"]
            if r["k"] == "agg" and r.get("what") == "tuple" and len(r["ops"]) == 2:
                os_ = [cfg.op_origin(b, o) for o in r["ops"]]
                if all(o and 1 <= o[0] <= b.d["argc"] and b.local_ty(o[0]) == "u64" and not o[1] for o in os_):
                    pidx = {"limit": os_[0][0], "offset": os_[1][0]}
        for i, t in cfg.calls(b):
            c = common.norm(cfg.callee(t) or "")
            if "db_search_handlers::" not in c or not c.endswith("::new"):
                continue
            h = c.split("::")[-2]
            if h not in ARGS:
                continue
            n_ctor += 1
            got = [(cfg.op_origin(b, a) or (None,))[0] for a in t["a"][:len(ARGS[h])]]
            want = [pidx.get(x) for x in ARGS[h]]
            ctx.ob("R16b", "%s:%s::new#%d" % (fn, h, n_ctor), got == want and None not in want,
                   "%s::new(%s, ..)" % (h, ", ".join(ARGS[h])) if got == want else
                   "%s::new in %s receives its limit/offset arguments in the wrong positions (expected %s)" % (h, fn, ARGS[h]),
                   b.loc(i), key="%s|R16b|%s|%s::new|args" % (ctx.pid, fn, h))
    ctx.floor("R16b", "streaming handler constructions", n_ctor, 15)
    if len(tables) == 2:
        ctx.ob("R16b", "search_from~search_to", tables["search_from"] == tables["search_to"],
               "forward and reverse searches use the same handler table" if tables["search_from"] == tables["search_to"] else
               "search_from and search_to disagree on the handler table", "")

    b = ctx.anchor("R16c", SQ + "search")
    if b:
        sort = cfg.call_blocks(b, [SQ + "sort"])
        slc = cfg.call_blocks(b, [SQ + "slice"])
        okb, errb, unk = cfg.ret_class_blocks(b)
        targets = okb + unk
        ie = [(i, t) for i, t in cfg.calls(b) if (cfg.callee(t) or "").endswith("::is_empty") and t["a"] and
              (cfg.op_origin(b, t["a"][0]) or (0, []))[1][:1] == [".order_by"]]
        n_full = n_pass = 0
        for i, t in cfg.calls(b):
            c = common.norm(cfg.callee(t) or "")
            if c not in (DB + "search_from", DB + "search_to", DB + "search_from_to"):
                continue
            if c.endswith("search_from_to") and len(t["a"]) < 5:
                full = True             # the path search takes no limit / offset: always complete
            elif c.endswith("search_from_to"):
                # a path search is never streamed: the elements of the path are selected by their flag only after the
                # search, so limit / offset can only be applied by slice() on the complete result
                ks = [cfg.op_const(a) for a in t["a"][3:5]]
                full = all(k and k.get("v") == 0 for k in ks)
                if not full and path_slices_after_filter(fa):
                    continue            # a streamed path search that slices the *selected* elements is the same result
                if not full:
                    ctx.ob("R16c", "search:%s@limit-offset" % c.split("::")[-1], False,
                           "the path search is given limit / offset (%s): a path is filtered by the per-element flag after the "
                           "search, so slicing inside the search counts elements the conditions did not select" % b.loc(i), b.loc(i),
                           key="%s|R16c|search|path-streamed" % ctx.pid)
                    continue
            else:
                k3, k4 = cfg.op_const(t["a"][3]), cfg.op_const(t["a"][4])
                o3, o4 = cfg.op_origin(b, t["a"][3]), cfg.op_origin(b, t["a"][4])
                full = bool(k3 and k4 and k3.get("v") == 0 and k4.get("v") == 0)
                passthru = bool(o3 and o4 and o3[1] == [".limit"] and o4[1] == [".offset"])
                if not full and not passthru:
                    ctx.ob("R16c", "search:%s@%d" % (c.split("::")[-1], i), False,
                           "search call passes neither (0,0) nor (self.limit, self.offset)", b.loc(i),
                           key="%s|R16c|search|args|%s" % (ctx.pid, c.split("::")[-1]))
                    continue
            if full:
                n_full += 1
                p1 = cfg.find_path(b, [i], targets, avoid=sort, leave_start=True)
                p2 = cfg.find_path(b, [i], targets, avoid=slc, leave_start=True)
                p3 = cfg.find_path(b, [i], slc, avoid=sort, leave_start=True)
                ok = bool(sort and slc) and p1 is None and p2 is None and p3 is None and i not in targets
                ctx.ob("R16c", "search:full-search#%d(%s)" % (n_full, c.split("::")[-1]), ok,
                       "complete search (0,0) -> sort -> slice on every success path" if ok else
                       "an ordered/path search result can be returned without sort-then-slice", b.loc(i))
            else:
                n_pass += 1
                ok = False
                for j, tj in ie:
                    for sw in cfg.bool_switches(b, cfg.derived_locals(b, [tj["d"][0]])):
                        if cfg.find_path(b, [0], [i], removed_edges=[sw["true_edge"]]) is None:
                            ok = True
                ctx.ob("R16c", "search:streaming#%d(%s)" % (n_pass, c.split("::")[-1]), ok,
                       "limit/offset are streamed only when order_by is empty" if ok else
                       "limit/offset are passed to the traversal although the result is ordered afterwards (or the "
                       "order_by.is_empty() guard is gone)", b.loc(i))
        ctx.floor("R16c", "full searches followed by sort+slice", n_full, 4)
        ctx.floor("R16c", "streaming searches", n_pass, 3)

    b = ctx.anchor("R16d", SQ + "sort")
    if b:
        ms = [m for m in fa.matches(b.path) if m["scrut_ty"].count("Option<") == 2]
        tbl = {}
        inner_ok = False
        if ms:
            for a in ms[0]["arms"]:
                p = a["p"]
                if p["k"] == "tuple" and len(p["sub"]) == 2:
                    key = tuple((s.get("path") or "?").split("::")[-1] for s in p["sub"])
                    ords = [x.split("::")[-1] for x in a["body"]["paths"] if x.startswith("std::cmp::Ordering::")]
                    tbl[key] = ords
        for m in fa.matches(b.path):
            if m["scrut_ty"].endswith("DbKeyOrder") and len(m["arms"]) == 2:
                t2 = {(a["p"].get("path") or "").split("::")[-1]: [common.norm(c).split("::")[-1] for c in a["body"]["calls"]] for a in m["arms"]}
                if t2.get("Asc") == ["cmp"] and sorted(t2.get("Desc", [])) == ["cmp", "reverse"]:
                    inner_ok = True
        ok = (tbl.get(("None", "None")) == ["Equal"] and tbl.get(("None", "Some")) == ["Greater"] and
              tbl.get(("Some", "None")) == ["Less"] and ("Some", "Some") in tbl and inner_ok)
        ctx.ob("R16d", "sort:comparator", ok,
               "(None,None)=Equal, (None,Some)=Greater, (Some,None)=Less, (Some,Some)=cmp / cmp.reverse() for Desc" if ok else
               "sort comparator table changed: %s, Asc/Desc ok: %s" % (tbl, inner_ok), b.where)
        # each side's value is looked up BY KEY in the fetched values (values_by_keys omits missing keys, so a
        # positional lookup would shift later keys): two `find` calls whose predicate compares DbValue keys
        finds = 0
        for cb in [b] + fa.closures_of(b.path):
            for i, t in cfg.calls(cb):
                if (cfg.callee_decl(t) or "").endswith("Iterator::find"):
                    for pb in common.closure_bodies_passed(fa, cb, t):
                        if any((cfg.callee_decl(tt) or "").endswith("PartialEq::eq") and "DbValue" in (cfg.callee_full(tt) or "")
                               for j, tt in cfg.calls(pb)):
                            finds += 1
        ctx.ob("R16d", "sort:lookup-by-key", finds >= 2,
               "left and right values are found by key equality" if finds >= 2 else
               "the sort comparator no longer looks the ordering key up by key equality on both sides (found %d of 2 "
               "`find(|kv| kv.key == *key)`): elements lacking an earlier key would be compared by shifted values" % finds, b.where)
        stable = [1 for i, t in cfg.calls(b) if (cfg.callee_decl(t) or "").endswith("::sort_by")]
        unstable = [1 for i, t in cfg.calls(b) if "sort_unstable" in (cfg.callee_decl(t) or "")]
        # ... and nothing else permutes or shortens the ids: every call that receives the id list mutably is the stable
        # sort (or a deref on the way to it); select_nth_unstable_by / truncate / swap / reverse would change which of
        # several equal elements end up in the returned slice
        others = []
        for i, t in cfg.calls(b):
            for a in t["a"]:
                pl = cfg.op_place(a)
                if pl and b.local_ty(pl[0]).startswith("&mut") and (cfg.op_origin(b, a) or (0,))[0] == 2:
                    d = cfg.callee_decl(t) or cfg.callee(t) or "?"
                    if not d.endswith(("::sort_by", "DerefMut::deref_mut", "::as_mut_slice", "::as_mut")):
                        others.append("%s@%s" % (d.split("::")[-1], b.loc(i)))
        ok_st = bool(stable) and not unstable and not others
        ctx.ob("R16d", "sort:stable", ok_st, "uses the stable slice::sort_by and nothing else reorders the ids" if ok_st
               else "ordering no longer relies on the stable sort alone (stable sort_by: %s, unstable sorts: %s, other "
               "mutators of the id list: %s)" % (bool(stable), bool(unstable), others), b.where)
    handler_control_rule(ctx)
    return 0
