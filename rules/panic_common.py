"""Shared PANIC rule (R07 / R21): enumerate panic-capable sites in the call-graph closure of an entry set
and discharge each one by a structural justification class or a frozen table entry."""
from lib import cfg, panics
from lib.callgraph import CallGraph
from rules import common

SIZE_SOURCES = ("::serialized_size", "::serialized_size_static", "::len", "::count", "::capacity", "::size_hint",
                "::storage_len", "::key_count", "::min", "::saturating_sub", "::saturating_add", "::size")


# size_of::<T>() of the fixed-width primitives (usize/isize deliberately absent: platform dependent)
PRIM_SIZES = {"u8": 1, "i8": 1, "bool": 1, "u16": 2, "i16": 2, "u32": 4, "i32": 4, "f32": 4, "u64": 8, "i64": 8, "f64": 8,
              "u128": 16, "i128": 16}


def const_of(b, op, depth=0):
    """Constant value of an operand, chasing single-definition copies/casts and `size_of::<primitive>()`;
    None if not constant."""
    k = cfg.op_const(op)
    if k is not None:
        return k.get("v")
    pl = cfg.op_place(op)
    if pl is None or len(pl) != 1 or depth > 6:
        return None
    ds = cfg.defs(b).get(pl[0], [])
    if len(ds) == 1 and ds[0][0] == "assign" and ds[0][2]["k"] in ("use", "cast"):
        return const_of(b, ds[0][2]["o"], depth + 1)
    if len(ds) == 1 and ds[0][0] == "call" and cfg.callee_decl(ds[0][2]) == "std::mem::size_of" and not ds[0][2]["a"]:
        full = cfg.callee_full(ds[0][2]) or ""
        if full.startswith("std::mem::size_of::<") and full.endswith(">"):
            return PRIM_SIZES.get(full[len("std::mem::size_of::<"):-1])
    return None


def size_seeds(b):
    return [tt["d"][0] for i, tt in cfg.calls(b) if (cfg.callee(tt) or "").endswith(SIZE_SOURCES) or
            (cfg.callee_decl(tt) or "").endswith(SIZE_SOURCES)]


def accumulators(b):
    """Locals used as offset accumulators: every definition is a constant or `acc + <size of a decoded value>`.
    Returns dict local -> set of constant initialisers."""
    sizes = cfg.derived_locals(b, size_seeds(b))
    out = {}
    for l, ds in cfg.defs(b).items():
        if b.local_name(l) is None:
            continue
        consts = set()
        ok = bool(ds)
        for d in ds:
            if d[0] != "assign":
                ok = False
                break
            r = d[2]
            if r["k"] == "use" and cfg.op_const(r["o"]) and "v" in cfg.op_const(r["o"]):
                consts.add(cfg.op_const(r["o"])["v"])
                continue
            if r["k"] == "use" and cfg.op_place(r["o"]):
                src = cfg.op_place(r["o"])
                sd = [x for x in cfg.defs(b).get(src[0], []) if x[0] == "assign"]
                if len(sd) == 1 and sd[0][2]["k"] == "bin" and sd[0][2]["op"].startswith("Add"):
                    a, bb_ = sd[0][2]["a"], sd[0][2]["b"]
                    oa, ob = cfg.op_origin(b, a), cfg.op_origin(b, bb_)

                    def is_size(o, op):
                        return bool(cfg.op_const(op)) or (o is not None and (o[0] in sizes))
                    if (oa and oa[0] == l and is_size(ob, bb_)) or (ob and ob[0] == l and is_size(oa, a)):
                        continue
            ok = False
            break
        if ok and consts:
            out[l] = consts
    return out


def len_guards(b):
    """Edges of comparisons in which one side derives from a `len()` call (either polarity is a candidate)."""
    out = []
    lens = cfg.derived_locals(b, [tt["d"][0] for i, tt in cfg.calls(b) if (cfg.callee(tt) or "").endswith("::len")])
    for bi, st in cfg.assigns(b):
        r = st["r"]
        if r["k"] == "bin" and r["op"] in ("Lt", "Le", "Gt", "Ge", "Eq", "Ne") and len(st["l"]) == 1:
            oa, ob = cfg.op_origin(b, r["a"]), cfg.op_origin(b, r["b"])
            if (oa and oa[0] in lens) or (ob and ob[0] in lens):
                for sw in cfg.bool_switches(b, cfg.derived_locals(b, [st["l"][0]])):
                    out.append(("length test", sw["true_edge"]))
                    out.append(("length test", sw["false_edge"]))
    return out


def decode_guards(b):
    out = []
    for i, tt in cfg.calls(b):
        n = cfg.callee_decl(tt) or ""
        nn = cfg.callee(tt) or ""
        if n.endswith(("Serialize::deserialize", "SerializeStatic::deserialize")) or nn.endswith("::deserialize"):
            for te in cfg.try_edges(b, cfg.derived_locals(b, [tt["d"][0]])):
                if te["ok_edge"]:
                    out.append(("prior successful decode", te["ok_edge"]))
        if nn.endswith(("::first", "::get", "::split_first", "::first_chunk")):
            der = cfg.derived_locals(b, [tt["d"][0]])
            for j, bl in enumerate(b.blocks):
                t2 = bl["term"]
                if t2["k"] == "switch":
                    pl = cfg.op_place(t2["d"])
                    ds = cfg.defs(b).get(pl[0], []) if pl else []
                    if ds and ds[0][0] == "assign" and ds[0][2]["k"] == "discr" and ds[0][2]["p"][0] in der:
                        for v, tb in t2["ts"]:
                            if v == 1:
                                out.append(("Some edge of %s" % nn.split("::")[-1], (j, tb)))
    return out


def range_parts(b, op):
    """(kind, [operands]) of a Range/RangeFrom/RangeTo aggregate passed as operand, else None."""
    org = cfg.op_origin(b, op)
    if not org:
        return None
    for d in cfg.defs(b).get(org[0], []):
        if d[0] == "assign" and d[2]["k"] == "agg" and d[2].get("adt", "").startswith("std::ops::Range"):
            return d[2]["adt"].split("::")[-1], d[2]["ops"]
    return None


def array_len(ty):
    """N of `[T; N]` (possibly behind references); None for slices (`[[u8; 8]]`), vectors and everything else."""
    ty = ty.strip()
    while ty.startswith("&"):
        ty = ty[1:].strip()
        if ty.startswith("mut "):
            ty = ty[4:].strip()
    if not (ty.startswith("[") and ty.endswith("]")):
        return None
    depth = 0
    semi = None
    for i, ch in enumerate(ty):
        if ch in "[(<":
            depth += 1
        elif ch in "])>":
            depth -= 1
            if depth == 0 and i != len(ty) - 1:
                return None            # the leading `[` closes before the end: not one array type
        elif ch == ";" and depth == 1:
            semi = i
    if semi is None:
        return None
    try:
        return int(ty[semi + 1:-1].strip())
    except ValueError:
        return None


def fixed_len(b, op, depth=0):
    """Constant length of the slice an operand refers to, else None: the operand is (a reference / unsizing cast /
    reborrow of) a `[T; N]` value -> N, or the result of `x[a..b]` / `x[..b]` with constant bounds -> b - a / b
    (whether that slicing itself is in range is a separate `index` site)."""
    pl = cfg.op_place(op)
    if pl is None or depth > 8 or any(e != "*" for e in pl[1:]):
        return None
    n = array_len(b.local_ty(pl[0]))
    if n is not None:
        return n
    ds = cfg.defs(b).get(pl[0], [])
    if len(ds) != 1:
        return None
    d = ds[0]
    if d[0] == "assign":
        r = d[2]
        if r["k"] in ("use", "cast"):
            return fixed_len(b, r["o"], depth + 1)
        if r["k"] == "ref" and all(e == "*" for e in r["p"][1:]):
            return fixed_len(b, {"cp": [r["p"][0]]}, depth + 1)
        return None
    if d[0] == "call" and cfg.callee_decl(d[2]) in panics.INDEX_DECLS and len(d[2]["a"]) > 1:
        rp = range_parts(b, d[2]["a"][1])
        if rp:
            vals = [const_of(b, o) for o in rp[1]]
            if all(v is not None for v in vals):
                if rp[0] == "Range" and len(vals) == 2 and vals[0] <= vals[1]:
                    return vals[1] - vals[0]
                if rp[0] == "RangeTo" and len(vals) == 1:
                    return vals[0]
    return None


def classify(fa, b, s):
    """Return a justification string if site `s` of body `b` is structurally safe, else None."""
    blk = b.blocks[s["bb"]]
    t = blk["term"]
    kind = s["kind"]
    if kind == "bounds_check":
        iv = const_of(b, t["idx"]) if "idx" in t else None
        lv = const_of(b, t["len"]) if "len" in t else None
        if iv is not None and lv is not None and iv < lv:
            return "constant index %d < constant length %d" % (iv, lv)
        if iv is not None:
            g = common.guarded_by(b, s["bb"], len_guards(b) + decode_guards(b))
            if g:
                return "constant index %d after a %s" % (iv, g)
        return None
    if kind in ("copy_from_slice", "clone_from_slice"):
        # panics iff the two lengths differ: both sides have the same compile-time length
        if len(t["a"]) == 2:
            nd, ns = fixed_len(b, t["a"][0]), fixed_len(b, t["a"][1])
            if nd is not None and nd == ns:
                return "destination and source both have the constant length %d" % nd
        return None
    if kind in ("DivisionByZero", "RemainderByZero"):
        c = cfg.op_place(t["c"])
        if c:
            for d in cfg.defs(b).get(c[0], []):
                if d[0] == "assign" and d[2]["k"] == "bin" and d[2]["op"] == "Eq":
                    for o in (d[2]["a"], d[2]["b"]):
                        v = const_of(b, o)
                        if v not in (None, 0):
                            return "division by the non-zero constant %d" % v
        return None
    if kind == "alloc":
        args = t["a"]
        size_op = args[-1] if args else None
        if s["callee"] in ("vec_resize", "vec_reserve"):
            size_op = args[1] if len(args) > 1 else None
        if size_op is None:
            return None
        if const_of(b, size_op) is not None:
            return "constant size"
        der = cfg.derived_locals(b, size_seeds(b))
        org = cfg.op_origin(b, size_op)
        if org and (org[0] in der or cfg.op_place(size_op)[0] in der):
            return "size derives from an in-memory length/size"
        # one level up: the size is pure arithmetic on the parameters of a private helper and every caller passes an
        # in-memory length/size (or a constant) for one of them (the same class, seen through an extracted helper)
        pl = cfg.op_place(size_op)
        if pl and str(b.d.get("vis", "")).startswith("Restricted") and not b.d.get("impl_trait"):
            sl, calls_in, reads = cfg.backward_slice(b, [pl[0]])
            params = sorted({p_ for p_, f in reads if f is None and not b.local_ty(p_).startswith("&")})
            if params and not [1 for i, tt in calls_in if not cfg.is_transparent(cfg.callee(tt) or "")]:
                ups = common.callers_of(fa, common.norm(b.npath), b.crate)
                if ups and all(any(const_of(ub, tj["a"][p_ - 1]) is not None or (
                        cfg.op_place(tj["a"][p_ - 1]) and (
                            cfg.op_place(tj["a"][p_ - 1])[0] in cfg.derived_locals(ub, size_seeds(ub)) or
                            (cfg.op_origin(ub, tj["a"][p_ - 1]) or (None,))[0] in cfg.derived_locals(ub, size_seeds(ub))))
                        for p_ in params if p_ - 1 < len(tj["a"])) for ub, j, tj in ups):
                    return "size is arithmetic on helper parameters; every caller (%d) passes an in-memory length/size" % len(ups)
        return None
    if kind == "overflow":
        c = cfg.op_place(t["c"])
        if c:
            sizes = cfg.derived_locals(b, size_seeds(b))
            accs = accumulators(b)
            for d in cfg.defs(b).get(c[0], []):
                if d[0] == "assign" and d[2]["k"] == "bin":
                    oa, ob = cfg.op_origin(b, d[2]["a"]), cfg.op_origin(b, d[2]["b"])

                    def small(o, op):
                        return const_of(b, op) is not None or (o is not None and (o[0] in sizes or o[0] in accs))
                    if small(oa, d[2]["a"]) and small(ob, d[2]["b"]) and d[2]["op"].startswith(("Add", "Mul")):
                        return "arithmetic on sizes of already decoded in-memory values / constants"
        return None
    if kind == "index":
        full = cfg.callee_full(t) or ""
        recv_ty = full.split(" as std::ops::Index")[0].lstrip("<")
        recv = cfg.op_origin(b, t["a"][0]) if t["a"] else None
        rp = range_parts(b, t["a"][1]) if len(t["a"]) > 1 else None
        n_arr = array_len(recv_ty)
        if n_arr is not None and rp:
            vals = [const_of(b, o) for o in rp[1]]
            if rp[0] in ("Range", "RangeTo", "RangeFrom") and all(v is not None and v <= n_arr for v in vals) and \
                    vals == sorted(vals):
                return "constant range %s into a fixed-size array of %d" % (vals, n_arr)
        if n_arr is not None and rp is None and len(t["a"]) > 1:
            v = const_of(b, t["a"][1])
            if v is not None and v < n_arr:
                return "constant index into a fixed-size array"
        on_param_buffer = bool(recv and 1 <= recv[0] <= b.d["argc"] and "[u8]" in b.local_ty(recv[0]))
        is_str = recv_ty.replace("&", "").replace("mut ", "").strip() in ("str", "std::string::String")
        if is_str and rp:
            # a byte length test says nothing about char boundaries: `&s[..n]` panics inside a multi-byte character.
            # Only offsets 0 / s.len() (and constants 0) are boundaries by construction.
            def boundary(o):
                v = const_of(b, o)
                if v == 0:
                    return True
                t_ = _call_result(b, o, ("::len",))
                return t_ is not None and _root(b, t_["a"][0]) == (recv[0] if recv else None)
            if all(boundary(o) for o in rp[1]):
                return "str range whose bounds are 0 / the string's own len()"
            return None
        guards = len_guards(b) + (decode_guards(b) if on_param_buffer else [])
        g = common.guarded_by(b, s["bb"], guards)
        if rp:
            vals = [const_of(b, o) for o in rp[1]]
            if all(v is not None for v in vals):
                if vals == [0] and rp[0] == "RangeFrom":
                    return "slice from offset 0"
                if g:
                    return "constant range %s taken only after a %s" % (vals, g)
            if on_param_buffer and rp[0] == "RangeFrom":
                accs = accumulators(b)
                sizes = cfg.derived_locals(b, size_seeds(b))
                o = rp[1][0]
                org = cfg.op_origin(b, o)
                start = None
                cands = [org] if org else []
                if org:
                    for dd in cfg.defs(b).get(org[0], []):
                        if dd[0] == "assign" and dd[2]["k"] == "cast":
                            o2 = cfg.op_origin(b, dd[2]["o"])
                            if o2:
                                cands.append(o2)
                for c_ in cands:
                    if c_[0] in accs:
                        start = ("acc", accs[c_[0]])
                    elif c_[0] in sizes:
                        start = ("size", None)
                if start:
                    if start[0] == "acc" and start[1] == {0}:
                        return "slice at an offset accumulator that starts at 0 and only adds sizes of decoded values"
                    if g:
                        return "slice at a decoded-size offset, taken only after a " + g
        else:
            # integer index: guarded by a comparison of that very index against a len()
            idx = cfg.op_origin(b, t["a"][1]) if len(t["a"]) > 1 else None
            if idx:
                lens = cfg.derived_locals(b, [tt["d"][0] for i, tt in cfg.calls(b) if (cfg.callee(tt) or "").endswith("::len")])
                for bi, st in cfg.assigns(b):
                    r = st["r"]
                    if r["k"] == "bin" and r["op"] in ("Lt", "Le", "Gt", "Ge") and len(st["l"]) == 1:
                        oa, ob = cfg.op_origin(b, r["a"]), cfg.op_origin(b, r["b"])
                        if oa and ob and ((oa[0] == idx[0] and ob[0] in lens) or (ob[0] == idx[0] and oa[0] in lens)):
                            for sw in cfg.bool_switches(b, cfg.derived_locals(b, [st["l"][0]])):
                                for e in (sw["true_edge"], sw["false_edge"]):
                                    if cfg.find_path(b, [0], [s["bb"]], removed_edges=[e]) is None:
                                        return "index compared against len() of the collection before use"
        return None
    return None


def run_panic_rule(ctx, rule, roots, justified, overflow_fns=(), crates=("agdb",), floor=10):
    """justified: dict key (function|kind|callee) -> reason | (reason, requirement(fa, body, site) -> bool)."""
    fa = ctx.facts
    from lib import inline
    cg = CallGraph(fa, inline_view=True)
    seen = cg.closure([r for r in roots if r is not None])
    n_sites = 0
    n_auto = 0
    used = set()
    for p, (b, parent, bb) in sorted(seen.items()):
        if b.crate not in crates or "test_utilities" in b.path:
            continue
        b = inline.inlined(fa, b)       # sites of folded helpers are sites of the function they were extracted from
        fn = common.norm(b.root or b.npath)
        ov = any(fn.endswith(x) for x in overflow_fns)
        for s in panics.sites(b, overflow=ov):
            n_sites += 1
            key = "%s|%s|%s" % (fn, s["kind"], s["callee"])
            why = classify(fa, b, s)
            if why:
                n_auto += 1
                ctx.ob(rule, key + "@auto", True, why, b.loc(s["bb"]), key="%s|%s|%s" % (ctx.pid, rule, key))
                continue
            if key in justified:
                j = justified[key]
                used.add(key)
                reason, req = (j, None) if isinstance(j, str) else j
                okj = True if req is None else bool(req(fa, b, s))
                ctx.ob(rule, key, okj, ("justified (frozen): " + reason) if okj else
                       "the frozen justification of `%s` (%s) no longer holds structurally" % (key, reason), b.loc(s["bb"]),
                       key="%s|%s|%s" % (ctx.pid, rule, key))
                continue
            chain = cg.chain(seen, p)
            ctx.ob(rule, key, False,
                   "panic-capable site `%s %s` in `%s` is reachable from the entry set (via %s) and is neither structurally "
                   "safe nor in the justified table" % (s["kind"], s["callee"], fn, " -> ".join(x.split("::")[-1] for x in chain[-4:])),
                   b.loc(s["bb"]), key="%s|%s|%s" % (ctx.pid, rule, key))
    ctx.floor(rule, "panic-capable sites enumerated in the closure (%d bodies)" % len(seen), n_sites, floor)
    ctx.note("%s: %d bodies in the closure, %d sites, %d discharged structurally, %d by the frozen table" % (
        rule, len(seen), n_sites, n_auto, len(used)))
    return seen, cg


def recursion_rule(ctx, rule, seen, cg, depth_guards=()):
    """Unbounded recursion through the decoders: the derive-generated and hand-written decoders follow the type
    structure, so a recursive family of serializable types (an ADT that contains itself through its field types,
    e.g. via Vec<..>) decodes recursively; every such family must contain a depth guard (a call to one of
    `depth_guards` in one of its decoders). The call graph is not used for the cycle search: class-hierarchy
    resolution of `T::deserialize` would put every decoder on one spurious cycle."""
    fa = ctx.facts
    ser = set()
    for im in fa.impls:
        if (im.get("trait") or "").endswith(("serialize::Serialize", "AgdbSerialize")) and im.get("self_adt"):
            ser.add(im["self_adt"])
    adj = {}
    for p in ser:
        adt = fa.adts.get(p)
        if not adt:
            continue
        adj[p] = sorted({a for v in adt["variants"] for f in v["fields"] for a in f["adts"] if a in ser and a in fa.adts})
    index, low, on, st, comps, cnt = {}, {}, set(), [], [], [0]

    def strong(v):
        index[v] = low[v] = cnt[0]
        cnt[0] += 1
        st.append(v)
        on.add(v)
        for w in adj.get(v, []):
            if w not in index:
                strong(w)
                low[v] = min(low[v], low[w])
            elif w in on:
                low[v] = min(low[v], index[w])
        if low[v] == index[v]:
            comp = []
            while True:
                w = st.pop()
                on.discard(w)
                comp.append(w)
                if w == v:
                    break
            if len(comp) > 1 or v in adj.get(v, []):
                comps.append(sorted(comp))
    for v in sorted(adj):
        if v not in index:
            strong(v)
    for comp in comps:
        guarded = False
        for p in comp:
            for b in fa.bodies.values():
                if b.d.get("name") == "deserialize" and (b.d.get("impl_self") or "").split("<")[0] == p:
                    if any(common.norm(cfg.callee(t) or "") in depth_guards for i, t in cfg.calls(b)):
                        guarded = True
        ctx.ob(rule, "recursive-types:" + "+".join(c.split("::")[-1] for c in comp), guarded,
               "recursion bounded by a depth guard" if guarded else
               "the serializable types %s contain each other: their decoders recurse once per nesting level without a "
               "depth bound, so deeply nested input overflows the stack" % [c.split("::")[-1] for c in comp],
               "%s:%d" % (fa.adts[comp[0]]["file"], fa.adts[comp[0]]["line"]),
               key="%s|%s|recursive-types|%s" % (ctx.pid, rule, "+".join(comp)))
    ctx.note("%s: %d serializable ADTs inspected, %d recursive families" % (rule, len(adj), len(comps)))
    return comps


def _len_locals(b, suffixes=("::len",)):
    return cfg.derived_locals(b, [tt["d"][0] for i, tt in cfg.calls(b) if (cfg.callee(tt) or "").endswith(suffixes) or
                                  (cfg.callee_decl(tt) or "").endswith(suffixes)])


def _root(b, op):
    o = cfg.op_origin(b, op)
    return o[0] if o else None


def _flows_from(b, op, src_local, depth=0):
    """`op` is a copy / cast chain (named snapshots `let x = y as T` included) of local `src_local`."""
    pl = cfg.op_place(op)
    if pl is None or depth > 8:
        return False
    if pl[0] == src_local:
        return True
    if len(pl) != 1:
        return False
    ds = cfg.defs(b).get(pl[0], [])
    if len(ds) == 1 and ds[0][0] == "assign" and ds[0][2]["k"] in ("use", "cast"):
        return _flows_from(b, ds[0][2]["o"], src_local, depth + 1)
    return False


def _call_result(b, op, suffixes, depth=0):
    """The call terminator (callee ending with one of `suffixes`) whose result `op` is a copy / cast chain of."""
    pl = cfg.op_place(op)
    if pl is None or len(pl) != 1 or depth > 8:
        return None
    ds = cfg.defs(b).get(pl[0], [])
    if len(ds) != 1:
        return None
    if ds[0][0] == "call":
        t = ds[0][2]
        if (cfg.callee(t) or "").endswith(suffixes) or (cfg.callee_decl(t) or "").endswith(suffixes):
            return t
        return None
    if ds[0][0] == "assign" and ds[0][2]["k"] in ("use", "cast"):
        return _call_result(b, ds[0][2]["o"], suffixes, depth + 1)
    if ds[0][0] == "assign" and ds[0][2]["k"] == "ref" and all(e == "*" for e in ds[0][2]["p"][1:]):
        return _call_result(b, {"cp": [ds[0][2]["p"][0]]}, suffixes, depth + 1)       # reborrow `&mut *x`
    return None


def is_const(v):
    return lambda fa, b, s, o: const_of(b, o) == v


def result_of(*suffixes):
    return lambda fa, b, s, o: _call_result(b, o, tuple(suffixes)) is not None


def rejected_before(op, lhs=None, rhs=None):
    """The site is reachable only through the *false* edge of a comparison `op(lhs, rhs)` in the same body (a
    reject-if-true guard). `lhs` / `rhs`: predicates `(fa, b, site, operand) -> bool` on the two operands."""
    def req(fa, b, s):
        def bin_pred(st, cb):
            r = st["r"]
            return cb is b and r["op"] == op and (lhs is None or lhs(fa, b, s, r["a"])) and \
                (rhs is None or rhs(fa, b, s, r["b"]))
        return common.guarded_by(b, s["bb"], common.reject_guards(fa, b, bin_pred=bin_pred)) is not None
    return req


def unwrap_of(*suffixes):
    """The unwrapped value is directly the result of a call to one of the named functions."""
    def req(fa, b, s):
        t = b.blocks[s["bb"]]["term"]
        return bool(t["a"]) and _call_result(b, t["a"][0], tuple(suffixes)) is not None
    return req


def const_index(value):
    """`x[i]` with the constant index `value`."""
    def req(fa, b, s):
        t = b.blocks[s["bb"]]["term"]
        return len(t["a"]) > 1 and const_of(b, t["a"][1]) == value
    return req


def any_of(*reqs):
    return lambda fa, b, s: any(r(fa, b, s) for r in reqs)


def all_of(*reqs):
    return lambda fa, b, s: all(r(fa, b, s) for r in reqs)


def after_len_test(fa, b, s):
    """The site is reachable only through one edge of a comparison against a `len()`."""
    return common.guarded_by(b, s["bb"], len_guards(b)) is not None


def after_decode(fa, b, s):
    """The site is reachable only through the Ok edge of a `deserialize(..)?`."""
    return common.guarded_by(b, s["bb"], decode_guards(b)) is not None


def grown_to_index(fa, b, s):
    """`v[i]` preceded by `if v.len() <= i { v.resize(i + 1, ..) }`: the site is reachable only through that test and
    every path from its true edge passes a `Vec::resize` whose new length is `i + 1`."""
    t = b.blocks[s["bb"]]["term"]
    if len(t["a"]) < 2:
        return False
    idx = _root(b, t["a"][1])
    lens = _len_locals(b)
    resizes = []
    for i, tt in cfg.calls(b):
        if cfg.callee_decl(tt) == "std::vec::Vec::resize" and len(tt["a"]) > 1:
            o = cfg.op_origin(b, tt["a"][1])
            for d in (cfg.defs(b).get(o[0], []) if o else []):
                if d[0] == "assign" and d[2]["k"] == "bin" and d[2]["op"].startswith("Add") and \
                        _root(b, d[2]["a"]) == idx and const_of(b, d[2]["b"]) == 1:
                    resizes.append(i)
    if idx is None or not resizes:
        return False
    for bi, st in cfg.assigns(b):
        r = st["r"]
        if r["k"] == "bin" and r["op"] == "Le" and len(st["l"]) == 1 and _root(b, r["a"]) in lens and _root(b, r["b"]) == idx:
            for sw in cfg.bool_switches(b, cfg.derived_locals(b, [st["l"][0]])):
                te, fe = sw["true_edge"], sw["false_edge"]
                if cfg.find_path(b, [0], [s["bb"]], removed_edges=[te, fe]) is None and \
                        cfg.must_pass(b, [te[1]], resizes, [s["bb"]])[0]:
                    return True
    return False
