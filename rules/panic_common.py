"""Shared PANIC rule (R07 / R21): enumerate panic-capable sites in the call-graph closure of an entry set
and discharge each one by a structural justification class or a frozen table entry."""
from lib import cfg, panics
from lib.callgraph import CallGraph
from rules import common

SIZE_SOURCES = ("::serialized_size", "::serialized_size_static", "::len", "::count", "::capacity", "::size_hint",
                "::storage_len", "::key_count", "::min", "::saturating_sub", "::saturating_add", "::size")


def _const_nonzero(op):
    k = cfg.op_const(op)
    return bool(k and k.get("v") not in (None, 0))


def size_seeds(b):
    return [tt["d"][0] for i, tt in cfg.calls(b) if (cfg.callee(tt) or "").endswith(SIZE_SOURCES) or
            (cfg.callee_decl(tt) or "").endswith(SIZE_SOURCES)]


def accumulators(b):
    """Locals used as offset accumulators: every definition is a constant or `acc + <size of a decoded value>`.
    Returns dict local -> set of constant initialisers."""
    sizes = cfg.derived_locals(b, size_seeds(b))
    out = {}
    for l, ds in cfg.defs(b).items():
        if b.local_name(l) is None:
            continue
        consts = set()
        ok = bool(ds)
        nadd = 0
        for d in ds:
            if d[0] != "assign":
                ok = False
                break
            r = d[2]
            if r["k"] == "use" and cfg.op_const(r["o"]) and "v" in cfg.op_const(r["o"]):
                consts.add(cfg.op_const(r["o"])["v"])
                continue
            if r["k"] == "use" and cfg.op_place(r["o"]):
                src = cfg.op_place(r["o"])
                sd = [x for x in cfg.defs(b).get(src[0], []) if x[0] == "assign"]
                if len(sd) == 1 and sd[0][2]["k"] == "bin" and sd[0][2]["op"].startswith("Add"):
                    a, bb_ = sd[0][2]["a"], sd[0][2]["b"]
                    oa, ob = cfg.op_origin(b, a), cfg.op_origin(b, bb_)
                    def is_size(o, op):
                        return bool(cfg.op_const(op)) or (o is not None and (o[0] in sizes))
                    if (oa and oa[0] == l and is_size(ob, bb_)) or (ob and ob[0] == l and is_size(oa, a)):
                        nadd += 1
                        continue
            ok = False
            break
        if ok and consts:
            out[l] = consts
    return out


def classify(fa, b, s):
    """Return a justification string if site `s` of body `b` is structurally safe, else None."""
    blk = b.blocks[s["bb"]]
    t = blk["term"]
    kind = s["kind"]
    if kind == "bounds_check":
        li, ii = cfg.op_const(t.get("len", {})), cfg.op_const(t.get("idx", {}))
        if ii and "v" in ii:
            # constant index into a fixed-size array
            pl = None
            for st in blk["s"]:
                pass
            # the indexed array type: look for a local of array type with enough elements
            if li and "v" in li and ii["v"] < li["v"]:
                return "constant index %d < constant length %d" % (ii["v"], li["v"])
            for l in b.locals:
                ty = l["ty"]
                if ty.startswith("[") and ";" in ty:
                    try:
                        n = int(ty.rsplit(";", 1)[1].strip(" ]"))
                    except ValueError:
                        continue
                    if ii["v"] < n:
                        return "constant index %d into fixed array %s" % (ii["v"], ty)
        return None
    if kind in ("DivisionByZero", "RemainderByZero"):
        # divisor: the assert condition is `Eq(divisor, 0)`; find it
        c = cfg.op_place(t["c"])
        if c:
            for d in cfg.defs(b).get(c[0], []):
                if d[0] == "assign" and d[2]["k"] == "bin" and d[2]["op"] == "Eq":
                    for o in (d[2]["a"], d[2]["b"]):
                        if _const_nonzero(o):
                            return "division by a non-zero constant"
                    # divisor derived from a non-zero constant through copies
                    for o in (d[2]["a"], d[2]["b"]):
                        org = cfg.op_origin(b, o)
                        if org:
                            for dd in cfg.defs(b).get(org[0], []):
                                if dd[0] == "assign" and dd[2]["k"] in ("use", "cast") and _const_nonzero(dd[2]["o"]):
                                    return "division by a non-zero constant"
        return None
    if kind == "alloc":
        # size operand: last integer operand
        args = t["a"]
        size_op = args[-1] if args else None
        if s["callee"] in ("vec_resize",):
            size_op = args[1] if len(args) > 1 else None
        if s["callee"] in ("vec_reserve",):
            size_op = args[1] if len(args) > 1 else None
        if size_op is None:
            return None
        if cfg.op_const(size_op):
            return "constant size"
        seeds = [tt["d"][0] for i, tt in cfg.calls(b) if (cfg.callee(tt) or "").endswith(SIZE_SOURCES) or
                 (cfg.callee_decl(tt) or "").endswith(SIZE_SOURCES)]
        der = cfg.derived_locals(b, seeds)
        org = cfg.op_origin(b, size_op)
        if org and (org[0] in der or cfg.op_place(size_op)[0] in der):
            return "size derives from an in-memory length/size"
        return None
    if kind == "overflow":
        c = cfg.op_place(t["c"])
        if c:
            sizes = cfg.derived_locals(b, size_seeds(b))
            accs = accumulators(b)
            for d in cfg.defs(b).get(c[0], []):
                if d[0] == "assign" and d[2]["k"] == "bin":
                    oa, ob = cfg.op_origin(b, d[2]["a"]), cfg.op_origin(b, d[2]["b"])
                    def small(o, op):
                        return bool(cfg.op_const(op)) or (o is not None and (o[0] in sizes or o[0] in accs))
                    if small(oa, d[2]["a"]) and small(ob, d[2]["b"]) and d[2]["op"].startswith(("Add", "Mul")):
                        return "arithmetic on sizes of already decoded in-memory values / constants"
        return None
    if kind == "index":
        full = cfg.callee_full(t) or ""
        recv = cfg.op_origin(b, t["a"][0]) if t["a"] else None
        # fixed-size array receiver with constant range
        if "; " in full.split(" as std::ops::Index")[0]:
            rng = cfg.op_origin(b, t["a"][1]) if len(t["a"]) > 1 else None
            consts = []
            if rng:
                for d in cfg.defs(b).get(rng[0], []):
                    if d[0] == "assign" and d[2]["k"] == "agg":
                        consts = [cfg.op_const(o) for o in d[2]["ops"]]
            if consts and all(c and "v" in c for c in consts):
                return "constant range into a fixed-size array"
        # decode buffer: RangeFrom / Range index on the input slice after a successful decode or length test
        if recv and 1 <= recv[0] <= b.d["argc"] and "[u8]" in b.local_ty(recv[0]):
            guards = []
            for i, tt in cfg.calls(b):
                n = cfg.callee_decl(tt) or ""
                nn = cfg.callee(tt) or ""
                if n.endswith(("Serialize::deserialize", "SerializeStatic::deserialize")) or nn.endswith("::deserialize"):
                    a0 = cfg.op_origin(b, tt["a"][0]) if tt["a"] else None
                    for te in cfg.try_edges(b, cfg.derived_locals(b, [tt["d"][0]])):
                        if te["ok_edge"]:
                            guards.append(("prior successful decode", te["ok_edge"]))
                if nn.endswith(("::first", "::get", "::split_first", "::first_chunk")):
                    der = cfg.derived_locals(b, [tt["d"][0]])
                    for j, bl in enumerate(b.blocks):
                        t2 = bl["term"]
                        if t2["k"] == "switch":
                            pl = cfg.op_place(t2["d"])
                            ds = cfg.defs(b).get(pl[0], []) if pl else []
                            if ds and ds[0][0] == "assign" and ds[0][2]["k"] == "discr" and ds[0][2]["p"][0] in der:
                                for v, tb in t2["ts"]:
                                    if v == 1:
                                        guards.append(("Some edge of %s" % nn.split("::")[-1], (j, tb)))
            for bi, st in cfg.assigns(b):
                r = st["r"]
                if r["k"] == "bin" and r["op"] in ("Lt", "Le", "Gt", "Ge") and len(st["l"]) == 1:
                    lens = [x for x in (r["a"], r["b"]) if cfg.op_origin(b, x) and cfg.def_call(b, cfg.op_origin(b, x)[0]) and
                            (cfg.callee(cfg.def_call(b, cfg.op_origin(b, x)[0])[1]) or "").endswith("::len")]
                    if lens:
                        for sw in cfg.bool_switches(b, cfg.derived_locals(b, [st["l"][0]])):
                            guards.append(("length test", sw["true_edge"]))
                            guards.append(("length test", sw["false_edge"]))
            g = common.guarded_by(b, s["bb"], guards)
            # the range start: constant, a size of a decoded value, or an offset accumulator of such sizes
            rng = cfg.op_origin(b, t["a"][1]) if len(t["a"]) > 1 else None
            start_ok = None
            if rng:
                accs = accumulators(b)
                sizes = cfg.derived_locals(b, size_seeds(b))
                for d in cfg.defs(b).get(rng[0], []):
                    if d[0] == "assign" and d[2]["k"] == "agg" and d[2].get("adt", "").endswith("RangeFrom"):
                        o = d[2]["ops"][0]
                        k = cfg.op_const(o)
                        org = cfg.op_origin(b, o)
                        if k and "v" in k:
                            start_ok = ("const", k["v"])
                        elif org and org[0] in accs:
                            start_ok = ("acc", accs[org[0]])
                        elif org and org[0] in sizes:
                            start_ok = ("size", None)
                        elif org:
                            # through a cast (`__offset as usize`)
                            for dd in cfg.defs(b).get(org[0], []):
                                if dd[0] == "assign" and dd[2]["k"] == "cast":
                                    o2 = cfg.op_origin(b, dd[2]["o"])
                                    if o2 and o2[0] in accs:
                                        start_ok = ("acc", accs[o2[0]])
                                    elif o2 and o2[0] in sizes:
                                        start_ok = ("size", None)
            if start_ok:
                if start_ok[0] == "const" and start_ok[1] == 0:
                    return "slice from offset 0"
                if start_ok[0] == "acc" and start_ok[1] == {0}:
                    return "slice at an offset accumulator that starts at 0 and only adds sizes of decoded values"
                if g:
                    return "slice at a decoded-size offset, taken only after: " + g
            elif g and rng is None:
                return "slice of the input buffer taken only after: " + g
        return None
    return None


def run_panic_rule(ctx, rule, roots, justified, overflow_fns=(), crates=("agdb",), floor=10):
    """justified: dict key (function|kind|callee) -> reason."""
    fa = ctx.facts
    cg = CallGraph(fa)
    seen = cg.closure([r for r in roots if r is not None])
    n_sites = 0
    n_auto = 0
    counted = {}
    for p, (b, parent, bb) in sorted(seen.items()):
        if b.crate not in crates or "test_utilities" in b.path:
            continue
        fn = common.norm(b.root or b.npath)
        ov = any(fn.endswith(x) or x in fn for x in overflow_fns)
        for s in panics.sites(b, overflow=ov):
            n_sites += 1
            key = "%s|%s|%s" % (fn, s["kind"], s["callee"])
            why = classify(fa, b, s)
            if why:
                n_auto += 1
                ctx.ob(rule, key + "@auto", True, why, b.loc(s["bb"]), key="%s|%s|%s" % (ctx.pid, rule, key))
                continue
            if key in justified:
                ctx.ob(rule, key, True, "justified (frozen): " + justified[key], b.loc(s["bb"]),
                       key="%s|%s|%s" % (ctx.pid, rule, key))
                continue
            chain = cg.chain(seen, p)
            ctx.ob(rule, key, False,
                   "panic-capable site `%s %s` in `%s` is reachable from the entry set (via %s) and is neither structurally "
                   "safe nor in the justified table" % (s["kind"], s["callee"], fn, " -> ".join(x.split("::")[-1] for x in chain[-4:])),
                   b.loc(s["bb"]), key="%s|%s|%s" % (ctx.pid, rule, key))
    ctx.floor(rule, "panic-capable sites enumerated in the closure (%d bodies)" % len(seen), n_sites, floor)
    ctx.note("%s: %d bodies in the closure, %d sites, %d discharged structurally" % (rule, len(seen), n_sites, n_auto))
    return seen
