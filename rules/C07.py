"""C07 — opening/reading a damaged file never crashes the process."""
from lib import cfg
from rules import common
from rules.panic_common import run_panic_rule

CRATES = ("agdb",)
EXPLANATION = (
    "Static PANIC rule over the open/read path: from DbImpl::new / with_data / DbAny::new_* / exec / transaction and every "
    "impl Query::process the workspace call-graph closure (trait calls resolved to all workspace impls) is computed and "
    "every panic-capable site in it is enumerated: explicit panics, unwrap/expect, slice/Vec/str indexing, MIR "
    "bounds/division asserts, copy_from_slice, split_at, Duration::new, time arithmetic, and size-driven allocations. "
    "Each site is discharged by a structural class (constant index into a fixed array, division by a non-zero constant, "
    "allocation sized by an in-memory length, slice of a buffer taken only after a successful decode / length test) or by "
    "the frozen justified table (one reason per entry); anything else is a violation.")
DECIDED = ["R07 every panic-capable site reachable from opening/reading is structurally safe or justified (PANIC)"]
UNDECIDED = ["arithmetic-overflow asserts outside the decoders (hundreds; they wrap in release builds) are counted, not triaged",
             "infinite loops on corrupted adjacency lists", "correctness of the justified table itself"]

READY = False   # under triage: not claimed in MANIFEST until every site is triaged
JUSTIFIED = {}

ENTRY = ["agdb::db::DbImpl::new", "agdb::db::DbImpl::with_data", "agdb::db::DbImpl::exec", "agdb::db::DbImpl::transaction",
         "agdb::db::DbImpl::<agdb::storage::any_storage::AnyStorage>::new_file",
         "agdb::db::DbImpl::<agdb::storage::any_storage::AnyStorage>::new_mapped",
         "agdb::db::DbImpl::<agdb::storage::any_storage::AnyStorage>::new_memory",
         "agdb::db::DbImpl::<agdb::storage::any_storage::AnyStorage>::try_new_file",
         "agdb::db::DbImpl::<agdb::storage::any_storage::AnyStorage>::try_new_mapped",
         "agdb::db::DbImpl::<agdb::storage::any_storage::AnyStorage>::try_new_memory"]


def run(ctx):
    fa = ctx.facts
    roots = [ctx.anchor("R07", p) for p in ENTRY]
    qs = [b for b in fa.bodies.values() if b.crate == "agdb" and b.d.get("name") == "process" and
          b.d.get("impl_trait") == "agdb::query::Query"]
    ctx.floor("R07", "impl Query::process entry points", len(qs), 18)
    run_panic_rule(ctx, "R07", roots + qs, JUSTIFIED, floor=150)
    return 0
