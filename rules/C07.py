"""C07 — opening/reading a damaged file never crashes the process."""
from lib import cfg
from rules import common
from rules import panic_common as pc
from rules.panic_common import run_panic_rule

CRATES = ("agdb",)
EXPLANATION = (
    "Static PANIC rule over the open/read path: from DbImpl::new / with_data / DbAny::new_* / exec / transaction and every "
    "impl Query::process the workspace call-graph closure (trait calls resolved to all workspace impls) is computed and "
    "every panic-capable site in it is enumerated: explicit panics, unwrap/expect, slice/Vec/str indexing, MIR "
    "bounds/division asserts, copy_from_slice, split_at, Duration::new, time arithmetic, and size-driven allocations. "
    "Each site is discharged by a structural class (constant index into a fixed array, division by a non-zero constant, "
    "allocation sized by an in-memory length, slice of a buffer taken only after a successful decode / length test, "
    "copy_from_slice between two slices of the same constant length) or by the frozen justified table (one reason per "
    "entry, most with a structural requirement that is re-evaluated on every run); anything else is a violation.")
DECIDED = ["R07 every panic-capable site reachable from opening/reading is structurally safe or justified (PANIC)"]
UNDECIDED = ["arithmetic-overflow asserts outside the decoders (hundreds; they wrap in release builds) are counted, not triaged",
             "infinite loops on corrupted adjacency lists", "correctness of the justified table itself",
             "memory that grows with the (possibly sparse / WAL-inflated) length of the data file without a single "
             "enumerated allocation site (std::fs::read, BTreeMap of free records, Vec::extend)"]

READY = True    # every residual site is triaged: justified below, or a reproduced genuine defect (known finding)


# ------------------------------------------------------------------------------------------- requirements (structural)

def _site_term(b, s):
    return b.blocks[s["bb"]]["term"]


def _same_root_as_arg(n):
    """operand has the same origin as argument `n` of the site's call."""
    return lambda fa, b, s, o: pc._root(b, o) is not None and pc._root(b, o) == pc._root(b, _site_term(b, s)["a"][n])


# Duration::new(secs, nanos) only panics when nanos >= 1e9 carries into an overflowing secs
nanos_below_1e9 = pc.rejected_before("Ge", lhs=_same_root_as_arg(1), rhs=pc.is_const(1_000_000_000))


def divisor_is_checked_capacity(fa, b, s):
    """`x % self.capacity()` on the false edge of `self.capacity() == 0`."""
    c = cfg.op_place(_site_term(b, s)["c"])
    divs = [d[2]["a"] for d in cfg.defs(b).get(c[0], []) if d[0] == "assign" and d[2]["k"] == "bin" and d[2]["op"] == "Eq"]
    return bool(divs) and pc._call_result(b, divs[0], ("::capacity",)) is not None and \
        pc.rejected_before("Eq", lhs=pc.result_of("::capacity"), rhs=pc.is_const(0))(fa, b, s)


def divisor_is_storage_len(fa, b, s):
    """`x / T::storage_len()`; every VecValue::storage_len impl is a closed-form constant expression: no input, no
    branch, calls only `serialized_size_static` (1, 8, 16, 24 or 32 today)."""
    c = cfg.op_place(_site_term(b, s)["c"])
    divs = [d[2]["a"] for d in cfg.defs(b).get(c[0], []) if d[0] == "assign" and d[2]["k"] == "bin" and d[2]["op"] == "Eq"]
    if not divs or pc._call_result(b, divs[0], ("VecValue::storage_len",)) is None:
        return False
    impls = [x for x in fa.bodies.values() if x.crate == "agdb" and x.d.get("name") == "storage_len" and
             (x.d.get("impl_trait") or "").endswith("VecValue")]
    return len(impls) >= 8 and all(
        x.d["argc"] == 0 and not any(bl["term"]["k"] == "switch" for bl in x.blocks) and
        all((cfg.callee_decl(t) or "").endswith("::serialized_size_static") for i, t in cfg.calls(x)) for x in impls)


def _range_of_index_call(b, op):
    t = pc._call_result(b, op, ("::index", "::index_mut"))
    if t is None or len(t["a"]) < 2:
        return None
    return pc.range_parts(b, t["a"][1])


def _len_call_on(b, op, root):
    t = pc._call_result(b, op, ("::len",))
    return t is not None and pc._root(b, t["a"][0]) == root


def set_value_guarded(fa, b, s):
    """`self.value[0..value.len()]` (and the copy into it from `value`) on the false edge of `value.len() > 15`."""
    t = _site_term(b, s)
    if s["kind"] == "index":
        rp, src = pc.range_parts(b, t["a"][1]), 2
    else:
        rp, src = _range_of_index_call(b, t["a"][0]), pc._root(b, t["a"][1])
    if not rp or rp[0] != "Range" or pc.const_of(b, rp[1][0]) != 0 or not _len_call_on(b, rp[1][1], src):
        return False
    return pc.rejected_before("Gt", lhs=lambda fa_, b_, s_, o: _len_call_on(b_, o, src), rhs=pc.is_const(15))(fa, b, s)


def range_end_is_masked_size(fa, b, s):
    """`self.value[0..self.size()]` where `size()` returns `byte & 0b1111`."""
    rp = pc.range_parts(b, _site_term(b, s)["a"][1])
    if not rp or rp[0] != "Range" or pc.const_of(b, rp[1][0]) != 0:
        return False
    if pc._call_result(b, rp[1][1], ("DbValueIndex::size",)) is None:
        return False
    sz = fa.body("agdb::db::db_value_index::DbValueIndex::size")
    rets = [d for d in cfg.defs(sz).get(0, [])] if sz else []
    return len(rets) == 1 and rets[0][0] == "assign" and rets[0][2]["k"] == "bin" and rets[0][2]["op"] == "BitAnd" and \
        pc.const_of(sz, rets[0][2]["b"]) == 15


def drain_offset_clamped(fa, b, s):
    """`ids.drain(..offset)` with offset = min(_, len) and every preceding `truncate(end)` has end = len or
    end = min(offset.saturating_add(_), len) >= offset."""
    t = _site_term(b, s)
    rp = pc.range_parts(b, t["a"][1])
    if not rp or rp[0] != "RangeTo":
        return False
    mn = pc._call_result(b, rp[1][0], ("std::cmp::min", "Ord::min", "::min"))       # min(a, b) or a.min(b)
    if mn is None or not any(pc._call_result(b, a, ("::len",)) for a in mn["a"]):
        return False
    off = mn["d"][0]
    for i, tt in cfg.calls(b):
        if cfg.callee_decl(tt) != "std::vec::Vec::truncate":
            continue
        end = pc._root(b, tt["a"][1])
        for d in cfg.defs(b).get(end, []):
            if d[0] == "assign" and d[2]["k"] in ("use", "cast") and pc._call_result(b, d[2]["o"], ("::len",)):
                continue
            if d[0] == "call" and (cfg.callee_decl(d[2]) or cfg.callee(d[2]) or "").endswith(("std::cmp::min", "Ord::min", "::min")):
                sa = [pc._call_result(b, a, ("::saturating_add",)) for a in d[2]["a"]]
                if any(x is not None and pc._flows_from(b, x["a"][0], off) for x in sa) and \
                        any(pc._call_result(b, a, ("::len",)) for a in d[2]["a"]):
                    continue
            return False
    return True


# vec![0; size] only after `remaining < size` was rejected, remaining = metadata().len() - stream_position()
wal_size_within_remaining = pc.rejected_before(
    "Lt", lhs=lambda fa, b, s, o: (lambda t: t is not None and pc._call_result(b, t["a"][0], ("Metadata::len",)) is not None)(
        pc._call_result(b, o, ("::saturating_sub",))),
    rhs=lambda fa, b, s, o: pc._root(b, o) is not None and pc._root(b, o) == pc._root(b, _site_term(b, s)["a"][-1]))


_POS_COMBINATORS = ("or_else", "or", "map", "map_or", "map_or_else", "unwrap_or", "unwrap_or_default", "unwrap_or_else", "and_then",
                     "branch", "from_residual", "into", "from")


def _ascii_char_pattern(b, t):
    """the pattern argument of a `str::rfind` / `find` call is a one-byte character constant"""
    for a in t["a"][1:]:
        c = cfg.op_const(a)
        if not c or c.get("ty") != "char":
            return False
        txt = c.get("c", "")
        if not (len(txt) in (3, 4) and txt[0] == "'" and txt[-1] == "'" and all(ord(ch) < 128 for ch in txt)):
            return False
    return len(t["a"]) == 2


def _pos_value_ok(fa, b, seeds, depth=0):
    """The value of `seeds` is computed only from the constant 0, results of `rfind` / `find` for a one-byte character,
    `+ 1`, and Option combinators whose closures do nothing else (a data-slice check: position = 0 or one past a
    one-byte character, hence a character boundary not beyond the length)."""
    sl, calls_in, reads = cfg.backward_slice(b, seeds)
    for l in sl:
        for d in cfg.defs(b).get(l, []):
            if d[0] not in ("assign", "partial"):
                continue
            r = d[2]
            if r["k"] == "bin":
                base = r["op"].replace("WithOverflow", "").replace("Unchecked", "")
                if not (base == "Add" and pc.const_of(b, r["b"]) == 1):
                    return False
            elif r["k"] in ("use", "cast"):
                c = cfg.op_const(r["o"])
                if c is not None and "v" in c and c["v"] not in (0,):
                    return False
            elif r["k"] == "agg" and r.get("what") in ("closure",):
                cb = fa.body(r["def"])
                if cb is None or depth > 2 or not _pos_value_ok(fa, cb, [0], depth + 1):
                    return False
    found = False
    for i, t in calls_in:
        n = (cfg.callee_decl(t) or cfg.callee(t) or "")
        last = n.split("::")[-1]
        if last in ("rfind", "find") and "str" in n:
            if not _ascii_char_pattern(b, t):
                return False
            found = True
        elif last in _POS_COMBINATORS and ("option::Option" in n or "ops::" in n or "convert::" in n or "Option<" in n):
            for a in t["a"]:
                c = cfg.op_const(a)
                if c is not None and "v" in c and c["v"] != 0:
                    return False
        else:
            return False
    return found or depth > 0


def insert_pos_after_separator(fa, b, s):
    """`name.insert(pos, '.')`: pos is 0 or `<rfind of a one-byte character> + 1` (data slice of pos)."""
    pos = pc._root(b, _site_term(b, s)["a"][1])
    return _pos_value_ok(fa, b, [pos])


def write_range_is_pos_plus_len(fa, b, s):
    """`self.buffer[pos..end]` / the copy of `bytes` into it: end = pos + bytes.len() and the site lies on one edge of the
    comparison of `end` against `self.len()`."""
    t = _site_term(b, s)
    rp = pc.range_parts(b, t["a"][1]) if s["kind"] == "index" else _range_of_index_call(b, t["a"][0])
    if not rp or rp[0] != "Range":
        return False
    start, end = pc._root(b, rp[1][0]), pc._root(b, rp[1][1])
    ok = False
    for d in cfg.defs(b).get(end, []):
        pl = cfg.op_place(d[2]["o"]) if d[0] == "assign" and d[2]["k"] == "use" else None
        for x in (cfg.defs(b).get(pl[0], []) if pl else []):
            if x[0] == "assign" and x[2]["k"] == "bin" and x[2]["op"].startswith("Add") and pc._root(b, x[2]["a"]) == start \
                    and pc._call_result(b, x[2]["b"], ("::len",)) is not None:
                ln = pc._call_result(b, x[2]["b"], ("::len",))
                ok = s["kind"] == "index" or pc._root(b, ln["a"][0]) == pc._root(b, t["a"][1])
    return ok and pc.after_len_test(fa, b, s)


def after_fitting_free_region(taker):
    """The enclosing function is called only from Storage::enlarge_value, on the Some edge of
    `self.records.<taker>(.., <growth / new_size>)`: an existing free region covers the requested size."""
    def req(fa, b, s):
        me = common.norm(b.root or b.npath)
        cs = [(cb, j, t) for cb, j, t in common.callers_of(fa, me, "agdb") if "::tests::" not in cb.path]
        if not cs:
            return False
        for cb, j, t in cs:
            if not common.norm(cb.root or cb.npath).endswith("Storage::enlarge_value"):
                return False
            ok = False
            for i, tt in cfg.calls(cb):
                if not (cfg.callee(tt) or "").endswith("StorageRecords::" + taker):
                    continue
                size = tt["a"][-1]
                if taker == "take_free" and pc._root(cb, size) != pc._root(cb, t["a"][2]):
                    continue            # take_free(new_size): the very new_size handed to the callee
                if taker == "take_free_after":
                    loc_ = pc._root(cb, size)
                    for _ in range(3):              # through named temporaries (`let additional = new_size - record.size;`)
                        dd = [d for d in cfg.defs(cb).get(loc_, []) if d[0] == "assign"]
                        if len(dd) == 1 and dd[0][2]["k"] in ("use", "cast") and cfg.op_place(dd[0][2]["o"]):
                            loc_ = pc._root(cb, dd[0][2]["o"])
                        else:
                            break
                    subs = [d[2] for d in cfg.defs(cb).get(loc_, []) if d[0] == "assign" and d[2]["k"] == "bin"]
                    if not (len(subs) == 1 and subs[0]["op"].startswith("Sub") and
                            pc._root(cb, subs[0]["a"]) == pc._root(cb, t["a"][2])):
                        continue        # take_free_after(end, new_size - record.size)
                for k, bl in enumerate(cb.blocks):
                    t2 = bl["term"]
                    pl = cfg.op_place(t2["d"]) if t2["k"] == "switch" else None
                    ds = cfg.defs(cb).get(pl[0], []) if pl else []
                    if ds and ds[0][0] == "assign" and ds[0][2]["k"] == "discr" and ds[0][2]["p"][0] == tt["d"][0]:
                        for v, tb in t2["ts"]:
                            if v == 1 and cfg.find_path(cb, [0], [j], removed_edges=[(k, tb)]) is None:
                                ok = True
            if not ok:
                return False
        return True
    return req


RECORDS = "agdb::storage::storage_records::StorageRecords"
RECORDS_WRITERS = {"new_record", "set_record", "remove_index", "set_pos", "set_size"}
SHRINKING = ("std::vec::Vec::truncate", "std::vec::Vec::pop", "std::vec::Vec::clear", "std::vec::Vec::remove",
             "std::vec::Vec::swap_remove", "std::vec::Vec::drain", "std::vec::Vec::split_off", "std::vec::Vec::retain",
             "std::vec::Vec::set_len", "std::vec::Vec::dedup")


def records_invariant(fa, b, s):
    """Type invariant of StorageRecords (private field `records`): records[0] exists (`new()` creates it, nothing
    shrinks the vector) and every stored `.index` is < records.len(). It is established by exactly the methods that
    take `&mut self.records`; a new writer (or any shrinking call) invalidates the frozen reasoning."""
    writers = set()
    for x in fa.bodies.values():
        if x.crate != "agdb" or common.norm(x.d.get("impl_self") or "") != RECORDS or "::tests::" in x.path:
            continue
        for i, t in cfg.calls(x):
            if cfg.callee_decl(t) in SHRINKING and t["a"] and (cfg.op_origin(x, t["a"][0]) or (0, []))[1][:1] == [".records"]:
                return False
        for bi, st in cfg.assigns(x):
            r = st["r"]
            if r["k"] == "ref" and r.get("mut") and [e for e in r["p"][1:] if e != "*"][:1] == [".records"] and r["p"][0] == 1:
                writers.add(x.d.get("name"))
    return writers == RECORDS_WRITERS


def free_head_or_zero(fa, b, s):
    """new_record: the index is the constant 0 or the free-list head read from `records[0].index`."""
    t = _site_term(b, s)
    if pc.const_of(b, t["a"][1]) == 0:
        return True
    o = cfg.op_origin(b, t["a"][1])
    if not o:
        return False
    for d in cfg.defs(b).get(o[0], []):
        if d[0] == "assign" and d[2]["k"] == "use":
            pl = cfg.op_place(d[2]["o"])
            if pl and pl[-1] == ".index":
                it = pc._call_result(b, {"cp": [pl[0]]}, ("::index",))
                if it is not None and pc.const_of(b, it["a"][1]) == 0:
                    return True
    return False


def index_from_range_1_to_len(fa, b, s):
    """`for index in 1..self.records.len() { self.records[index] }`."""
    idx = pc._root(b, _site_term(b, s)["a"][1])
    for bi, st in cfg.assigns(b):
        r = st["r"]
        if r["k"] == "agg" and r.get("adt", "").endswith("ops::Range") and len(r["ops"]) == 2 and \
                pc.const_of(b, r["ops"][0]) == 1 and pc._call_result(b, r["ops"][1], ("::len",)) is not None:
            # the index is the Some payload of `next()` on that range
            for d in cfg.defs(b).get(idx, []):
                pl = cfg.op_place(d[2]["o"]) if d[0] == "assign" and d[2]["k"] == "use" else None
                if pl and any(x[0] == "call" and (cfg.callee(x[2]) or "").endswith("::next")
                              for x in cfg.defs(b).get(pl[0], [])):
                    return True
    return False


def is_valid_checks_own_records(fa, b, s):
    """is_valid is private and only ever receives elements of `self.records` (callers: record(), records())."""
    cs = common.callers_of(fa, RECORDS + "::is_valid", "agdb")
    names = {common.norm(cb.root or cb.npath).split("::")[-1] for cb, j, t in cs if "::tests::" not in cb.path}
    return names <= {"record", "records"} and bool(names) and records_invariant(fa, b, s)


def resize_callers_frozen(fa, b, s):
    """StorageData::resize is only called by Storage::truncate (behind `size < current_size`) and by the version
    migration (`len + version record`); wrappers forward unchanged."""
    names = set()
    for cb in fa.bodies.values():
        if cb.crate != "agdb" or "::tests::" in cb.path:
            continue
        for j, t in cfg.calls(cb):
            if (cfg.callee_decl(t) or "").endswith("StorageData::resize"):
                n = common.norm(cb.root or cb.npath)
                if n.endswith("StorageData>::resize"):
                    continue            # AnyStorage / FileStorageMemoryMapped forwarders
                names.add(n.split("::")[-1])
                if n.endswith("::truncate") and common.guarded_by(cb, j, pc.len_guards(cb)) is None:
                    return False
    return names == {"truncate", "validate_or_update_version"}


BITSET_SET = "agdb::collections::bit_set::BitSet::set"


def _as_u64_of(b, op):
    t = pc._call_result(b, op, ("GraphIndex::as_u64",))
    return pc._root(b, t["a"][0]) if t is not None else None


def bitset_callers_range_checked(fa, b, s):
    """Every caller of BitSet::set passes a value below a stored-collection capacity (graph capacity via
    `is_in_range` / `node()?`, or `hash % new_capacity`), so the bit set is bounded by the data size / 64."""
    cs = [(cb, j, t) for cb, j, t in common.callers_of(fa, BITSET_SET, "agdb") if "::tests::" not in cb.path]
    if not cs:
        return False
    for cb, j, t in cs:
        n = common.norm(cb.root or cb.npath)
        if n.endswith("SearchImpl::visit_index"):
            if _as_u64_of(cb, t["a"][1]) != 2:
                return False
            ups = [x for x in common.callers_of(fa, n, "agdb") if "::tests::" not in x[0].path]
            if not ups:
                return False
            for ub, uj, ut in ups:
                ok = False
                for i, tt in cfg.calls(ub):
                    if (cfg.callee(tt) or "").endswith("GraphImpl::is_in_range") and \
                            pc._root(ub, tt["a"][1]) == pc._root(ub, ut["a"][1]):
                        for sw in cfg.bool_switches(ub, cfg.derived_locals(ub, [tt["d"][0]])):
                            if cfg.find_path(ub, [0], [uj], removed_edges=[sw["true_edge"]]) is None:
                                ok = True
                if not ok:
                    return False
        elif n.endswith("PathSearch::expand"):
            idx = _as_u64_of(cb, t["a"][1])
            ok = False
            for i, tt in cfg.calls(cb):
                if (cfg.callee(tt) or "").endswith("GraphImpl::node") and pc._root(cb, tt["a"][2]) == idx:
                    der = cfg.derived_locals(cb, [tt["d"][0]], extra_through=("std::option::Option::ok_or_else",))
                    for te in cfg.try_edges(cb, der):
                        if te["ok_edge"] and cfg.find_path(cb, [0], [j], removed_edges=[te["ok_edge"]]) is None:
                            ok = True
            if not ok:
                return False
        elif n.endswith("MultiMapImpl::rehash_valid"):
            pos = pc._root(cb, t["a"][1])
            ds = cfg.defs(cb).get(pos, [])
            if not ds:
                return False
            for d in ds:
                r = d[2] if d[0] == "assign" else None
                if r and r["k"] == "bin" and r["op"] == "Rem" and pc._root(cb, r["b"]) == 4:
                    continue            # hash % new_capacity
                if r and r["k"] == "use" and pc.const_of(cb, r["o"]) == 0:
                    continue            # wrap-around at new_capacity
                pl = cfg.op_place(r["o"]) if r and r["k"] == "use" else None
                adds = [x[2] for x in cfg.defs(cb).get(pl[0], []) if x[0] == "assign" and x[2]["k"] == "bin"] if pl else []
                if len(adds) == 1 and adds[0]["op"].startswith("Add") and pc._root(cb, adds[0]["a"]) == pos and \
                        pc.const_of(cb, adds[0]["b"]) == 1:
                    continue            # pos += 1 (reset to 0 when it reaches new_capacity)
                return False
        else:
            return False
    return True


S = "agdb::storage::storage_records::StorageRecords::"
HASH = "<&[u8] as agdb::utilities::stable_hash::StableHash>::stable_hash|"
FROMV = "<agdb::db::db_value::DbValue as std::convert::From>::from|unwrap|Result"
MEMW = "<agdb::storage::memory_storage::MemoryStorage as agdb::storage::StorageData>::write|"
DVI = "agdb::db::db_value_index::DbValueIndex::"

JUSTIFIED = {
    # ---- stable hash of a byte string: every bound is computed from self.len() alone
    HASH + "index|[u8][Range]":
        "chunk < len/8 so begin+8 = (chunk+1)*8 <= len; tail: begin = (len/8)*8, end = begin + len%8 = len",
    HASH + "copy_from_slice|":
        "[0u8; 8] <- self[begin..begin+8] (8 bytes); data[0..r] <- self[begin..begin+r] with r = len % 8 on both sides",
    HASH + "index|[u8; 8][?]": "data[0..remainder] with remainder = len % 8 < 8",
    # ---- From<Vec<T>> for DbValue: input is the caller's in-memory vector of one marker type T, never file content
    FROMV: ("the argument is an in-memory Vec<T> supplied by the caller (not file content); the first element selects the "
            "arm and to_i64 / to_u64 / to_f64 / string of an I64 / U64 / F64 / String value are infallible",
            pc.unwrap_of("DbValue::to_i64", "DbValue::to_u64", "DbValue::to_f64", "DbValue::string")),
    # ---- MemoryStorage
    "<agdb::storage::memory_storage::MemoryStorage as agdb::storage::StorageData>::resize|alloc|vec_resize":
        ("new_len is below the current length (Storage::truncate) or the current length + 24 (version record migration)",
         resize_callers_frozen),
    MEMW + "index|Vec[?]": ("buffer[pos..end] only when end = pos + bytes.len() < buffer.len()", write_range_is_pos_plus_len),
    MEMW + "copy_from_slice|": ("buffer[pos..pos + bytes.len()] <- bytes: equal lengths", write_range_is_pos_plus_len),
    MEMW + "alloc|vec_resize":
        "resize(pos) with pos a position handed out by Storage: a record header / value offset inside the existing data "
        "or its end (records are read sequentially below the data length; free positions come from those records), so at "
        "most the current length + 32; never a value decoded from the file",
    # ---- SystemTime
    "<std::time::SystemTime as agdb::utilities::serialize::Serialize>::deserialize|duration_new|":
        ("Duration::new(secs, nanos) is reached only with nanos < 1_000_000_000: no carry into secs, no overflow",
         nanos_below_1e9),
    # ---- BitSet
    "agdb::collections::bit_set::BitSet::set|alloc|vec_resize":
        ("every caller passes a value below a stored collection's capacity (graph: is_in_range / node()? ; map rehash: "
         "hash % new_capacity) and DbVec::from_storage bounds that capacity by the size of its data, so the bit set is at "
         "most data length / 64 bytes", bitset_callers_range_checked),
    "agdb::collections::bit_set::BitSet::set|index|Vec[?]":
        ("data[byte_index] after `if data.len() <= byte_index { data.resize(byte_index + 1) }`", pc.grown_to_index),
    # ---- collections
    "agdb::collections::multi_map::MultiMapImpl::iter_key|RemainderByZero|":
        ("hash % capacity() is evaluated only on the false edge of `capacity() == 0` (capacity is an in-memory field "
         "behind &self)", divisor_is_checked_capacity),
    "agdb::collections::vec::VecImpl::<T, D, agdb::collections::vec::DbVecData, agdb::db::db_error::DbError>::from_storage"
    "|DivisionByZero|":
        ("T::storage_len() is a positive compile-time constant for every VecValue impl (1, 8, 16, 24 or 32)",
         divisor_is_storage_len),
    # ---- DbValueIndex
    DVI + "set_value|index|[u8; 16][?]": ("value[0..v.len()] after `v.len() > 15` returned false", set_value_guarded),
    DVI + "set_value|copy_from_slice|": ("value[0..v.len()] <- v: equal lengths, v.len() <= 15", set_value_guarded),
    DVI + "value|index|[u8; 16][Range]": ("size() masks four bits so pos <= 15 < 16", range_end_is_masked_size),
    # ---- search result slicing
    "agdb::query::search_query::SearchQuery::slice|vec_drain|":
        ("offset = min(self.offset, len) <= end = len | min(offset.saturating_add(limit), len) = ids.len() after truncate",
         drain_offset_clamped),
    # ---- Storage
    "agdb::storage::Storage::read_record|index|[u8][RangeFrom]":
        ("bytes[8..] after u64::deserialize(&bytes)? succeeded, i.e. bytes.len() >= 8 = index.serialized_size()",
         pc.after_decode),
    "agdb::storage::Storage::enlarge_in_place|alloc|from_elem":
        ("only reached when take_free_after found a free region right behind the record that covers the growth, so "
         "new_size - old_size <= size of an existing free region + 16 <= data length",
         after_fitting_free_region("take_free_after")),
    "agdb::storage::Storage::enlarge_move_to|alloc|vec_resize":
        ("only reached when take_free(new_size) found an existing free region of at least new_size bytes, so new_size <= "
         "data length", after_fitting_free_region("take_free")),
    # ---- StorageRecords (private `records`; invariant: records[0] exists, every .index < records.len())
    S + "is_valid|index|Vec[usize]":
        ("record is an element of self.records and every stored .index is < records.len(): set_record stores index i at "
         "slot i after growing, new_record pushes len or reuses the free head, remove_index links in-range slots only",
         is_valid_checks_own_records),
    S + "new_record|index|Vec[usize]":
        ("records[0] always exists (new() creates it, the vector never shrinks); records[0].index is the free-list head, "
         "only ever set to an in-range slot by remove_index / to a free slot's in-range link by new_record",
         pc.all_of(free_head_or_zero, records_invariant)),
    S + "new_record|index|Vec[?]":
        ("records[0] always exists; records[index] with index the in-range free-list head",
         pc.all_of(free_head_or_zero, records_invariant)),
    S + "rebuild_free_index|index|Vec[usize]": ("index in 1..records.len()", index_from_range_1_to_len),
    S + "remove_index|index|Vec[usize]":
        ("records[0] always exists: new() creates it and the vector never shrinks", pc.all_of(pc.const_index(0), records_invariant)),
    S + "remove_index|index|Vec[?]":
        ("records[0] always exists: new() creates it and the vector never shrinks", pc.all_of(pc.const_index(0), records_invariant)),
    S + "set_record|index|Vec[?]":
        ("records[index] after `if records.len() <= index { records.resize(index + 1) }`", pc.grown_to_index),
    # ---- write-ahead log
    "agdb::storage::write_ahead_log::WriteAheadLog::read_exact|alloc|from_elem":
        ("vec![0; size] only after `remaining < size` was rejected, remaining = bytes left in the WAL file itself",
         wal_size_within_remaining),
    "agdb::storage::write_ahead_log::WriteAheadLog::wal_filename|string_insert|":
        ("pos is 0 or one past an ASCII '/' or '\\\\' found by rfind: a char boundary <= len (and the file name is the "
         "caller's argument, not file content)", insert_pos_after_separator),
}

ENTRY = ["agdb::db::DbImpl::new", "agdb::db::DbImpl::with_data", "agdb::db::DbImpl::exec", "agdb::db::DbImpl::transaction",
         "agdb::db::DbImpl::<agdb::storage::any_storage::AnyStorage>::new_file",
         "agdb::db::DbImpl::<agdb::storage::any_storage::AnyStorage>::new_mapped",
         "agdb::db::DbImpl::<agdb::storage::any_storage::AnyStorage>::new_memory",
         "agdb::db::DbImpl::<agdb::storage::any_storage::AnyStorage>::try_new_file",
         "agdb::db::DbImpl::<agdb::storage::any_storage::AnyStorage>::try_new_mapped",
         "agdb::db::DbImpl::<agdb::storage::any_storage::AnyStorage>::try_new_memory"]


# ------------------------------------------------------------------------------------------- R07b untrusted record

def _size_arith_params(fa, body, depth=0):
    """{param: set(first fields)} of `body`'s parameters that feed an overflow-checked arithmetic operation (directly,
    or through a workspace callee one level down)."""
    out = {}
    for bi, s in cfg.assigns(body):
        r = s["r"]
        if r["k"] == "bin" and r["op"].endswith("WithOverflow"):
            for o in (r["a"], r["b"]):
                pl = cfg.op_place(o)
                if pl:
                    sl, calls, reads = cfg.backward_slice(body, [pl[0]])
                    for p_, f in reads:
                        out.setdefault(p_, set()).add(f)
    if depth < 2:
        for i, t in cfg.calls(body):
            cb = fa.body(common.norm(cfg.callee(t) or "")) or fa.body(cfg.callee(t) or "")
            if cb is None or cb is body:
                continue
            sub = _size_arith_params(fa, cb, depth + 1)
            for k, a in enumerate(t["a"]):
                if (k + 1) in sub:
                    o = cfg.op_origin(body, a)
                    if o and 0 < o[0] <= body.d["argc"]:
                        fs = {o[1][0]} if o[1] else sub[k + 1]
                        out.setdefault(o[0], set()).update(fs)
    return out


def untrusted_record_rule(ctx, rule="R07b"):
    """Storage::read_records: the header decoded from the file (read_record(current_pos)) is *compared* with the space
    that is left before anything is *computed* from its size: overflow-checked arithmetic on an unvalidated 64-bit size
    panics (debug / overflow-checks builds) or wraps past the test (release)."""
    fa = ctx.facts
    b = ctx.anchor(rule, "agdb::storage::Storage::read_records")
    if not b:
        return
    loops = cfg.sccs(b)
    rr = [(i, t) for i, t in cfg.calls(b) if common.norm(cfg.callee(t) or "") == "agdb::storage::Storage::read_record"
          and any(i in c for c in loops)]
    ctx.ob(rule, "read_records:loop-read", len(rr) == 1, "one read_record(current_pos) inside the scan loop" if len(rr) == 1 else
           "read_records: expected exactly one read_record call inside the scan loop, found %d" % len(rr), b.where)
    if len(rr) != 1:
        return
    i0, t0 = rr[0]
    der = cfg.derived_locals(b, [t0["d"][0]])
    # the guard: a comparison of record.size itself with a value not computed from the record
    pass_edges = []
    for bi, s in cfg.assigns(b):
        r = s["r"]
        if r["k"] != "bin" or r["op"] not in ("Lt", "Le", "Gt", "Ge") or len(s["l"]) != 1:
            continue
        sides = []
        for o in (r["a"], r["b"]):
            pl = cfg.op_place(o)
            og = cfg.origin(b, pl) if pl else None
            sides.append("size" if (pl and pl[0] in der and og and og[1][-1:] == [".size"] and og[0] in der) else
                         ("rec" if (pl and pl[0] in der) else "other"))
        if sorted(sides) != ["other", "size"]:
            continue
        size_right = sides[1] == "size"
        # reject-if:  X < size, X <= size, size > X, size >= X   -> permitted on the false edge
        # accept-if:  size <= X, size < X, X >= size, X > size   -> permitted on the true edge
        reject_form = (size_right and r["op"] in ("Lt", "Le")) or (not size_right and r["op"] in ("Gt", "Ge"))
        for sw in cfg.bool_switches(b, cfg.derived_locals(b, [s["l"][0]])):
            pass_edges.append(sw["false_edge"] if reject_form else sw["true_edge"])
    ctx.ob(rule, "read_records:size-compared", bool(pass_edges),
           "record.size is compared with the remaining space (%d test)" % len(pass_edges) if pass_edges else
           "read_records no longer compares the decoded record.size itself with a value that does not depend on the record",
           b.loc(i0))
    if not pass_edges:
        return
    early = cfg.reachable(b, [0], removed_edges=pass_edges)[0]
    bad = []
    for bi, s in cfg.assigns(b):
        r = s["r"]
        if bi in early and r["k"] == "bin" and r["op"].endswith("WithOverflow"):
            if any(cfg.op_place(o) and cfg.op_place(o)[0] in der for o in (r["a"], r["b"])):
                bad.append((b.loc(bi), "%s on the unvalidated record" % r["op"]))
    for i, t in cfg.calls(b):
        if i not in early or i == i0:
            continue
        cb = fa.body(common.norm(cfg.callee(t) or "")) or fa.body(cfg.callee(t) or "")
        if cb is None:
            continue
        sub = _size_arith_params(fa, cb)
        for k, a in enumerate(t["a"]):
            pl = cfg.op_place(a)
            if pl and pl[0] in der and (k + 1) in sub:
                og = cfg.origin(b, pl)
                fld = og[1][0] if og[1] else None
                if fld in (None, ".size") and (fld == ".size" or ".size" in sub[k + 1] or None in sub[k + 1]):
                    bad.append((b.loc(i), "%s computes with the size of the unvalidated record" % cfg.callee(t).split("::")[-1]))
    ctx.ob(rule, "read_records:compare-before-compute", not bad,
           "nothing is computed from the decoded size before the test passes" if not bad else
           "read_records computes with the size field decoded from the file before it has been compared with the "
           "remaining space: %s (a damaged size near u64::MAX overflows: panic, or wrap-around past the test)" % bad,
           bad[0][0] if bad else b.where)


def run(ctx):
    fa = ctx.facts
    roots = [ctx.anchor("R07", p) for p in ENTRY]
    qs = [b for b in fa.bodies.values() if b.crate == "agdb" and b.d.get("name") == "process" and
          b.d.get("impl_trait") == "agdb::query::Query"]
    ctx.floor("R07", "impl Query::process entry points", len(qs), 18)
    # floor: 150 sites were counted when the rule was written; the fix commits (PathSearch expect, MemoryStorage::read,
    # derive `.get()`, ...) removed four of them
    run_panic_rule(ctx, "R07", roots + qs, JUSTIFIED, floor=140)
    untrusted_record_rule(ctx)
    return 0
