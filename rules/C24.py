"""C24 — the server enforces authentication and per-database permissions."""
from lib import cfg
from rules import common

EXPLANATION = (
    "Static analysis of crate agdb_server (MIR cut-sets + HIR match tables): (R24a) the route table is re-derived from "
    "the router construction in app::app (handler = FnDef passed to axum::routing::<method>, path = the string constant) "
    "and every handler has a parameter whose type is a validating extractor (UserId/AdminId/ClusterId/UserToken) except a "
    "frozen public set; every admin path / admin module handler takes AdminId; no other function mounts routes and the "
    "non-handler mounts (static dirs, API docs) equal the frozen list; (R24b) each validating extractor's "
    "from_request_parts returns Ok only through the success edge of ServerDb::user_id_from_token / is_admin==true / "
    "cluster-token equality on the request's bearer token, and both token look-ups return success only through the "
    "false edge of `expires_at < current_timestamp()`; login returns a token only through verify_password==true; "
    "(R24c) in each of the 18 handlers of routes/db.rs and routes/db/user.rs every effect call (ClusterImpl::exec::<Action>, "
    "DbPool::*, ServerDb read of foreign data) is reachable only through the permitting edge of every guard frozen for it "
    "(appendix A.2, re-confirmed), the guards are evaluated for the calling user and for the same owner/db values that "
    "the effect receives, and the handler contains no effect outside its frozen list; (R24d) the mutating set of QueryType "
    "variants (payload implements QueryMut) equals the Write set of required_role, the complement of t_exec's accepted "
    "set and the exec_mut/audited set of t_exec_mut, all 18 variants covered; (R24e, MIR part) UserDb::exec takes the "
    "read lock and an immutable transaction and is the only caller of t_exec; (R24f) logout handlers and token actions "
    "reach token removal on every success path, DbUserRemove reaches ServerDb::remove_db_user.")
DECIDED = ["R24a every route is authenticated (TABLE over the router construction; floor 56 routes)",
           "R24b extractors validate token, expiry, admin-ness, cluster token (DOM cut-sets)",
           "R24c effect => permission for the 18 db handlers (DOM cut-sets, guard arguments bound to caller and subject)",
           "R24d one classification of queries across required_role / t_exec / t_exec_mut (TABLE, 18 variants)",
           "R24e (MIR part) readers get the read lock and an immutable transaction",
           "R24f logout / role removal reach the removing primitive on every success path (MUST)",
           "R24g the (user, owner, db) look-ups answer for exactly that database (backward data slice)",
           "R24h at most one role edge per (user, db): frozen role writers, edge created only if none exists (WHO + DOM)"]
UNDECIDED = ["correctness of the graph searches implementing role look-up over histories of role changes (C14/C15/C17)",
             "routes behind the `studio` cargo feature (not part of the analysed configuration)",
             "routes::user::logout / cluster::logout with `?session=<id>` remove the session with that id without "
             "checking that it belongs to the caller (session ids are random and only shown to their owner / the admin)"]

R = "agdb_server::routes::"
UID = "agdb_server::user_id::"
SDB = "agdb_server::server_db::ServerDb::"
POOL = "agdb_server::db_pool::DbPool::"
CEXEC = "agdb_server::cluster::ClusterImpl::exec"
ACT = "agdb_server::action::"
APP = "agdb_server::app::app"

VALIDATING = (UID + "UserId", UID + "AdminId", UID + "ClusterId", UID + "UserToken")
# handlers reachable without a token, one line of reason each (confirmed by reading the handlers)
PUBLIC = {
    R + "status": "liveness probe: returns 200, reads no state",
    R + "user::login": "establishes the token; authenticates by password (do_login, checked under R24b)",
    R + "cluster::login": "cluster-wide login; authenticates by password (do_login, checked under R24b)",
    R + "cluster::status": "read-only node list / leader flag from the configuration; no user data",
}
ROUTE_FLOOR = 56
METHODS = ("get", "post", "put", "delete", "patch", "head", "options", "trace", "any")
# Router construction methods used by app::app; anything else is an unrecognised way to mount a service
ROUTER_OK = {"new", "route", "nest", "layer", "with_state", "nest_service", "merge"}
# non-handler mounts: (method, service type) -> reason
MOUNTS = {
    ("nest_service", "tower_http::services::ServeDir"): "operator-configured static directories (config.static_roots)",
    ("merge", "utoipa_rapidoc::RapiDoc"): "generated API documentation (openapi.json + RapiDoc page), no server state",
}


def last(p):
    return (p or "").split("::")[-1]


# ---------------------------------------------------------------- value flow helpers

CLONEY = ("Clone>::clone", "Clone::clone", "ToString>::to_string", "ToString::to_string", "::to_owned",
          "Deref>::deref", "Deref::deref", "::as_str", "::as_ref", "Into>::into", "From>::from", "::borrow")


def who(body, op, depth=0):
    """Canonical source (root_local, (fields...)) of an operand / place: chases temporaries, references, derefs,
    named copies and clone/to_string/into.  Handler parameters live in the coroutine state: `_1.<param index>`."""
    place = op if isinstance(op, list) else cfg.op_place(op)
    if place is None:
        return None
    r, f = cfg.origin(body, place)
    if depth < 10 and not (0 < r <= body.d["argc"]):
        ds = [d for d in cfg.defs(body).get(r, []) if d[0] != "partial"]
        if len(ds) == 1:
            d = ds[0]
            if d[0] == "call" and (cfg.callee(d[2]) or "").endswith(CLONEY) and d[2]["a"]:
                w = who(body, d[2]["a"][0], depth + 1)
                if w:
                    return w[0], w[1] + tuple(f)
            if d[0] == "assign" and d[2]["k"] in ("use", "cast") and cfg.op_place(d[2]["o"]):
                w = who(body, d[2]["o"], depth + 1)
                if w:
                    return w[0], w[1] + tuple(f)
    return r, tuple(f)


def vexpr(body, op, depth=0):
    """Structural expression of an operand: nested (callee, args...) through unique definitions; clone-like calls,
    copies, references and derefs are transparent.  Two operands with the same vexpr denote the same value."""
    c = cfg.op_const(op) if isinstance(op, dict) else None
    if c is not None:
        return ("const", str(c.get("c", c.get("v"))))
    place = op if isinstance(op, list) else cfg.op_place(op)
    if place is None:
        return ("?",)
    r, f = cfg.origin(body, place)
    f = tuple(x for x in f if x != "*")
    if depth < 6 and not (0 < r <= body.d["argc"]):     # depth counts calls only, so equal values expand equally
        ds = [d for d in cfg.defs(body).get(r, []) if d[0] != "partial"]
        if len(ds) == 1:
            d = ds[0]
            if d[0] == "call":
                n = cfg.callee(d[2]) or "?"
                if n.endswith(CLONEY) and d[2]["a"]:
                    return vexpr(body, d[2]["a"][0], depth) + (f if f else ())
                return ("call", common.norm(n)) + tuple(vexpr(body, a, depth + 1) for a in d[2]["a"]) + f
            if d[0] == "assign" and d[2]["k"] in ("use", "cast"):
                return vexpr(body, d[2]["o"], depth) + f
            if d[0] == "assign" and d[2]["k"] == "ref":
                return vexpr(body, d[2]["p"], depth) + f
    return ("local", r) + f


def vshow(e, n=3):
    if not isinstance(e, tuple) or n == 0:
        return "…" if isinstance(e, tuple) else str(e)
    if e[0] == "call":
        return "%s(%s)%s" % (last(e[1]), ", ".join(vshow(a, n - 1) for a in e[2:] if isinstance(a, tuple)),
                             "".join(a for a in e[2:] if isinstance(a, str)))
    return "%s:%s" % (e[0], "".join(str(x) for x in e[1:]))


def _is_branch(n):
    return bool(n) and n.endswith(("Try>::branch", "Try::branch"))


def flow(body, seeds, extra=(), through_try=True):
    """Locals deriving from the seed locals (through `.await`, `?`, copies, refs, clones and `extra` callee suffixes)."""
    def thr(n):
        if n is None:
            return False
        if not through_try and _is_branch(n):
            return False
        return cfg.is_transparent(n) or n.endswith(tuple(extra)) if extra else cfg.is_transparent(n)
    return cfg.derived_locals(body, list(seeds), through=thr)


def ok_edges(body, dest, extra=()):
    """Ok edges of the `?` applied to the (awaited) value of local `dest` itself, or of a `match` / is_ok() on it."""
    pre = flow(body, [dest], extra=extra, through_try=False)
    out = [te["ok_edge"] for te in cfg.try_edges(body, pre) if te["ok_edge"]]
    der = cfg.derived_locals(body, list(pre))
    for j, blk in enumerate(body.blocks):
        tt = blk["term"]
        if blk.get("cleanup") or tt["k"] != "switch" or tt.get("x") == "desugar:QuestionMark":
            continue
        pl = cfg.op_place(tt["d"])
        ds = cfg.defs(body).get(pl[0], []) if pl else []
        if ds and ds[0][0] == "assign" and ds[0][2]["k"] == "discr" and ds[0][2].get("enum", "").endswith("result::Result") \
                and ds[0][2]["p"][0] in pre:
            names = dict((v, n) for v, n in ds[0][2].get("variants", []))
            tg = dict((v, tb) for v, tb in tt["ts"])
            for v, n in names.items():
                if n == "Ok":
                    out.append((j, tg.get(v, tt.get("else"))))
    return out


def cut(body, site, edges):
    """None if `site` is unreachable from the entry once `edges` are removed, else the surviving path."""
    return cfg.find_path(body, [0], [site], removed_edges=list(edges))


def coro(fa, path):
    return fa.body(path + "::{closure#0}")


# ---------------------------------------------------------------- R24a route table


def route_table(ctx, rule="R24a"):
    """[(path string, method, handler def path, bb)] from app::app; problems are recorded as violations."""
    fa = ctx.facts
    b = ctx.anchor(rule, APP)
    rows = []
    if not b:
        return rows, None
    strs = {}
    for bi, s in cfg.assigns(b):
        r = s["r"]
        if r["k"] == "use" and cfg.op_const(r["o"]) and "str" in cfg.op_const(r["o"]).get("ty", "") and len(s["l"]) == 1:
            strs[s["l"][0]] = cfg.op_const(r["o"]).get("c", "").strip('"')
    for i, t in cfg.calls(b):
        d = common.norm(cfg.callee_decl(t) or "")
        if d != "axum::Router::route" and not d.endswith("RouterExt::route_with_tsr"):
            continue
        po = cfg.op_origin(b, t["a"][1])
        path = strs.get(po[0]) if po else None
        dc = cfg.def_call(b, cfg.op_place(t["a"][2])[0]) if cfg.op_place(t["a"][2]) else None
        handler = method = None
        if dc:
            dn = common.norm(cfg.callee_decl(dc[1]) or "")
            if dn.startswith("axum::routing::") and last(dn) in METHODS and dc[1]["a"]:
                k = cfg.op_const(dc[1]["a"][0])
                handler = k.get("fn") if k else None
                method = last(dn)
        if path is None or handler is None:
            ctx.ob(rule, "route@bb%d" % i, False,
                   "route construction not recognised (path constant %r, handler %r): only "
                   "`.route(<str const>, routing::<method>(<fn item>))` is accepted" % (path, handler), b.loc(i),
                   key="%s|%s|route-idiom-not-recognised" % (ctx.pid, rule))
            continue
        rows.append((path, method, common.norm(handler), i))
    return rows, b


def r24a(ctx):
    fa = ctx.facts
    rows, b = route_table(ctx)
    if b is None:
        return rows
    # who builds routers, and with which methods
    for ob in fa.bodies.values():
        if ob.crate != "agdb_server":
            continue
        for i, t in cfg.calls(ob):
            d = common.norm(cfg.callee_decl(t) or "")
            if not (d.startswith("axum::Router::") or "RouterExt::" in d or d.startswith("axum::routing::")):
                continue
            if common.norm(ob.root or ob.npath) != APP:
                ctx.ob("R24a", "router-built-in:%s" % common.norm(ob.npath), False,
                       "`%s` is called outside app::app (in `%s`): routes mounted there are not in the checked table" % (
                           d, ob.npath), ob.loc(i))
                continue
            if d.startswith("axum::Router::") and last(d) not in ROUTER_OK:
                ctx.ob("R24a", "router-method:%s" % last(d), False,
                       "router construction method `%s` is not in the recognised set %s (a service mounted this way "
                       "bypasses the extractor check)" % (d, sorted(ROUTER_OK)), ob.loc(i))
            if last(d) in ("nest_service", "merge", "route_service", "fallback", "fallback_service"):
                full = cfg.callee_full(t) or ""
                hit = [k for k in MOUNTS if k[0] == last(d) and k[1] in full]
                ctx.ob("R24a", "mount:%s" % last(d), bool(hit),
                       "non-handler mount %s: %s" % (hit[0][1], MOUNTS[hit[0]]) if hit else
                       "service mounted with `%s` is not in the frozen list of public non-handler mounts" % full, ob.loc(i))
    seen = set()
    for path, method, h, i in sorted(rows):
        inst = "%s %s" % (method.upper(), path)
        sig = fa.fns.get(h)
        if sig is None:
            ctx.ob("R24a", inst, False, "handler `%s` has no signature in the facts" % h, b.loc(i))
            continue
        seen.add(h)
        ex = [x for x in sig["inputs"] if x in VALIDATING]
        where = "%s:%d" % (sig["file"], sig["line"])
        if h in PUBLIC:
            ctx.ob("R24a", inst, True, "public by design: %s" % PUBLIC[h], where)
            continue
        ok = bool(ex)
        detail = "handler %s takes %s" % (h, ", ".join(last(x) for x in ex))
        admin = "/admin/" in path + "/" or h.startswith(R + "admin::")
        if ok and admin and UID + "AdminId" not in ex:
            ok = False
            detail = "admin route `%s` -> `%s` does not take the AdminId extractor (takes %s)" % (path, h, [last(x) for x in ex])
        if ok and path == "/cluster" and UID + "ClusterId" not in ex:
            ok = False
            detail = "raft endpoint `%s` -> `%s` does not take the ClusterId extractor" % (path, h)
        if not ex:
            detail = ("route `%s %s` -> `%s` has no validating extractor parameter (inputs: %s): the request is served "
                      "without a token" % (method.upper(), path, h, [last(x.split("<")[0]) for x in sig["inputs"]]))
        ctx.ob("R24a", inst, ok, detail, where, key="%s|R24a|%s|unauthenticated-route" % (ctx.pid, h))
    # every admin-module handler takes AdminId, routed or not
    for p, sig in sorted(fa.fns.items()):
        if p.startswith(R + "admin::") and sig.get("async") and p.count("::") <= 5 and "{" not in p:
            if any(x.startswith("axum::extract::") or x.startswith(UID) for x in sig["inputs"]) or p in seen:
                ctx.ob("R24a", "admin-handler:%s" % p[len(R):], UID + "AdminId" in sig["inputs"],
                       "takes AdminId" if UID + "AdminId" in sig["inputs"] else
                       "handler `%s` of the admin module does not take AdminId" % p, "%s:%d" % (sig["file"], sig["line"]))
    for h in PUBLIC:
        if h not in seen:
            ctx.note("public handler %s is not routed in the analysed configuration" % h)
    unrouted = [p for p, sig in fa.fns.items() if p.startswith(R) and sig.get("async") and p not in seen and
                any(x.startswith("axum::extract::") for x in sig["inputs"])]
    if unrouted:
        ctx.note("handlers not in the route table (unreachable): %s" % sorted(unrouted))
    ctx.floor("R24a", "routes in app::app", len(rows), ROUTE_FLOOR)
    return rows


# ---------------------------------------------------------------- R24b extractors validate

FRP = "<agdb_server::user_id::%s as axum::extract::FromRequestParts<S>>::from_request_parts::{closure#0}"
TOKEN_THROUGH = ("Result::map_err", "Authorization::token", "utilities::unquote")


def cmp_calls(body):
    """[(bb, term, op)] of PartialEq::eq / ne calls."""
    out = []
    for i, t in cfg.calls(body):
        n = cfg.callee(t) or ""
        d = cfg.callee_decl(t) or ""
        if "PartialEq" in n + d and last(n) in ("eq", "ne") and len(t["a"]) == 2:
            out.append((i, t, last(n)))
    return out


def equal_edge(body, t, op, want_equal=True):
    """Edges of the switches on the result of comparison call t taken when the operands are equal (or differ)."""
    out = []
    for sw in cfg.bool_switches(body, flow(body, [t["d"][0]])):
        eq = sw["true_edge"] if op == "eq" else sw["false_edge"]
        ne = sw["false_edge"] if op == "eq" else sw["true_edge"]
        out.append(eq if want_equal else ne)
    return out


def ok_blocks(body):
    return cfg.ret_class_blocks(body)[0]


def _returns_extracted_header(fa, path):
    """async helper `path`: its coroutine body returns a value computed from RequestPartsExt::extract"""
    hb = fa.body(path + "::{closure#0}")
    if hb is None:
        return False
    sl, calls_in, reads = cfg.backward_slice(hb, [0], skip_call=_not_residual)
    return any((cfg.callee(t) or "").endswith("RequestPartsExt>::extract") for i, t in calls_in)


def bearer_locals(body, fa=None):
    seeds = [t["d"][0] for i, t in cfg.calls(body) if (cfg.callee(t) or "").endswith("RequestPartsExt>::extract")]
    if fa is not None:
        # ... or from a local async helper that does the extraction (`bearer_header(parts).await?`)
        for i, t in cfg.calls(body):
            n = cfg.callee(t) or ""
            if n.startswith("agdb_server::") and (fa.fns.get(n) or {}).get("async") and _returns_extracted_header(fa, n):
                seeds.append(t["d"][0])
    return flow(body, seeds, extra=TOKEN_THROUGH) if seeds else {}


def r24b(ctx):
    fa = ctx.facts
    # -- UserId / UserToken: success only through user_id_from_token(..)? Ok, on the request's bearer token
    for ex in ("UserId", "UserToken"):
        b = ctx.anchor("R24b", FRP % ex)
        if not b:
            continue
        cs = [(i, t) for i, t in cfg.calls(b) if cfg.callee(t) == SDB + "user_id_from_token"]
        edges = []
        for i, t in cs:
            edges += ok_edges(b, t["d"][0], extra=("Result::map_err",))
        okb = ok_blocks(b)
        p = cfg.find_path(b, [0], okb, removed_edges=edges) if okb else None
        ok = bool(cs and okb and edges) and p is None
        ctx.ob("R24b", "%s:token-validated" % ex, ok,
               "Ok(%s) is returned only through the Ok edge of user_id_from_token(..).await?" % ex if ok else
               "extractor %s can succeed without a successful ServerDb::user_id_from_token (calls %d, surviving path %s)" % (
                   ex, len(cs), cfg.path_str(b, p) if p else "-"), b.where)
        bl = bearer_locals(b, fa)
        ok = bool(cs) and all((who(b, t["a"][1]) or (None,))[0] in bl for i, t in cs)
        ctx.ob("R24b", "%s:token-from-request" % ex, ok,
               "the validated token is the request's `Authorization: Bearer` value" if ok else
               "the token passed to user_id_from_token does not derive from the request's bearer header", b.where)
        if ex == "UserToken":
            # the token handed to the logout handlers is the very value that was validated (otherwise a spelling the
            # look-up accepts - the token in JSON quotes - is "removed" without removing the stored token)
            aggs = [s_ for bi, s_ in cfg.assigns(b) if s_["r"]["k"] == "agg" and s_["r"].get("adt") == UID + "UserToken"]
            want = {vexpr(b, t["a"][1]) for i, t in cs}
            got = {vexpr(b, s_["r"]["ops"][0]) for s_ in aggs}
            ok = bool(aggs) and len(want) == 1 and got == want and ("?",) not in want
            ctx.ob("R24b", "UserToken:carries-validated-token", ok,
                   "UserToken wraps the same expression that user_id_from_token validated" if ok else
                   "UserToken wraps %s but user_id_from_token validated %s: logout would look for a different string "
                   "than the one that authenticated" % (sorted(map(vshow, got)), sorted(map(vshow, want))), b.where)
        if ex == "UserId":
            ids = set()
            for i, t in cs:
                ids |= set(flow(b, [t["d"][0]], extra=("Result::map_err",)))
            aggs = [s for bi, s in cfg.assigns(b) if s["r"]["k"] == "agg" and s["r"].get("adt") == UID + "UserId"]
            ok = bool(aggs) and all((who(b, s["r"]["ops"][0]) or (None,))[0] in ids for s in aggs)
            ctx.ob("R24b", "UserId:id-from-token", ok,
                   "UserId carries the id returned by user_id_from_token" if ok else
                   "UserId is built from something else than the result of user_id_from_token", b.where)
    # -- AdminId: success only through is_admin(..)? == true
    b = ctx.anchor("R24b", FRP % "AdminId")
    if b:
        cs = [(i, t) for i, t in cfg.calls(b) if cfg.callee(t) == SDB + "is_admin"]
        edges = []
        for i, t in cs:
            for sw in cfg.bool_switches(b, flow(b, [t["d"][0]], extra=("Result::map_err",))):
                edges.append(sw["true_edge"])
        okb = ok_blocks(b)
        p = cfg.find_path(b, [0], okb, removed_edges=edges) if okb else None
        ok = bool(cs and okb and edges) and p is None
        ctx.ob("R24b", "AdminId:is-admin", ok,
               "Ok(AdminId) is returned only through is_admin(..).await? == true" if ok else
               "extractor AdminId can succeed without is_admin returning true (surviving path %s)" % (
                   cfg.path_str(b, p) if p else "-"), b.where)
        bl = bearer_locals(b, fa)
        ok = bool(cs) and all((who(b, t["a"][1]) or (None,))[0] in bl for i, t in cs)
        ctx.ob("R24b", "AdminId:token-from-request", ok,
               "the checked token is the request's bearer value" if ok else
               "the token passed to is_admin does not derive from the request's bearer header", b.where)
    # -- ClusterId: success only if bearer == config.cluster_token
    b = ctx.anchor("R24b", FRP % "ClusterId")
    if b:
        bl = bearer_locals(b, fa)
        edges = []
        for i, t, op in cmp_calls(b):
            ws = [who(b, a) for a in t["a"]]
            cfgside = [w for w in ws if w and ".cluster_token" in w[1]]
            reqside = [w for w in ws if w and w[0] in bl]
            if cfgside and reqside:
                edges += equal_edge(b, t, op, True)
        okb = ok_blocks(b)
        p = cfg.find_path(b, [0], okb, removed_edges=edges) if okb else None
        ok = bool(okb and edges) and p is None
        ctx.ob("R24b", "ClusterId:token-equal", ok,
               "Ok(ClusterId) only when the bearer equals config.cluster_token" if ok else
               "extractor ClusterId can succeed without the bearer being compared equal to config.cluster_token", b.where)
    # -- expiry inside the two look-ups
    for fn, cond in (("user_id_from_token", "any Ok"), ("is_admin", "Ok(true-capable)")):
        outer = ctx.anchor("R24b", SDB + fn + "::{closure#0}")
        cl = ctx.anchor("R24b", SDB + fn + "::{closure#0}::{closure#0}")
        if not (outer and cl):
            continue
        tr = [(i, t) for i, t in cfg.calls(outer) if common.norm(cfg.callee(t) or "") == "agdb::DbImpl::transaction"]
        ok = len(tr) == 1 and tr[0][1]["d"] == [0] and cl.path in [x.path for x in common.closure_bodies_passed(fa, outer, tr[0][1])]
        ctx.ob("R24b", "%s:returns-closure-result" % fn, ok,
               "the look-up returns the result of its transaction closure unchanged" if ok else
               "`%s` no longer returns the result of the single transaction closure (idiom not recognised)" % fn, outer.where)
        edges = []
        for bi, s in cfg.assigns(cl):
            r = s["r"]
            if r["k"] == "bin" and r["op"] in ("Lt", "Le", "Gt", "Ge") and len(s["l"]) == 1:
                sides = [cfg.def_call(cl, cfg.op_place(o)[0]) if cfg.op_place(o) else None for o in (r["a"], r["b"])]
                now = [k for k, dc in enumerate(sides) if dc and (cfg.callee(dc[1]) or "").endswith("server_db::current_timestamp")]
                if not now:
                    continue
                # expired  <=>  expires_at < now  (now on the right of Lt/Le, or on the left of Gt/Ge)
                expired_when_true = (now[0] == 1) == (r["op"] in ("Lt", "Le"))
                for sw in cfg.bool_switches(cl, flow(cl, [s["l"][0]])):
                    edges.append(sw["false_edge"] if expired_when_true else sw["true_edge"])
        okb = []
        for bi, s in cfg.assigns(cl):
            r = s["r"]
            if s["l"] == [0] and r["k"] == "agg" and r.get("variant") == "Ok":
                k = cfg.op_const(r["ops"][0]) if r["ops"] else None
                if fn == "is_admin" and k and k.get("ty") == "bool" and k.get("v") == 0:
                    continue    # Ok(false) = rejection
                okb.append(bi)
        p = cfg.find_path(cl, [0], okb, removed_edges=edges) if okb else None
        ok = bool(okb and edges) and p is None
        ctx.ob("R24b", "%s:expiry" % fn, ok,
               "success (%s) only through the not-expired edge of `expires_at < current_timestamp()`" % cond if ok else
               "`%s` can report success for a token without passing the expiry test (tests found %d, surviving path %s)" % (
                   fn, len(edges), cfg.path_str(cl, p) if p else "-"), cl.where)
    # -- login: a token is produced only after verify_password == true
    b = ctx.anchor("R24b", R + "user::do_login::{closure#0}")
    if b:
        edges = []
        for i, t in cfg.calls(b):
            if cfg.callee(t) == "agdb_server::password::Password::verify_password":
                for sw in cfg.bool_switches(b, flow(b, [t["d"][0]])):
                    edges.append(sw["true_edge"])
        okb = ok_blocks(b)
        p = cfg.find_path(b, [0], okb, removed_edges=edges) if okb else None
        ok = bool(okb and edges) and p is None
        ctx.ob("R24b", "do_login:password-verified", ok, "do_login returns Ok only through verify_password == true" if ok else
               "do_login can return a token without verify_password being true", b.where)
    for h, sink in ((R + "user::login", SDB + "save_token"), (R + "cluster::login", CEXEC)):
        b = ctx.anchor("R24b", h + "::{closure#0}")
        if not b:
            continue
        dl = [(i, t) for i, t in cfg.calls(b) if cfg.callee(t) == R + "user::do_login"]
        edges = []
        for i, t in dl:
            edges += ok_edges(b, t["d"][0])
        sinks = [i for i, t in cfg.calls(b) if cfg.callee(t) == sink]
        ok = bool(dl and sinks and edges) and all(cut(b, s, edges) is None for s in sinks)
        ctx.ob("R24b", "%s:token-after-login" % h[len(R):], ok,
               "the token is stored only through the Ok edge of do_login(..).await?" if ok else
               "`%s` stores a token without a successful do_login" % h, b.where)


# ---------------------------------------------------------------- R24c effect => permission

class H:
    """A handler: value names bound to its parameters, guard recognisers, effect finders."""

    def __init__(self, fa, path):
        self.fa = fa
        self.path = path
        self.sig = fa.fns.get(path)
        self.b = coro(fa, path)
        self.err = None
        self.vals = {}
        if not (self.sig and self.b):
            self.err = "handler body/signature not found"
            return
        ins = self.sig["inputs"]
        for k, ty in enumerate(ins):
            f = ".%d" % k
            if ty == UID + "UserId":
                self.vals["user"] = (1, (f, ".0"))
            elif ty.startswith("axum::extract::Path<(std::string::String, std::string::String"):
                self.vals["owner"] = (1, (f, ".0", ".0"))
                self.vals["db"] = (1, (f, ".0", ".1"))
                self.vals["target"] = (1, (f, ".0", ".2"))
            elif ty.startswith("axum::extract::Query<") and "ServerDatabaseRename" in ty:
                self.vals["new_db"] = (1, (f, ".new_db"))
            elif ty.startswith("axum::Json<agdb_api::Queries>"):
                self.vals["queries"] = (1, (f, ".0"))

    # -- values
    def is_val(self, op, spec):
        """Does operand `op` carry the value named by spec?  spec: parameter name | ('res', callee, argspecs[, field])
        | ('const', type substring) | None (anything)."""
        b = self.b
        if spec is None:
            return True
        w = who(b, op)
        if isinstance(spec, str):
            return w is not None and w == self.vals.get(spec)
        if spec[0] == "res":
            if w is None:
                return False
            if len(spec) > 3 and spec[3] not in w[1]:
                return False
            rl = self.res_locals(spec[1], spec[2])
            if w[0] not in rl:
                return False
            # ... and on every path: each definition of the carrying local derives from that result (a local that is
            # also assigned from something else in another branch carries the value only sometimes)
            for d in cfg.defs(b).get(w[0], []):
                if d[0] == "partial":
                    continue
                ops = d[2]["a"] if d[0] == "call" else cfg.rvalue_operands(d[2])
                roots = [cfg.op_place(o)[0] for o in ops if cfg.op_place(o)]
                is_source = d[0] == "call" and any(d[2] is t for i, t in self.find_calls(spec[1], spec[2]))
                if not is_source and not any(r in rl for r in roots):
                    return False
            return True
        if spec[0] == "const":
            if w is None:
                return False
            ds = cfg.defs(b).get(w[0], [])
            if not (len(ds) == 1 and ds[0][0] == "assign" and ds[0][2]["k"] == "use" and
                    bool(cfg.op_const(ds[0][2]["o"])) and spec[1] in cfg.op_const(ds[0][2]["o"]).get("ty", "")):
                return False
            if len(spec) > 2:
                # the enum variant of the promoted constant (`&DbUserRole::Read` is `<owner>::promoted[n]`)
                c = cfg.op_const(ds[0][2]["o"]).get("c", "")
                pb = self.fa.promoted.get(b.crate + "::" + c) if hasattr(self, "fa") else None
                if pb is None:
                    return False
                variants = [s["r"].get("variant") for bi, s in cfg.assigns(pb) if s["r"]["k"] == "agg" and
                            s["r"].get("adt", "").endswith(spec[1].split("::")[-1])]
                return variants == [spec[2]]
            return True
        return False

    def find_calls(self, callee, argspecs):
        out = []
        for i, t in cfg.calls(self.b):
            if cfg.callee(t) != callee:
                continue
            args = t["a"][1:] if callee.startswith((SDB, POOL)) else t["a"]
            if len(args) < len(argspecs):
                continue
            if all(self.is_val(a, sp) for a, sp in zip(args, argspecs)):
                out.append((i, t))
        return out

    def res_locals(self, callee, argspecs, extra=("Option::unwrap_or_default",)):
        out = {}
        for i, t in self.find_calls(callee, argspecs):
            out.update(flow(self.b, [t["d"][0]], extra=extra))
        return out

    # -- guards: each returns [(description, permitting edge)]
    def g_try(self, callee, argspecs):
        out = []
        for i, t in self.find_calls(SDB + callee, argspecs):
            for e in ok_edges(self.b, t["d"][0]):
                out.append(("%s(..)? Ok" % callee, e))
        return out

    def g_bool(self, callee, argspecs, permit):
        out = []
        for i, t in self.find_calls(SDB + callee, argspecs):
            for sw in cfg.bool_switches(self.b, flow(self.b, [t["d"][0]])):
                out.append(("%s(..)? == %s" % (callee, permit), sw[permit + "_edge"]))
        return out

    def g_is_some(self, callee, argspecs, permit="false"):
        out = []
        der = self.res_locals(SDB + callee, argspecs, extra=())
        for i, t in cfg.calls(self.b):
            n = cfg.callee(t) or ""
            if n in ("std::option::Option::is_some", "std::option::Option::is_none") and t["a"]:
                w = who(self.b, t["a"][0])
                if w and w[0] in der:
                    for sw in cfg.bool_switches(self.b, flow(self.b, [t["d"][0]])):
                        p = permit if n.endswith("is_some") else ("true" if permit == "false" else "false")
                        out.append(("%s(..)?.is_some() == %s" % (callee, permit), sw[p + "_edge"]))
        return out

    def g_cmp(self, a, b_, want_equal):
        out = []
        for i, t, op in cmp_calls(self.b):
            x, y = t["a"]
            if (self.is_val(x, a) and self.is_val(y, b_)) or (self.is_val(x, b_) and self.is_val(y, a)):
                for e in equal_edge(self.b, t, op, want_equal):
                    out.append(("%s %s %s" % (sname(a), "==" if want_equal else "!=", sname(b_)), e))
        return out

    # -- effects
    def e_action(self, action, fields):
        """Blocks calling ClusterImpl::exec with an `action` aggregate whose named fields carry the given values."""
        out, bad = [], []
        for i, t in cfg.calls(self.b):
            if cfg.callee(t) != CEXEC or len(t["a"]) < 2:
                continue
            w = who(self.b, t["a"][1])
            ds = cfg.defs(self.b).get(w[0], []) if w else []
            ag = [d[2] for d in ds if d[0] == "assign" and d[2]["k"] == "agg" and d[2].get("adt") == ACT + action]
            if not ag:
                continue
            for fname, spec in fields.items():
                if fname not in ag[0]["fields"]:
                    bad.append("action %s has no field `%s`" % (action, fname))
                    continue
                o = ag[0]["ops"][ag[0]["fields"].index(fname)]
                if not self.is_val(o, spec):
                    bad.append("field `%s` of %s does not carry %s (source %s)" % (fname, last(action), sname(spec), who(self.b, o)))
            out.append(i)
        return out, bad

    def e_call(self, callee, argspecs):
        hit = [i for i, t in self.find_calls(callee, argspecs)]
        allc = [i for i, t in cfg.calls(self.b) if cfg.callee(t) == callee]
        bad = ["call of %s at bb%d does not receive %s" % (last(callee), i, [sname(x) for x in argspecs]) for i in allc if i not in hit]
        return allc, bad


def sname(spec):
    if spec is None:
        return "_"
    if isinstance(spec, str):
        return spec
    if spec[0] == "res":
        return "%s(%s)%s" % (spec[1].split("::")[-1], ",".join(sname(x) for x in spec[2]), spec[3] if len(spec) > 3 else "")
    return "const %s" % spec[1]


def res(callee, *args, **kw):
    c = callee if "::" in callee else SDB + callee
    return ("res", c, list(args)) + ((kw["field"],) if "field" in kw else ())


USERNAME = res("user_name", "user")
DB_ID = res("user_db_id", "user", "owner", "db")
DATABASE = res("user_db", "user", "owner", "db")
ROLE = res("user_db_role", "user", "owner", "db")
REQ_ROLE = res("agdb_server::utilities::required_role", "queries")
ROLE_CONST = ("const", "agdb_api::DbUserRole", "Read")

# guard constructors (evaluated against a handler H)
def TRY(callee, *args):
    return lambda h: h.g_try(callee, list(args))


def ADMIN(db_id):
    return lambda h: h.g_bool("is_db_admin", ["user", db_id], "true")


def FREE(owner, db):
    return lambda h: h.g_is_some("find_user_db_id", ["user", owner, db], "false")


def EQ(a, b):
    return lambda h: h.g_cmp(a, b, True)


def NE(a, b):
    return lambda h: h.g_cmp(a, b, False)


def ANY(*gs):
    """Disjunction: permitted through any of the alternatives (all their permitting edges are cut together)."""
    return lambda h: [e for g in gs for e in g(h)]


def A(action, **fields):
    return ("action", action, fields)


def C(callee, *args):
    return ("call", callee, list(args))


OWNER_DB = dict(owner="owner", db="db")
MEMBER = TRY("user_db_id", "user", "owner", "db")
# Appendix A.2, re-confirmed by reading each handler.  handler -> [(effect, [guards])]; every guard of an effect
# must cut it on its own.
PERMS = {
    "db::add": [(A("db_add::DbAdd", **OWNER_DB), [EQ(USERNAME, "owner"), FREE("owner", "db")])],
    "db::audit": [(C(POOL + "audit", "owner", "db"), [MEMBER])],
    "db::backup": [(A("db_backup::DbBackup", **OWNER_DB), [MEMBER, ADMIN(DB_ID)])],
    "db::clear": [(A("db_clear::DbClear", **OWNER_DB), [MEMBER, ADMIN(DB_ID)])],
    "db::convert": [(A("db_convert::DbConvert", **OWNER_DB),
                     [TRY("user_db", "user", "owner", "db"), ADMIN(DATABASE)])],
    "db::copy": [(A("db_copy::DbCopy", owner="owner", db="db", new_owner=USERNAME, new_db="new_db"),
                  [TRY("user_db", "user", "owner", "db"), FREE(USERNAME, "new_db")])],
    "db::delete": [(A("db_delete::DbDelete", **OWNER_DB), [EQ("owner", USERNAME), MEMBER])],
    "db::exec": [(C(POOL + "exec", "owner", "db", "queries"), [MEMBER, EQ(REQ_ROLE, ROLE_CONST)])],
    "db::exec_mut": [(C(POOL + "exec", "owner", "db", "queries"),
                      [TRY("user_db_role", "user", "owner", "db"), NE(ROLE, ROLE_CONST), EQ(REQ_ROLE, ROLE_CONST)]),
                     (A("db_exec::DbExec", user=USERNAME, owner="owner", db="db", queries="queries"),
                      [TRY("user_db_role", "user", "owner", "db"), NE(ROLE, ROLE_CONST)])],
    "db::list": [(C(SDB + "user_dbs", "user"), [])],
    "db::optimize": [(A("db_optimize::DbOptimize", **OWNER_DB),
                      [TRY("user_db", "user", "owner", "db"), TRY("user_db_role", "user", "owner", "db"), NE(ROLE, ROLE_CONST)])],
    "db::remove": [(A("db_remove::DbRemove", **OWNER_DB), [EQ("owner", USERNAME), MEMBER])],
    "db::rename": [(A("db_rename::DbRename", owner="owner", db="db", new_owner=USERNAME, new_db="new_db"),
                    [EQ("owner", USERNAME), FREE(USERNAME, "new_db")])],
    "db::restore": [(A("db_restore::DbRestore", **OWNER_DB), [MEMBER, ADMIN(DB_ID)])],
    "db::rollback": [(A("db_rollback::DbRollback", **OWNER_DB), [MEMBER, ADMIN(DB_ID)])],
    "db::user::add": [(A("db_user_add::DbUserAdd", owner="owner", db="db", user="target"),
                       [NE("owner", "target"), MEMBER, ADMIN(DB_ID)])],
    "db::user::list": [(C(SDB + "db_users", DB_ID), [MEMBER])],
    "db::user::remove": [(A("db_user_remove::DbUserRemove", owner="owner", db="db", user="target"),
                          [NE("owner", "target"), MEMBER,
                           ANY(EQ("user", res("user_id", "target")), ADMIN(DB_ID))])],
}
# calls a db handler may make besides its effects: read-only look-ups of the server db evaluated for the caller,
# and size read-outs of a database the caller has already been admitted to
SDB_READS = {"user_name", "user_db_id", "find_user_db_id", "user_db", "user_db_role", "is_db_admin", "user_id",
             "user_dbs", "db_users"}
POOL_BENIGN = {"db_size"}


def guard_via_helper(fa, h, g):
    """Guard `g` evaluated inside a local async helper that the handler awaits with `?` (e.g. `ensure_db_admin(..).await?`):
    the helper's Ok result must be reachable only through the guard's permitting edges (with the handler's values bound to
    the helper's parameters); the handler's permitting edges are then the Ok edges of that call."""
    out = []
    for i, t in cfg.calls(h.b):
        n = cfg.callee(t) or ""
        sig = fa.fns.get(n)
        if not (sig and sig.get("async") and n.startswith("agdb_server::routes::")):
            continue
        hb = coro(fa, n)
        if hb is None:
            continue
        h2 = H.__new__(H)
        h2.fa, h2.path, h2.sig, h2.b, h2.err, h2.vals = fa, n, sig, hb, None, {}
        for k, a in enumerate(t["a"]):
            w = who(h.b, a)
            if not w:
                continue
            for name, v in h.vals.items():
                if v[0] == w[0] and v[1][:len(w[1])] == w[1]:
                    h2.vals[name] = (1, (".%d" % k,) + tuple(v[1][len(w[1]):]))
        try:
            edges2 = g(h2)
        except Exception:       # noqa: a guard recogniser that does not apply to this helper
            edges2 = []
        if not edges2:
            continue
        okb = ok_blocks(hb)
        if okb and all(cut(hb, x, [e for d, e in edges2]) is None for x in okb):
            for e in ok_edges(h.b, t["d"][0]):
                out.append(("%s(..).await? [%s]" % (last(n), " | ".join(sorted({d for d, e_ in edges2}))), e))
    return out


def r24c(ctx, rows):
    fa = ctx.facts
    routed = {h for p, m, h, i in rows}
    handlers = sorted(p for p, sig in fa.fns.items() if sig.get("async") and
                      (p.startswith(R + "db::") and p[len(R):] .count("::") <= 2) and
                      (p in routed or any(x.startswith("axum::extract::") for x in sig["inputs"])))
    for p in handlers:
        short = p[len(R):]
        spec = PERMS.get(short)
        sig = fa.fns[p]
        where = "%s:%d" % (sig["file"], sig["line"])
        if spec is None:
            ctx.ob("R24c", short + ":spec", False,
                   "handler `%s` has no frozen permission specification (new endpoint: add its guards to PERMS after review)" % p, where)
            continue
        h = H(fa, p)
        if h.err or "user" not in h.vals:
            ctx.ob("R24c", short + ":shape", False, h.err or "handler has no UserId parameter", where)
            continue
        b = h.b
        listed = set()
        for eff, guards in spec:
            if eff[0] == "action":
                sites, bad = h.e_action(eff[1], eff[2])
                ename = "exec::<%s>" % last(eff[1])
            else:
                sites, bad = h.e_call(eff[1], eff[2])
                ename = "::".join(eff[1].split("::")[-2:])
            listed |= set(sites)
            if not sites:
                ctx.ob("R24c", "%s:%s" % (short, ename), False, "effect call %s not found in `%s`" % (ename, p), where)
                continue
            ctx.ob("R24c", "%s:%s:subject" % (short, ename), not bad,
                   "the effect receives the request's owner/db (and derived values) unchanged" if not bad else "; ".join(bad),
                   b.loc(sites[0]))
            if not guards:
                ctx.ob("R24c", "%s:%s:own-data" % (short, ename), not bad,
                       "reads the caller's own data (argument is the authenticated user id)", b.loc(sites[0]))
            for gi, g in enumerate(guards):
                edges = g(h) or guard_via_helper(fa, h, g)
                desc = " | ".join(sorted({d for d, e in edges})) or "guard #%d" % gi
                if not edges:
                    ctx.ob("R24c", "%s:%s:guard#%d" % (short, ename, gi), False,
                           "guard #%d frozen for %s in `%s` was not found (test removed, or evaluated for another user / "
                           "database than the effect's)" % (gi, ename, p), where,
                           key="%s|R24c|%s|%s|guard#%d-missing" % (ctx.pid, short, ename, gi))
                    continue
                for s in sites:
                    pth = cut(b, s, [e for d, e in edges])
                    ctx.ob("R24c", "%s:%s:guard#%d" % (short, ename, gi), pth is None,
                           "%s reachable only through [%s]" % (ename, desc) if pth is None else
                           "%s in `%s` is reachable without passing [%s]: %s" % (ename, p, desc, cfg.path_str(b, pth)),
                           b.loc(s), key="%s|R24c|%s|%s|guard#%d-bypassed" % (ctx.pid, short, ename, gi))
        # nothing else in the handler has an effect
        for i, t in cfg.calls(b):
            n = cfg.callee(t) or ""
            extra = None
            if n == CEXEC and i not in listed:
                extra = "cluster action %s" % (cfg.callee_full(t) or n)
            elif n.startswith(POOL) and i not in listed and last(n) not in POOL_BENIGN:
                extra = "DbPool::%s" % last(n)
            elif n.startswith(SDB) and i not in listed and last(n) not in SDB_READS:
                extra = "ServerDb::%s" % last(n)
            if extra:
                ctx.ob("R24c", "%s:unlisted-effect:%s" % (short, last(n)), False,
                       "`%s` performs %s which is not in the handler's frozen effect list (no guard is checked for it)" % (p, extra),
                       b.loc(i))
        for cb in fa.closures_of(b.path):
            for i, t in cfg.calls(cb):
                n = cfg.callee(t) or ""
                if n == CEXEC or n.startswith(POOL) or (n.startswith(SDB) and last(n) not in SDB_READS):
                    ctx.ob("R24c", "%s:unlisted-effect:%s" % (short, last(n)), False,
                           "closure `%s` performs %s outside the checked control flow" % (cb.path, n), cb.loc(i))
    missing = sorted(set(PERMS) - {p[len(R):] for p in handlers})
    for m in missing:
        ctx.ob("R24c", m + ":anchor", False, "handler `%s%s` of the frozen permission table not found" % (R, m), "")
    ctx.floor("R24c", "db handlers", len(handlers), 18)


# ---------------------------------------------------------------- R24d query classes

UDB = "agdb_server::db_pool::user_db::"
QT = "agdb::query::QueryType"
# appendix A.3
MUTATING = {"InsertAlias", "InsertEdges", "InsertIndex", "InsertNodes", "InsertValues", "Remove", "RemoveAliases",
            "RemoveIndex", "RemoveValues"}
READING = {"Search", "SelectAliases", "SelectAllAliases", "SelectEdgeCount", "SelectIndexes", "SelectKeys",
           "SelectKeyCount", "SelectNodeCount", "SelectValues"}



# ---------------------------------------------------------------- R24g subject binding of the role / db look-ups

LOOKUPS = {  # ServerDb fn -> callee that must feed the success value, called with (user, owner, db) of the fn itself
    "find_user_db_id": "find_user_db_query", "user_db": "find_user_db_query", "user_db_role": "find_user_db_query",
    "remove_db": "find_user_db_query", "user_db_id": SDB + "find_user_db_id",
}


def _not_residual(n):
    return n.endswith(("FromResidual>::from_residual", "FromResidual::from_residual"))


def _upvar_to_outer(fa, outer, inner, w):
    """map `(1, ('.k', ..))` of closure body `inner` to the source of the k-th captured operand in `outer`"""
    if not w or w[0] != 1 or not w[1] or not w[1][0][1:].isdigit():
        return None
    k = int(w[1][0][1:])
    for bi, s_ in cfg.assigns(outer):
        r = s_["r"]
        if r["k"] == "agg" and r.get("def") == inner.path and k < len(r["ops"]):
            return who(outer, r["ops"][k])
    return None


def r24g(ctx):
    """The success value of each (user, owner, db) look-up is *computed from* the one query that identifies the
    database by all three of the function's own parameters: a role / id / record taken from anything else (the db name
    alone, the first db of the user, ...) answers for the wrong subject when names collide."""
    fa = ctx.facts
    n = 0
    for fn, need in LOOKUPS.items():
        b = ctx.anchor("R24g", SDB + fn + "::{closure#0}")
        if not b:
            continue
        n += 1
        found = []

        def scan(body, outer_chain):
            sl, calls, reads = cfg.backward_slice(body, [0], skip_call=_not_residual)
            for i, t in calls:
                c = cfg.callee(t) or ""
                if c == need or c.endswith("::" + need):
                    args = t["a"][-3:]
                    ws = []
                    for a in args:
                        w = who(body, a)
                        cur = body
                        for ob in outer_chain:
                            w = _upvar_to_outer(fa, ob, cur, w)
                            cur = ob
                        ws.append(w)
                    found.append((body.loc(i), ws))
                for cb in common.closure_bodies_passed(fa, body, t):
                    if len(outer_chain) < 2:
                        scan(cb, [body] + outer_chain)
        scan(b, [])
        want = [(1, (".1",)), (1, (".2",)), (1, (".3",))]
        ok = any([(w[0], tuple(w[1][:1])) if w else None for w in ws] == want for loc, ws in found)
        ctx.ob("R24g", "ServerDb::%s:subject" % fn, ok,
               "the success value is computed from %s(user, owner, db) of the function's own parameters" % last(need) if ok else
               "the value ServerDb::%s returns on success is not computed from %s(user, owner, db) (calls in the data "
               "slice of the result: %s): the answer can belong to another database of the same name" % (
                   fn, last(need), found or "none"), b.where)
    ctx.floor("R24g", "(user, owner, db) look-ups of ServerDb", n, 5)
    # the identifying query binds each key to its parameter
    q = ctx.anchor("R24g", "agdb_server::server_db::find_user_db_query")
    if q:
        chain = []
        cur = 0
        for _ in range(40):
            dc = cfg.def_call(q, cur)
            if not dc:
                break
            chain.append((last(cfg.callee(dc[1]) or "?"), [vexpr(q, a) for a in dc[1]["a"][1:]]))
            pl = cfg.op_place(dc[1]["a"][0]) if dc[1]["a"] else None
            if not pl:
                break
            cur = pl[0]
        chain.reverse()
        pairs = {}
        frm = None
        for k, (m, args) in enumerate(chain):
            if m == "from" and args:
                frm = args[0]
            if m == "key" and args and k + 1 < len(chain) and chain[k + 1][0] == "value" and chain[k + 1][1]:
                pairs[vshow(args[0])] = chain[k + 1][1][0]
        names = [m for m, a in chain]
        okq = (frm == ("local", 1) and len(pairs) == 2 and sorted(pairs.values()) == [("local", 2), ("local", 3)]
               and "neighbor" in names and not any(x in names for x in ("or", "not", "not_beyond")))
        ctx.ob("R24g", "find_user_db_query:binds-all", okq,
               "from(user), neighbor, key(..).value(owner) and key(..).value(db), conjunctive" if okq else
               "find_user_db_query no longer restricts the search to the user's neighbours with both the owner and the db "
               "key bound to its parameters (chain %s, pairs %s)" % (names, {k: vshow(v) for k, v in pairs.items()}), q.where)


def flatten_or(p):
    if p["k"] == "or":
        return [x for s in p["sub"] for x in flatten_or(s)]
    return [p]


def query_truth(fa):
    """variant -> 'mut' | 'read' | None from the trait implemented by the payload type."""
    adt = fa.adts.get(QT)
    out = {}
    if not adt:
        return out
    impls = {}
    for im in fa.impls:
        tr = im.get("trait") or ""
        if tr in ("agdb::query::QueryMut", "agdb::query::Query"):
            impls.setdefault(im["self"], set()).add("mut" if tr.endswith("QueryMut") else "read")
    for v in adt["variants"]:
        ty = v["fields"][0]["ty"] if len(v["fields"]) == 1 else None
        k = impls.get(ty, set())
        out[v["name"]] = next(iter(k)) if len(k) == 1 else None
    return out


def arm_table(fa, fn, classify, informative=lambda c: c not in ("none", "?", "skip")):
    """variant -> class from the HIR match on QueryType in `fn` (or in a helper folded into it); '_' key for the wildcard
    arm.  When the function holds several such matches (its own dispatch plus a classifying predicate), the one whose arms
    the classifier finds informative is taken."""
    b0 = fa.body(fn)
    if b0 is not None:
        from lib import inline
        inline.inlined(fa, b0)          # registers folded helpers, whose HIR matches then count for `fn`
    ms = [m for m in fa.matches(fn) if m["scrut_ty"].replace("&", "").replace("mut ", "").strip().endswith("agdb::QueryType")]
    if len(ms) > 1:
        best = [m for m in ms if any(informative(classify(a["body"])) for a in m["arms"])]
        ms = best if len(best) == 1 else ms
    if len(ms) != 1:
        return None
    tbl = {}
    for a in ms[0]["arms"]:
        c = classify(a["body"])
        for p in flatten_or(a["p"]):
            if p["k"] == "variant" and (p.get("path") or "").startswith("agdb::QueryType::"):
                tbl[last(p["path"])] = c
            elif p["k"] == "wild":
                tbl["_"] = c
            else:
                tbl["?" + a["pat"]] = c
    return tbl


def exec_class(body):
    cs = {common.norm(c) for c in body["calls"]}
    mut = any(c.endswith("TransactionMut::exec_mut") for c in cs)
    rd = any(c.endswith(("Transaction::exec", "TransactionMut::exec")) for c in cs)
    if mut and not rd:
        return "mut"
    if rd and not mut:
        return "read"
    if not mut and not rd:
        return "reject" if any(last(c) == "Err" for c in cs) else "none"
    return "both"


_AUDIT_EXTRA = []


def audited_variants(body):
    """(variant -> bool: arm sets the audit flag, audit call guarded by the flag) from t_exec_mut's MIR."""
    # the audit flag: the boolean local that guards the audit_query call (whatever it is called)
    aq0 = [i for i, t in cfg.calls(body) if cfg.callee(t) == UDB + "audit_query"]
    flag = []
    for l_ in range(len(body.locals)):
        if body.local_ty(l_) != "bool" or body.local_name(l_) is None:
            continue
        ds_ = [d for d in cfg.defs(body).get(l_, []) if d[0] != "partial"]
        if ds_ and all(d[0] == "assign" and d[2]["k"] == "use" and cfg.op_const(d[2]["o"]) for d in ds_):
            es_ = [sw_["true_edge"] for sw_ in cfg.bool_switches(body, flow(body, [l_]))]
            if aq0 and es_ and all(cut(body, a, es_) is None for a in aq0):
                flag.append(l_)
    sws = []
    for i, blk in enumerate(body.blocks):
        t = blk["term"]
        if t["k"] != "switch":
            continue
        pl = cfg.op_place(t["d"])
        ds = cfg.defs(body).get(pl[0], []) if pl else []
        if ds and ds[0][0] == "assign" and ds[0][2]["k"] == "discr" and (ds[0][2].get("enum") or "").endswith("QueryType"):
            sws.append((i, t, dict((v, n) for v, n in ds[0][2]["variants"])))
    if len(flag) != 1 or not sws:
        return None, False
    f = flag[0]
    out = {}
    for i0, t0, names in sws:        # the dispatch that sets the flag: the function's own match, or a folded predicate's
        by_target = {}
        for v, tb in t0["ts"]:
            by_target.setdefault(tb, []).append(names.get(v, "?%d" % v))     # or-patterns share one target block
        tregs = {tb: cfg.reachable(body, [tb], avoid=[i0])[0] for tb in by_target}
        if t0.get("else") is not None and t0["else"] not in tregs:
            tregs[t0["else"]] = cfg.reachable(body, [t0["else"]], avoid=[i0])[0]
        cand = {}
        for tb, vs in by_target.items():
            others = set().union(*[r for m, r in tregs.items() if m != tb]) if len(tregs) > 1 else set()
            excl = tregs[tb] - others
            val = any(s.get("l") == [f] and s["r"]["k"] == "use" and (cfg.op_const(s["r"]["o"]) or {}).get("v") == 1
                      for bi in excl for s in body.blocks[bi]["s"])
            for n in vs:
                cand[n] = val
        # variants not listed by a `matches!`-style switch fall to its default arm (flag = false)
        for n in names.values():
            cand.setdefault(n, False)
        if any(cand.values()):
            out = cand
            break
    if not out:
        return None, False
    # the flag only ever receives constants, and audit_query is reachable only through flag == true
    consts = all(d[0] == "assign" and d[2]["k"] == "use" and cfg.op_const(d[2]["o"]) for d in cfg.defs(body).get(f, []))
    edges = [swt["true_edge"] for swt in cfg.bool_switches(body, flow(body, [f]))]
    aq = [i for i, t in cfg.calls(body) if cfg.callee(t) == UDB + "audit_query"]
    guarded = consts and bool(aq and edges) and all(cut(body, a, edges) is None for a in aq)
    # ... and by nothing else: every mutating query of an applied batch is audited, whatever it reported as its result
    flag_sw = {sw_["true_edge"][0] for sw_ in cfg.bool_switches(body, flow(body, [f]))}
    qt_sw = {i0 for i0, t0, names in sws}
    extra = []
    for j, blk in enumerate(body.blocks):
        tt = blk["term"]
        if blk.get("cleanup") or tt["k"] != "switch" or j in flag_sw or j in qt_sw or tt.get("x") == "desugar:QuestionMark":
            continue
        if any(cut(body, a, [(j, tg)]) is None for a in aq for tg in cfg.succs(body, j)):
            extra.append(body.loc(j))
    if extra:
        guarded = False
        _AUDIT_EXTRA[:] = extra
    return out, guarded


def r24d(ctx, rule="R24d"):
    fa = ctx.facts
    truth = query_truth(fa)
    ok = len(truth) == 18 and all(truth.values())
    ctx.ob(rule, "QueryType:variants", ok, "18 variants, each payload implements exactly one of Query / QueryMut" if ok else
           "QueryType has %d variants, unclassified: %s" % (len(truth), sorted(k for k, v in truth.items() if not v)), "")
    mut = {k for k, v in truth.items() if v == "mut"}
    rd = {k for k, v in truth.items() if v == "read"}
    ctx.ob(rule, "QueryType:frozen-table", mut == MUTATING and rd == READING,
           "mutating/read-only split equals appendix A.3 (9 + 9)" if mut == MUTATING and rd == READING else
           "payload traits differ from the frozen table: mutating %s / %s" % (sorted(mut ^ MUTATING), sorted(rd ^ READING)), "")
    # required_role
    b = ctx.anchor(rule, "agdb_server::utilities::required_role")
    rr = arm_table(fa, b.path, lambda body: "Write" if "agdb_api::DbUserRole::Write" in body["paths"] and body["rets"] == 1
                   else ("skip" if not body["paths"] and not body["calls"] and not body["rets"] else "?")) if b else None
    pred_form = False
    if b and rr is None:
        # `queries.0.iter().any(is_mutable)`: the classification lives in a predicate (fn item or closure) handed to any()
        for i, t in cfg.calls(b):
            if not (cfg.callee_decl(t) or "").endswith("Iterator::any") or len(t["a"]) < 2:
                continue
            preds = [cb.path for cb in common.closure_bodies_passed(fa, b, t)]
            k = cfg.op_const(t["a"][1])
            if k and k.get("fn"):
                preds.append(k["fn"])
            for pp in preds:
                pt = arm_table(fa, pp, lambda body: "Write" if body["lits"] == ["Bool(true)"] else (
                    "skip" if body["lits"] == ["Bool(false)"] else "?"), informative=lambda c: c == "Write")
                if pt is None:
                    continue
                # linkage: any() == true returns Write, false returns Read; the iterator covers queries.0
                writes = [bi for bi, s_ in cfg.assigns(b) if s_["l"] == [0] and s_["r"]["k"] == "agg" and s_["r"].get("variant") == "Write"]
                reads_ = [bi for bi, s_ in cfg.assigns(b) if s_["l"] == [0] and s_["r"]["k"] == "agg" and s_["r"].get("variant") == "Read"]
                sws_ = cfg.bool_switches(b, flow(b, [t["d"][0]]))
                it_src = vexpr(b, t["a"][0])
                whole = "(1, '.0')" in repr(who(b, t["a"][0])) or ".0" in repr(it_src)
                if sws_ and writes and reads_ and whole and \
                        all(cut(b, w, [sw_["true_edge"] for sw_ in sws_]) is None for w in writes) and \
                        all(cut(b, r_, [sw_["false_edge"] for sw_ in sws_]) is None for r_ in reads_):
                    rr = pt
                    pred_form = True
    te = arm_table(fa, UDB + "t_exec", exec_class) if ctx.anchor(rule, UDB + "t_exec") else None
    bm = ctx.anchor(rule, UDB + "t_exec_mut")
    tm = arm_table(fa, UDB + "t_exec_mut", exec_class) if bm else None
    aud, guarded = audited_variants(bm) if bm else (None, False)
    for name, tbl in (("required_role", rr), ("t_exec", te), ("t_exec_mut", tm), ("t_exec_mut:audit", aud)):
        if tbl is None:
            ctx.ob(rule, name + ":table", False, "match on QueryType in `%s` not found (idiom not recognised)" % name, "")
    if None in (rr, te, tm, aud):
        return mut
    for v in sorted(truth):
        want = truth[v]
        got_rr = rr.get(v, rr.get("_"))
        got_te = te.get(v, te.get("_"))
        got_tm = tm.get(v, tm.get("_"))
        got_au = aud.get(v)
        exp = ("Write", "reject", "mut", True) if want == "mut" else ("skip", "read", "read", False)
        got = (got_rr, got_te, got_tm, got_au)
        ok = got == exp
        wrong = [x for x, g, e in zip((b, fa.body(UDB + "t_exec"), bm, bm), got, exp) if g != e and x is not None]
        where = wrong[0].where if wrong else b.where
        ctx.ob(rule, "class[%s]" % v, ok,
               "%s: required_role=%s, t_exec=%s, t_exec_mut=%s, audited=%s" % ((want,) + got) if ok else
               "QueryType::%s is %s (payload trait) but required_role=%s, t_exec=%s, t_exec_mut=%s, audited=%s; expected %s" % (
                   (v, want) + got + (exp,)), where,
               key="%s|%s|class|%s" % (ctx.pid, rule, v))
    stray = [k for t in (rr, te, tm) for k in t if k.startswith("?")]
    ctx.ob(rule, "tables:patterns", not stray, "only plain variant / wildcard patterns" if not stray else
           "unrecognised arm patterns %s" % stray, "")
    ctx.ob(rule, "t_exec_mut:audit-guarded", guarded,
           "audit_query is called only when the arm set do_audit (a flag that only receives constants)" if guarded else
           ("audit_query in t_exec_mut also depends on a test at %s: a mutating query of an applied batch can be missing from "
            "the audit log" % _AUDIT_EXTRA) if _AUDIT_EXTRA else
           "audit_query in t_exec_mut is not guarded by the do_audit flag any more", bm.where)
    # required_role inspects every query of the batch: `Read` is returned only when the iterator is exhausted
    if b and pred_form:
        ctx.ob(rule, "required_role:all-queries", True, "Write iff any(query is mutating) over queries.0; Read otherwise", b.where)
    elif b:
        reads = [bi for bi, s in cfg.assigns(b) if s["l"] == [0] and s["r"]["k"] == "agg" and s["r"].get("variant") == "Read"]
        nxt = [(i, t) for i, t in cfg.calls(b) if (cfg.callee(t) or "").endswith("Iterator>::next")]
        edges = []
        for i, t in nxt:
            for j, blk in enumerate(b.blocks):
                tt = blk["term"]
                if tt["k"] == "switch":
                    pl = cfg.op_place(tt["d"])
                    ds = cfg.defs(b).get(pl[0], []) if pl else []
                    if ds and ds[0][0] == "assign" and ds[0][2]["k"] == "discr" and ds[0][2]["p"][0] == t["d"][0]:
                        edges += [(j, tb) for v, tb in tt["ts"] if v == 0]
        it = [t for i, t in cfg.calls(b) if (cfg.callee(t) or "").endswith("IntoIterator>::into_iter")]
        whole = bool(it) and who(b, it[0]["a"][0]) == (1, (".0",))
        ok = bool(reads and edges) and whole and all(cut(b, r, edges) is None for r in reads)
        ctx.ob(rule, "required_role:all-queries", ok,
               "Read is returned only after the loop over queries.0 is exhausted" if ok else
               "required_role can return Read without having inspected every query of the batch", b.where)
    return mut


# ---------------------------------------------------------------- R24e (MIR part) / WHO chain of mutation

def r24e(ctx):
    fa = ctx.facts
    b = ctx.anchor("R24e", UDB + "UserDb::exec::{closure#0}")
    if b:
        names = [common.norm(cfg.callee(t) or "") for i, t in cfg.calls(b)]
        locks = [n for n in names if n.startswith("tokio::sync::RwLock::")]
        trs = [(i, t) for i, t in cfg.calls(b) if common.norm(cfg.callee(t) or "").startswith("agdb::DbImpl::")]
        ok = locks == ["tokio::sync::RwLock::read"] and [last(common.norm(cfg.callee(t))) for i, t in trs] == ["transaction"]
        ctx.ob("R24e", "UserDb::exec:read-lock", ok,
               "takes RwLock::read and DbImpl::transaction (immutable)" if ok else
               "UserDb::exec uses %s / %s instead of the read lock and an immutable transaction" % (
                   locks, [common.norm(cfg.callee(t)) for i, t in trs]), b.where)
        cls = [c for i, t in trs for c in common.closure_bodies_passed(fa, b, t)]
        called = {common.norm(cfg.callee(t) or "") for c in cls for i, t in cfg.calls(c)}
        ok = bool(cls) and UDB + "t_exec" in called and UDB + "t_exec_mut" not in called and \
            not any(n.endswith("exec_mut") for n in called)
        ctx.ob("R24e", "UserDb::exec:closure", ok, "the transaction closure runs t_exec only" if ok else
               "the closure of UserDb::exec calls %s" % sorted(n for n in called if "exec" in n), b.where)
    sig = fa.fns.get(UDB + "t_exec")
    ok = bool(sig) and sig["inputs"][0].startswith("&agdb::Transaction<") and not sig["inputs"][0].startswith("&mut")
    ctx.ob("R24e", "t_exec:immutable-transaction", ok, "t_exec receives `&Transaction` (no exec_mut available)" if ok else
           "t_exec's transaction parameter is %s" % (sig["inputs"][0] if sig else None), "")
    # WHO: the only way to t_exec_mut is exec_mut handler -> DbExec -> DbPool::exec_mut -> UserDb::exec_mut
    chain = [
        (UDB + "t_exec_mut", {UDB + "UserDb::exec_mut"}),
        (UDB + "UserDb::exec_mut", {POOL + "exec_mut"}),
        (POOL + "exec_mut", {"<agdb_server::action::db_exec::DbExec as agdb_server::action::Action>::exec"}),
    ]
    for callee, allowed in chain:
        callers = {common.norm(cb.root or cb.npath) for cb, j, t in common.callers_of(fa, callee, "agdb_server")}
        ok = bool(callers) and callers <= allowed
        ctx.ob("R24e", "who:%s" % "::".join(callee.split("::")[-2:]), ok,
               "called only from %s" % sorted(callers) if ok else
               "`%s` is called from %s, allowed %s" % (callee, sorted(callers - allowed) or "nobody", sorted(allowed)), "")
    makers = set()
    for ob in fa.bodies.values():
        if ob.crate == "agdb_server":
            for bi, s in cfg.assigns(ob):
                if s["r"]["k"] == "agg" and s["r"].get("adt") == ACT + "db_exec::DbExec":
                    makers.add(common.norm(ob.root or ob.npath))
    allowed = {R + "db::exec_mut", R + "admin::db::exec_mut"}
    # derived Clone / Deserialize / DbSerialize impls inside the action's module rebuild replicated actions that
    # arrive through the ClusterId-protected raft endpoint or the local log
    derive = {m for m in makers if ACT + "db_exec::" in m and not m.startswith(R)}
    ok = bool(makers) and (makers - derive) <= allowed
    ctx.ob("R24e", "who:DbExec", ok, "DbExec is constructed only by %s" % sorted(makers - derive) if ok else
           "DbExec constructed by %s" % sorted(makers - derive - allowed), "")


# ---------------------------------------------------------------- R24f logout / role removal

REMOVERS = {SDB + "remove_token", SDB + "remove_tokens", SDB + "remove_tokens_except", SDB + "remove_session",
            SDB + "remove_all_tokens"}
TOKEN_ACTIONS = {
    "remove_user_token::RemoveUserToken": "remove_token",
    "remove_user_tokens::RemoveUserTokens": "remove_tokens",
    "remove_user_tokens_except::RemoveUserTokensExcept": "remove_tokens_except",
    "remove_user_session::RemoveUserSession": "remove_session",
    "remove_all_tokens::RemoveAllTokens": "remove_all_tokens",
    "db_user_remove::DbUserRemove": "remove_db_user",
}
LOGOUTS = [R + "user::logout", R + "cluster::logout", R + "admin::user::logout", R + "admin::user::logout_all",
           R + "cluster::admin_logout", R + "cluster::admin_logout_all"]


def must_pass_ok(body, sites):
    """Every Ok return passes the Ok edge of `?` on one of the calls at `sites` (awaited)."""
    okb = ok_blocks(body)
    edges = []
    for i in sites:
        edges += ok_edges(body, body.blocks[i]["term"]["d"][0])
    if not (okb and edges):
        return False, None
    p = cfg.find_path(body, [0], okb, removed_edges=edges)
    return p is None, p


def r24f(ctx):
    fa = ctx.facts
    for h in LOGOUTS:
        b = ctx.anchor("R24f", h + "::{closure#0}")
        if not b:
            continue
        sites = []
        for i, t in cfg.calls(b):
            n = cfg.callee(t) or ""
            if n in REMOVERS:
                sites.append(i)
            elif n == CEXEC and any((ACT + a) in (cfg.callee_full(t) or "") for a in TOKEN_ACTIONS if a != "db_user_remove::DbUserRemove"):
                sites.append(i)
        ok, p = must_pass_ok(b, sites)
        ctx.ob("R24f", "%s:removes-token" % h[len(R):], ok,
               "every success path passes a successful token/session removal (%d sites)" % len(sites) if ok else
               "`%s` can answer success without removing any token (%s)" % (h, cfg.path_str(b, p) if p else "no removal call found"),
               b.where)
    for a, sink in sorted(TOKEN_ACTIONS.items()):
        b = ctx.anchor("R24f", "<%s%s as agdb_server::action::Action>::exec::{closure#0}" % (ACT, a))
        if not b:
            continue
        sites = [i for i, t in cfg.calls(b) if cfg.callee(t) == SDB + sink]
        ok, p = must_pass_ok(b, sites)
        ctx.ob("R24f", "%s:reaches-%s" % (last(a), sink), ok,
               "action succeeds only after ServerDb::%s succeeded" % sink if ok else
               "action %s can succeed without ServerDb::%s (%s)" % (last(a), sink, cfg.path_str(b, p) if p else "call not found"),
               b.where)
    # the removing primitives execute a mutating query on the server db under the write lock
    for fn in sorted(REMOVERS | {SDB + "remove_db_user"}):
        b = ctx.anchor("R24f", fn + "::{closure#0}")
        if not b:
            continue
        bodies = [b] + fa.closures_of(b.path)
        names = {common.norm(cfg.callee(t) or "") for x in bodies for i, t in cfg.calls(x)}
        ok = "tokio::sync::RwLock::write" in names and any(n.endswith("::exec_mut") for n in names)
        ctx.ob("R24f", "%s:mutates" % last(fn), ok, "takes the write lock and runs exec_mut (remove query)" if ok else
               "`%s` no longer executes a mutating query under the write lock" % fn, b.where)


ROLE_WRITERS = {
    SDB + "insert_db": "a new database: the owner's admin edge is its first role edge",
    SDB + "insert_db_user": "grants / changes a role: updates the existing edge or creates the only one",
}


def r24h(ctx):
    """At most ONE role edge per (user, db): remove_db_user deletes one edge (`limit(1)`), the role look-ups read one.
    Role key-values are therefore written only by the frozen writers, and insert_db_user creates an edge only when its
    search for an existing role edge found none.  (A second writer - e.g. an ownership transfer that always inserts an
    admin edge - leaves a user with two edges: removing the role later removes only one of them.)"""
    fa = ctx.facts
    writers = {}
    for b in fa.bodies.values():
        if b.crate != "agdb_server":
            continue
        for bi, st in cfg.assigns(b):
            for o in cfg.rvalue_operands(st["r"]):
                c = cfg.op_const(o)
                if c and str(c.get("c", "")).endswith("server_db::ROLE"):
                    writers.setdefault(common.norm(b.root or b.npath), b.loc(bi))
    for w, where in sorted(writers.items()):
        ok = w in ROLE_WRITERS
        ctx.ob("R24h", "role-writer:" + w.split("::")[-1], ok, ROLE_WRITERS.get(w, "") if ok else
               "`%s` writes a `role` key-value but is not one of the frozen writers %s: a second role edge between a user "
               "and a database survives remove_db_user (which deletes one edge)" % (w, sorted(x.split("::")[-1] for x in ROLE_WRITERS)), where)
    for w in ROLE_WRITERS:
        ctx.ob("R24h", "role-writer-present:" + w.split("::")[-1], w in writers, "present" if w in writers else
               "frozen role writer `%s` not found (anchor missing)" % w, "")
    cl = ctx.anchor("R24h", SDB + "insert_db_user::{closure#0}::{closure#0}")
    if cl:
        edges_calls = [i for i, t in cfg.calls(cl) if last(cfg.callee(t) or "") == "edges"]
        found1 = []
        for bi, st in cfg.assigns(cl):
            r = st["r"]
            if r["k"] == "bin" and r["op"] in ("Eq", "Ne"):
                c = cfg.op_const(r["b"]) or cfg.op_const(r["a"])
                o = cfg.op_origin(cl, r["a"]) or cfg.op_origin(cl, r["b"])
                if c is not None and c.get("v") == 1 and o and o[1][-1:] == [".result"]:
                    for sw in cfg.bool_switches(cl, cfg.derived_locals(cl, [st["l"][0]])):
                        found1.append(sw["true_edge"] if r["op"] == "Eq" else sw["false_edge"])
        ok = bool(edges_calls and found1) and all(cfg.find_path(cl, [0], [i], removed_edges=[e for e in found1]) is not None and
                                                  all(cfg.find_path(cl, [e[1]], [i]) is None for e in found1) for i in edges_calls)
        ctx.ob("R24h", "insert_db_user:edge-only-if-none", ok,
               "a role edge is created only when the search for an existing one returned nothing" if ok else
               "insert_db_user can create a role edge although one exists already", cl.where)


def run(ctx):
    rows = r24a(ctx)
    r24b(ctx)
    r24c(ctx, rows)
    r24d(ctx)
    r24e(ctx)
    r24f(ctx)
    r24g(ctx)
    r24h(ctx)
    # R24e (type-level half): exec / Transaction::exec reject a mutating query at compile time (E3 witnesses)
    from rules.C23 import witness
    witness(ctx, "C24")
    return 0
