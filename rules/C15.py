"""C15 — search conditions select and prune as documented."""
import os
import re
from lib import cfg
from rules import common

CRATES = ("agdb",)
EXPLANATION = (
    "Static analysis by exhaustive table extraction (HIR match tables + MIR cut-sets): (R15a) SearchControl::and/or "
    "9-row tables equal the documented truth tables (also cross-read from the reference documentation); (R15b) "
    "CountComparison::compare_distance (6 variants x 3 orderings) and compare (variant -> operator) equal the frozen "
    "tables, with the operand orientation checked in MIR; (R15c) modifier arms of evaluate_conditions (Beyond, NotBeyond, "
    "Not) and the And/Or logic dispatch; (R15d) no derived cross-variant ordering of DbValue is reachable in "
    "Comparison::compare without a same-variant test; (R15e) the accepted (left,right) variant pairs of "
    "Contains/StartsWith/EndsWith are exactly the documented ones with `_ => false`.")
DECIDED = ["R15a and/or truth tables (TABLE, exhaustive 9+9 rows)", "R15b distance and count comparison tables (TABLE)",
           "R15c modifier and logic dispatch (cut-set per arm)", "R15d type-strict ordering comparisons (DOM)",
           "R15e contains/starts_with/ends_with accepted type pairs (TABLE)",
           "R15f the ids condition compares signed ids",
           "R15h the keys condition is `all listed keys are among the element's keys` (idiom table)",
           "R15g evaluate_conditions folds every condition with the documented step (abstract interpretation, 672 rows)",
           "R14a-c traversal sibling rules (shared with C14)",
           "R16e streaming handlers pass the Continue/Stop kind through (shared with C16)"]
UNDECIDED = ["extent of a traversal on a concrete graph (needs execution)",
             "element-level semantics of contains/starts_with/ends_with payload operations (std library calls)"]

SC = "agdb::graph_search::SearchControl"
QC = "agdb::query::query_condition::"
V = {"Continue": "C", "Finish": "F", "Stop": "S"}


def want_and(a, b):
    return "F" if "F" in (a, b) else ("S" if "S" in (a, b) else "C")


def want_or(a, b):
    return "C" if "C" in (a, b) else ("S" if "S" in (a, b) else "F")


DIST = {  # variant -> (Less, Equal, Greater) -> (ctor, bool)    [scrutinee: distance.cmp(value)]
    "Equal": {"Less": ("C", False), "Equal": ("S", True), "Greater": ("S", False)},
    "GreaterThan": {"Less": ("C", False), "Equal": ("C", False), "Greater": ("C", True)},
    "GreaterThanOrEqual": {"Less": ("C", False), "Equal": ("C", True), "Greater": ("C", True)},
    "LessThan": {"Less": ("C", True), "Equal": ("S", False), "Greater": ("S", False)},
    "LessThanOrEqual": {"Less": ("C", True), "Equal": ("C", True), "Greater": ("S", False)},
    "NotEqual": {"Less": ("C", True), "Equal": ("C", False), "Greater": ("C", True)},
}
CMP_OP = {"Equal": "Eq", "GreaterThan": "Gt", "GreaterThanOrEqual": "Ge", "LessThan": "Lt", "LessThanOrEqual": "Le",
          "NotEqual": "Ne"}
PAIRS = {("String", "String"), ("String", "VecString"), ("VecI64", "I64"), ("VecI64", "VecI64"), ("VecU64", "U64"),
         ("VecU64", "VecU64"), ("VecF64", "F64"), ("VecF64", "VecF64"), ("VecString", "String"),
         ("VecString", "VecString")}


def last(p):
    return (p or "").split("::")[-1]


def flatten_or(p):
    if p["k"] == "or":
        out = []
        for s in p["sub"]:
            out += flatten_or(s)
        return out
    return [p]


def ctor_of(body):
    cs = [last(x) for x in body["paths"] if x.startswith(SC + "::")]
    return cs[0] if len(cs) == 1 else None


def lit_bool(body):
    ls = [x for x in body["lits"] if x.startswith("Bool(")]
    return (ls[0] == "Bool(true)") if len(ls) == 1 else None


def docs_tables(repo):
    """Parse the and/or truth tables of the reference documentation (symmetric rows)."""
    p = os.path.join(repo, "agdb_web/content/docs/03.references/01.queries.md")
    out = {"&&": {}, "||": {}}
    try:
        txt = open(p).read()
    except OSError:
        return None
    for m in re.finditer(r"\|\s*(Continue|Stop|Finish)\(left\)\s*\|\s*(Continue|Stop|Finish)\(right\)\s*\|\s*"
                         r"(Continue|Stop|Finish)\(left (&&|\\\|\\\|) right\)", txt):
        a, b, r, op = m.groups()
        op = "&&" if op == "&&" else "||"
        out[op][(V[a], V[b])] = V[r]
        out[op][(V[b], V[a])] = V[r]
    return out


def ids_condition_rule(ctx, rule="R15f"):
    """The `ids` condition compares the signed element id (node +n / edge -n share slot n): the closure that tests
    membership compares i64 values and uses no magnitude conversion (as_u64 / as_index / abs), otherwise a stale id of
    a removed element matches the new occupant of its slot."""
    fa = ctx.facts
    b = fa.body("agdb::db::DbImpl::evaluate_condition")
    if b is None:
        ctx.ob(rule, "anchor:evaluate_condition", False, "mechanism `DbImpl::evaluate_condition` not found",
               key="%s|%s|missing-anchor|evaluate_condition" % (ctx.pid, rule))
        return
    found = False
    for cb in fa.closures_of(b.path):
        if not any(common.norm(cfg.callee(t) or "").endswith("IndexedMapImpl::value") for i, t in cfg.calls(cb)):
            continue          # the ids closure resolves aliases
        found = True
        eqs = [s for bi, s in cfg.assigns(cb) if s["r"]["k"] == "bin" and s["r"]["op"] == "Eq"]
        signed = [s for s in eqs if all(cfg.op_place(o) and cb.local_ty(cfg.op_place(o)[0]) == "i64" for o in (s["r"]["a"], s["r"]["b"]))]
        mags = [cfg.callee(t) for i, t in cfg.calls(cb) if (cfg.callee(t) or "").endswith(("::as_u64", "::as_index", "::abs", "::unsigned_abs"))]
        ok = bool(signed) and not mags
        ctx.ob(rule, "evaluate_condition:ids-signed", ok,
               "ids are compared as signed i64 values" if ok else
               "the ids condition compares magnitudes (%s) instead of signed ids: a removed node's id matches the edge that "
               "re-used its slot (and vice versa)" % (mags or "no i64 equality found"), cb.where)
    if not found:
        ctx.ob(rule, "evaluate_condition:ids-signed", False, "ids membership closure not found (idiom not recognised)", b.where)


def _ref_step(result, mod, logic, control, dist0):
    """One condition of the documented evaluation: (variant, flag) x modifier x logic x (variant, flag) -> (variant, flag)."""
    rv, rb = result
    cv, cb = control
    if mod == "Beyond":
        cv, cb = ("Continue", rb) if (cb or dist0) else ("Stop", rb)
    elif mod == "NotBeyond":
        cv, cb = ("Stop", rb) if cb else ("Continue", rb)
    elif mod == "Not":
        cb = not cb
    names = {"C": "Continue", "F": "Finish", "S": "Stop"}
    if logic == "And":
        return (names[want_and(V[rv], V[cv])], rb and cb)
    return (names[want_or(V[rv], V[cv])], rb or cb)


def conditions_fold_rule(ctx, rule="R15g"):
    """evaluate_conditions folds EVERY condition into the result with the documented step
    (modifier applied to the condition's outcome, then `and` / `or` with the running result).  Decided by abstract
    interpretation of the whole function over one- and two-condition sequences whose modifier, logic and outcome range
    over all values (48 conditions x distance 0 / not 0, then all 6 running results x 48 x 2): skipping a condition
    ("short-circuit"), evaluating it with the wrong modifier or combining it with the wrong operator changes a row."""
    from lib import absint
    fa = ctx.facts
    b = ctx.anchor(rule, "agdb::db::DbImpl::evaluate_conditions")
    if not b:
        return
    ctrls = [(v, f) for v in ("Continue", "Finish", "Stop") for f in (True, False)]
    mods = ("None", "Not", "Beyond", "NotBeyond")
    logics = ("And", "Or")

    def run_seq(seq, dist):
        queue = list(range(len(seq)))

        def hook(interp, env, t, depth=0):
            n = cfg.callee(t) or ""
            d = cfg.callee_decl(t) or n
            if d.endswith("IntoIterator::into_iter") or last(d) in ("iter",):
                return ("sym", "iter")
            if d.endswith("Iterator::next"):
                if not queue:
                    return ("enum", "None", [])
                k = queue.pop(0)
                m, lg, c = seq[k]
                return ("enum", "Some", [("ref", ("struct", {"logic": ("enum", lg, []), "modifier": ("enum", m, []),
                                                             "data": ("sym", "data%d" % k)}))])
            if common.norm(n).endswith("DbImpl::evaluate_condition"):
                for a in t["a"]:
                    try:
                        v = interp.deref(interp.operand(env, a))
                    except absint.Unknown:
                        continue
                    if v[0] == "sym" and v[1].startswith("data"):
                        cv, cb = seq[int(v[1][4:])][2]
                        return ("enum", "Ok", [("enum", cv, [("bool", cb)])])
                raise absint.Unknown("evaluate_condition is not called with the condition's data")
            if fa.body(n) is not None:
                return absint.call_workspace(fa, interp, env, t, hook, depth)
            return None
        env = {}
        for k in range(1, b.d["argc"] + 1):
            ty = b.local_ty(k)
            env[k] = ("int", dist) if ty == "u64" else ("sym", "arg%d" % k)
        r = absint.Interp(b, {}, hook, max_steps=3000, fa=fa).run(env)
        if r[0] == "enum" and r[1] == "Ok" and r[2] and r[2][0][0] == "enum" and r[2][0][2] and r[2][0][2][0][0] == "bool":
            return (r[2][0][1], r[2][0][2][0][1])
        raise absint.Unknown("result %s" % absint.show(r))

    bad = None
    runs = 0
    try:
        for dist in (0, 1):
            for m in mods:
                for lg in logics:
                    for c in ctrls:
                        want = _ref_step(("Continue", True), m, lg, c, dist == 0)
                        got = run_seq([(m, lg, c)], dist)
                        runs += 1
                        if got != want and bad is None:
                            bad = "a single condition (modifier %s, logic %s, outcome %s(%s), distance %s) gives %s(%s), documented %s(%s)" % (
                                m, lg, c[0], str(c[1]).lower(), "0" if dist == 0 else ">0", got[0], str(got[1]).lower(), want[0], str(want[1]).lower())
        if bad is None:
            for dist in (0, 1):
                for r0 in ctrls:
                    for m in mods:
                        for lg in logics:
                            for c in ctrls:
                                want = _ref_step(r0, m, lg, c, dist == 0)
                                got = run_seq([("None", "And", r0), (m, lg, c)], dist)
                                runs += 1
                                if got != want and bad is None:
                                    bad = ("with the running result %s(%s), the condition (modifier %s, logic %s, outcome %s(%s), distance %s) "
                                           "gives %s(%s), documented %s(%s)" % (
                                               r0[0], str(r0[1]).lower(), m, lg, c[0], str(c[1]).lower(), "0" if dist == 0 else ">0",
                                               got[0], str(got[1]).lower(), want[0], str(want[1]).lower()))
    except absint.Unknown as e:
        bad = "idiom not recognised by the abstract interpreter (%s)" % e
    ctx.ob(rule, "evaluate_conditions:fold", bad is None,
           "%d abstract runs: every condition is folded into the result with the documented modifier / and / or step" % runs
           if bad is None else "DbImpl::evaluate_conditions: %s" % bad, b.where)
    if bad is None:
        ctx.floor(rule, "abstract runs of evaluate_conditions", runs, 672)
    return "unknown" if (bad or "").startswith("idiom not recognised") else ("bad" if bad else "ok")


def _keys_semantics(fa, b):
    """Decide the `Keys` arm by abstract interpretation of evaluate_condition: the condition lists 0, 1 or 2 opaque keys,
    each contained / not contained in the element's keys; the outcome must be Continue(all contained).  Returns
    (None, runs) when every row agrees, (text, runs) for the first wrong row; raises absint.Unknown for an idiom the
    interpreter does not know."""
    from lib import absint
    runs = 0
    for n in (0, 1, 2):
        for mask in range(1 << n):
            contained = [bool(mask >> k & 1) for k in range(n)]
            queue = {"pos": 0}

            def hook(interp, env, t, depth=0):
                nm = cfg.callee(t) or ""
                d = cfg.callee_decl(t) or nm
                lastn = last(d)
                args = t["a"]

                def val(k):
                    return interp.deref(interp.operand(env, args[k]))
                if common.norm(nm).endswith("DbKeyValues::keys"):
                    return ("enum", "Ok", [("sym", "element-keys")])
                if lastn in ("iter", "into_iter") and args and val(0) == ("sym", "payload"):
                    return ("sym", "iter:payload")
                if lastn in ("deref", "as_slice", "as_ref", "borrow") and args and val(0)[0] == "sym":
                    return interp.operand(env, args[0])
                if d.endswith("Iterator::next") and val(0) == ("sym", "iter:payload"):
                    k = queue["pos"]
                    if k >= n:
                        return ("enum", "None", [])
                    queue["pos"] = k + 1
                    return ("enum", "Some", [("ref", ("sym", "key%d" % k))])
                if lastn in ("all", "any") and d.endswith(("Iterator::all", "Iterator::any")) and val(0) == ("sym", "iter:payload"):
                    out = lastn == "all"
                    while queue["pos"] < n:
                        k = queue["pos"]
                        queue["pos"] = k + 1
                        r = absint.call_closure(fa, interp, interp.operand(env, args[1]), [("ref", ("sym", "key%d" % k))], hook, depth)
                        if r[0] != "bool":
                            raise absint.Unknown("closure result %s" % (r,))
                        if lastn == "all" and not r[1]:
                            return ("bool", False)
                        if lastn == "any" and r[1]:
                            return ("bool", True)
                    return ("bool", out)
                if lastn == "contains" and len(args) == 2:
                    a0, a1 = val(0), val(1)
                    if a0 == ("sym", "element-keys") and a1[0] == "sym" and a1[1].startswith("key"):
                        return ("bool", contained[int(a1[1][3:])])
                    raise absint.Unknown("contains(%s, %s)" % (a0, a1))
                if fa.body(nm) is not None and not common.norm(nm).endswith(("evaluate_conditions",)):
                    try:
                        return absint.call_workspace(fa, interp, env, t, hook, depth)
                    except absint.Unknown:
                        return ("sym", "opaque")       # an opaque value cannot be branched on (that raises Unknown)
                return None
            env = {}
            for k in range(1, b.d["argc"] + 1):
                env[k] = ("sym", "arg%d" % k)
            env[b.d["argc"]] = ("ref", ("enum", "Keys", [("sym", "payload")]))
            r = absint.Interp(b, {}, hook, max_steps=3000, fa=fa).run(env)
            runs += 1
            want = all(contained)
            ok = r[0] == "enum" and r[1] == "Ok" and r[2] and r[2][0] == ("enum", "Continue", [("bool", want)])
            if not ok:
                return ("with %d listed key(s) of which %s are among the element's keys the outcome is %s, documented Continue(%s)" % (
                    n, [k for k in range(n) if contained[k]] or "none", absint.show(r), str(want).lower()), runs)
    return (None, runs)


def keys_condition_rule(ctx, rule="R15h"):
    """`keys(k1..kn)` holds iff EVERY listed key is among the element's keys: in the `Keys` arm of evaluate_condition the
    flag is `values.all(|k| element_keys.contains(k))` (or the De Morgan form with `any`), where the iterated values are
    the condition's payload and the searched collection is the result of DbKeyValues::keys(index).  A count of matches
    compared with a length is not the same predicate (keys may repeat on either side)."""
    fa = ctx.facts
    b = ctx.anchor(rule, "agdb::db::DbImpl::evaluate_condition")
    if not b:
        return
    # first: the semantics of the arm, whatever its spelling (iterator adaptor, explicit loop, helper)
    from lib import absint
    try:
        bad, runs = _keys_semantics(fa, b)
        ctx.ob(rule, "evaluate_condition:keys-all-contained", bad is None,
               "Keys => Continue(every listed key is among DbKeyValues::keys(index)) in all %d abstract rows (0-2 keys)" % runs
               if bad is None else
               "DbImpl::evaluate_condition: the `keys` condition is no longer `all listed keys are among the element's keys`: %s" % bad,
               b.where)
        return
    except absint.Unknown as e:
        unknown = str(e)
    # fallback: the two iterator idioms, read structurally
    sw = None
    for i, blk in enumerate(b.blocks):
        t = blk["term"]
        if t["k"] != "switch":
            continue
        pl = cfg.op_place(t["d"])
        ds = cfg.defs(b).get(pl[0], []) if pl else []
        if ds and ds[0][0] == "assign" and ds[0][2]["k"] == "discr" and last(ds[0][2].get("enum")) == "QueryConditionData":
            names = dict((v, n) for v, n in ds[0][2]["variants"])
            if "Keys" in names.values():
                sw = (i, t, names)
                break
    why = "match on QueryConditionData not found"
    ok = False
    if sw:
        i0, t0, names = sw
        start = [tb for v, tb in t0["ts"] if names.get(v) == "Keys"]
        others = [tb for v, tb in t0["ts"] if names.get(v) != "Keys"] + ([t0["else"]] if t0.get("else") is not None else [])
        reg = cfg.reachable(b, start, avoid=[i0])[0] - cfg.reachable(b, [o for o in others if o not in start], avoid=[i0])[0] \
            if start else set()
        why = "the `Keys` arm has no `all` / `any` over the condition's keys"
        for i, t in cfg.calls(b):
            nm = last(cfg.callee_decl(t) or cfg.callee(t) or "")
            if i not in reg or nm not in ("all", "any") or len(t["a"]) < 2:
                continue
            want = 0 if nm == "all" else 1
            # the iterated values are the condition's payload
            sl, calls_in, _ = cfg.backward_slice(b, [cfg.op_place(t["a"][0])[0]])
            payload = any("as Keys" in [e for e in (cfg.op_place(o) or [])[1:] if isinstance(e, str)]
                          for l in sl for d in cfg.defs(b).get(l, []) if d[0] in ("assign", "partial")
                          for o in cfg.rvalue_operands(d[2])) or \
                any(d[0] in ("assign", "partial") and d[2]["k"] in ("ref", "discr") and "as Keys" in d[2].get("p", [])
                    for l in sl for d in cfg.defs(b).get(l, []))
            # the closure tests membership in the element's keys
            cpl = cfg.op_place(t["a"][1])
            cdef = [d for d in cfg.defs(b).get(cfg.origin(b, cpl)[0], []) if d[0] == "assign" and d[2]["k"] == "agg" and
                    d[2].get("what") == "closure"] if cpl else []
            member = from_keys = False
            if cdef:
                cb = fa.body(cdef[0][2]["def"])
                csl, ccalls, _ = cfg.backward_slice(b, [cfg.origin(b, cpl)[0]])
                from_keys = any(common.norm(cfg.callee(tt) or "").endswith("DbKeyValues::keys") for j, tt in ccalls)
                if cb:
                    for j, tt in cfg.calls(cb):
                        if last(cfg.callee_decl(tt) or cfg.callee(tt) or "") == "contains":
                            der = cfg.derived_locals(cb, [tt["d"][0]])
                            if der.get(0) == want:
                                member = True
            # the flag of the arm's SearchControl is that result
            der = cfg.derived_locals(b, [t["d"][0]])
            flag = any(bi in reg and st["r"]["k"] == "agg" and st["r"].get("adt") == SC and
                       cfg.op_place(st["r"]["ops"][0]) and der.get(cfg.op_place(st["r"]["ops"][0])[0]) == want
                       for bi, st in cfg.assigns(b) if st["r"]["k"] == "agg" and st["r"].get("ops"))
            if payload and member and from_keys and flag:
                ok = True
            else:
                why = ("`%s` at %s: iterates the condition's keys: %s; closure is `%scontains` on the element's keys: %s / %s; "
                       "its result is the arm's flag: %s" % (nm, b.loc(i), payload, "!" if want else "", member, from_keys, flag))
    ctx.ob(rule, "evaluate_condition:keys-all-contained", ok,
           "Keys => every key of the condition is contained in DbKeyValues::keys(index)" if ok else
           "DbImpl::evaluate_condition: the `keys` condition is no longer `all listed keys are among the element's keys` (%s); "
           "accepted idioms: values.iter().all(|k| keys.contains(k)) and its `any` dual; the abstract interpreter stopped at: %s" % (why, unknown), b.where)


def run(ctx):
    fa = ctx.facts
    docs = docs_tables(getattr(ctx, "repo", "/repo"))
    ids_condition_rule(ctx)
    fold = conditions_fold_rule(ctx)
    keys_condition_rule(ctx)
    # ---------------- R15a: the documented truth tables of `and` / `or`, evaluated abstractly (lib/absint.py) for every
    # pair of variants and every pair of flags; the spelling of the match does not matter
    from lib import absint as _ai
    names = {"C": "Continue", "F": "Finish", "S": "Stop"}
    for fn, want, op in (("and", want_and, "And"), ("or", want_or, "Or")):
        b = ctx.anchor("R15a", SC + "::" + fn)
        if not b:
            continue
        for l in "CFS":
            for r in "CFS":
                got = set()
                detail = None
                for x in (True, False):
                    for y in (True, False):
                        try:
                            v = _ai.Interp(b).run({1: ("enum", names[l], [("bool", x)]), 2: ("enum", names[r], [("bool", y)])})
                            flag = v[2][0][1] if v[0] == "enum" and v[2] and v[2][0][0] == "bool" else None
                            got.add((V.get(v[1]) if v[0] == "enum" else None, flag == ((x and y) if op == "And" else (x or y))))
                        except _ai.Unknown as e:
                            got.add((None, False))
                            detail = str(e)
                ok = got == {(want(l, r), True)}
                ctx.ob("R15a", "%s(%s,%s)" % (fn, l, r), ok,
                       "-> %s(left %s right)" % (want(l, r), "&&" if op == "And" else "||") if ok else
                       "SearchControl::%s row (%s,%s) yields %s (variant, flag correct), documented %s(left %s right)%s" % (
                           fn, l, r, sorted(got, key=str), want(l, r), "&&" if op == "And" else "||",
                           ("; idiom not recognised: " + detail) if detail else ""), b.where)
                if docs:
                    d = docs["&&" if op == "And" else "||"].get((l, r))
                    if d is not None and d != want(l, r):
                        ctx.note("documentation table row (%s,%s) for `%s` says %s but the frozen table says %s" % (l, r, fn, d, want(l, r)))
    if docs:
        ctx.note("documentation truth tables parsed: %d and-rows, %d or-rows" % (len(docs["&&"]), len(docs["||"])))

    # ---------------- R15b: decision tables by abstract interpretation (lib/absint.py): the inputs are opaque symbols,
    # only the assumed order of (measured value, condition value) is known; every spelling of the table evaluates alike
    from lib import absint
    variants = list(DIST)
    b = ctx.anchor("R15b", QC + "CountComparison::compare_distance")
    if b:
        for vname in variants:
            for okey, oname in (("L", "Less"), ("E", "Equal"), ("G", "Greater")):
                want = DIST[vname][oname]
                try:
                    it = absint.Interp(b, orders={("distance", "value"): okey})
                    v = it.run({1: ("ref", ("enum", vname, [("sym", "value")])), 2: ("sym", "distance")})
                    got = (V.get(v[1]), v[2][0][1]) if v[0] == "enum" and v[2] and v[2][0][0] == "bool" else absint.show(v)
                    detail = None
                except absint.Unknown as e:
                    got, detail = None, "idiom not recognised: %s" % e
                ok = got == want
                ctx.ob("R15b", "compare_distance[%s][%s]" % (vname, oname), ok,
                       "-> %s(%s)" % want if ok else "distance comparison %s with distance %s value yields %s, expected %s%s" % (
                           vname, {"L": "<", "E": "==", "G": ">"}[okey], got, want, (" (" + detail + ")") if detail else ""), b.where)
    b = ctx.anchor("R15b", QC + "CountComparison::compare")
    if b:
        import operator
        pyop = {"Eq": operator.eq, "Ne": operator.ne, "Lt": operator.lt, "Le": operator.le, "Gt": operator.gt, "Ge": operator.ge}
        for vname, op in CMP_OP.items():
            got = {}
            detail = None
            for okey, n in (("L", -1), ("E", 0), ("G", 1)):
                try:
                    it = absint.Interp(b, orders={("count", "value"): okey})
                    v = it.run({1: ("ref", ("enum", vname, [("sym", "value")])), 2: ("sym", "count")})
                    got[okey] = v[1] if v[0] == "bool" else absint.show(v)
                except absint.Unknown as e:
                    got[okey] = None
                    detail = "idiom not recognised: %s" % e
            want = {"L": pyop[op](-1, 0), "E": pyop[op](0, 0), "G": pyop[op](1, 0)}
            ok = got == want
            ctx.ob("R15b", "compare[%s]" % vname, ok, "count %s value" % op if ok else
                   "count comparison %s evaluates to %s for count <,==,> value; expected `count %s value` = %s%s" % (
                       vname, got, op, want, (" (" + detail + ")") if detail else ""), b.where)

    # ---------------- R15c
    # (R15g decides the same arms exhaustively; the per-arm reading below only adds a more local diagnosis when the
    # abstract interpreter does not recognise the function's idiom)
    b = ctx.anchor("R15c", "agdb::db::DbImpl::evaluate_conditions") if fold == "unknown" else None
    if fold != "unknown":
        ctx.note("R15c: modifier arms and logic dispatch are decided by R15g (%s)" % fold)
    if b:
        sw = None
        for i, blk in enumerate(b.blocks):
            t = blk["term"]
            if t["k"] != "switch":
                continue
            pl = cfg.op_place(t["d"])
            ds = cfg.defs(b).get(pl[0], []) if pl else []
            if ds and ds[0][0] == "assign" and ds[0][2]["k"] == "discr" and last(ds[0][2].get("enum")) == "QueryConditionModifier":
                sw = (i, t, dict((v, n) for v, n in ds[0][2]["variants"]))
        if not sw:
            ctx.ob("R15c", "modifiers", False, "match on condition.modifier not found (idiom not recognised)", b.where)
        else:
            i0, t0, names = sw
            regions = {}
            for v, tb in t0["ts"]:
                regions[names.get(v, "?")] = cfg.reachable(b, [tb], avoid=[i0])[0]
            excl = {}
            for n_, r in regions.items():
                others = set().union(*[x for m_, x in regions.items() if m_ != n_]) if len(regions) > 1 else set()
                other_else = cfg.reachable(b, [t0["else"]], avoid=[i0])[0]
                excl[n_] = r - others - other_else

            def aggs(region, variant):
                return [bi for bi, s in cfg.assigns(b) if bi in region and s["r"]["k"] == "agg" and
                        s["r"].get("adt") == SC and s["r"].get("variant") == variant]

            def is_true_switch(region):
                for bi, t in cfg.calls(b):
                    if bi in region and cfg.callee(t) == SC + "::is_true":
                        # the tested control value must be the freshly evaluated condition, not `result`
                        o = cfg.op_origin(b, t["a"][0])
                        dc = cfg.def_call(b, o[0]) if o else None
                        sws = cfg.bool_switches(b, cfg.derived_locals(b, [t["d"][0]]))
                        if sws:
                            return sws[0]
                return None
            # truth table of each arm, by path-sensitive exploration of the arm (atoms: control.is_true(); any other
            # boolean, i.e. `distance == 0`, is free): which SearchControl variant is assigned under which outcome
            for mod in ("Beyond", "NotBeyond"):
                reg = excl.get(mod, set())
                start = [x for v, x in t0["ts"] if names.get(v) == mod]
                atoms = {}
                for bi, t in cfg.calls(b):
                    if bi in reg and cfg.callee(t) == SC + "::is_true":
                        sws = cfg.bool_switches(b, cfg.derived_locals(b, [t["d"][0]]))
                        if sws:
                            atoms[bi] = "is_true"
                ok = bool(atoms and start)
                detail = "arm `%s` has no is_true() test (idiom not recognised)" % mod
                if ok:
                    try:
                        paths = cfg.bool_explore(b, start, [i0], atoms)
                    except ValueError as e:
                        paths = None
                        detail = "arm `%s` could not be explored (%s)" % (mod, e)
                    table = {}
                    if paths is not None:
                        for asg, trail in paths:
                            variants = [s_["r"].get("variant") for bi in trail for s_ in b.blocks[bi]["s"]
                                        if "r" in s_ and s_["r"]["k"] == "agg" and s_["r"].get("adt") == SC]
                            free = tuple(sorted(v for k, v in asg.items() if k != "is_true"))
                            table.setdefault((asg.get("is_true"), free), set()).add(variants[-1] if variants else None)
                        outcomes = {}
                        for (it, free), vs in table.items():
                            outcomes.setdefault(it, set()).update(vs)
                        if mod == "Beyond":
                            # is_true => Continue always; !is_true => Stop for some value of the free test (distance != 0)
                            # and Continue for the other (distance == 0)
                            ok = outcomes.get(True) == {"Continue"} and outcomes.get(False) == {"Continue", "Stop"}
                        else:
                            ok = outcomes.get(True) == {"Stop"} and outcomes.get(False) == {"Continue"}
                        detail = ("%s: %s" % (mod, "Continue when the condition holds or at distance 0, Stop otherwise" if mod == "Beyond"
                                              else "Stop when the condition holds, Continue otherwise") if ok else
                                  "modifier `%s` no longer maps condition true/false to the documented Continue/Stop "
                                  "(outcomes by is_true: %s)" % (mod, {k: sorted(map(str, v)) for k, v in outcomes.items()}))
                ctx.ob("R15c", "modifier[%s]" % mod, ok, detail, b.where)
            reg = excl.get("Not", set())
            ok = any(bi in reg and cfg.callee(t) == SC + "::flip" for bi, t in cfg.calls(b))
            ctx.ob("R15c", "modifier[Not]", ok, "Not => flip()" if ok else "modifier `Not` no longer flips the control value", b.where)
        ms = [m for m in fa.matches(b.path) if m["scrut_ty"].endswith("QueryConditionLogic")]
        tbl = {last(a["p"].get("path")): {last(common.norm(c)) for c in a["body"]["calls"] if common.norm(c).startswith(SC)} for a in (ms[0]["arms"] if ms else [])}
        ok = tbl.get("And") == {"and"} and tbl.get("Or") == {"or"}
        ctx.ob("R15c", "logic", ok, "And => and(), Or => or()" if ok else "logic dispatch broken: %s" % tbl, b.where)

    # ---------------- R15d
    b = ctx.anchor("R15d", QC + "Comparison::compare")
    if b:
        def same_variant_test(n, t, body):
            fb = fa.body(n)
            if fb is None:
                return False
            nd = len([1 for i, tt in cfg.calls(fb) if (cfg.callee_decl(tt) or "") == "std::mem::discriminant"])
            return nd >= 2
        guards = []
        for i, t in cfg.calls(b):
            if same_variant_test(cfg.callee(t) or "", t, b):
                for sw in cfg.bool_switches(b, cfg.derived_locals(b, [t["d"][0]])):
                    guards.append(("same-variant test %s" % last(cfg.callee(t)), sw["true_edge"]))
        # inline form: discriminant(..) == discriminant(..)
        nd = [i for i, t in cfg.calls(b) if (cfg.callee_decl(t) or "") == "std::mem::discriminant"]
        if len(nd) >= 2:
            for i, t in cfg.calls(b):
                if (cfg.callee_decl(t) or "").endswith("PartialEq::eq") and "Discriminant" in (cfg.callee_full(t) or ""):
                    for sw in cfg.bool_switches(b, cfg.derived_locals(b, [t["d"][0]])):
                        guards.append(("inline discriminant equality", sw["true_edge"]))
        n = 0
        for i, t in cfg.calls(b):
            d = cfg.callee_decl(t) or ""
            full = cfg.callee_full(t) or ""
            if d.startswith("std::cmp::PartialOrd::") and "DbValue as std::cmp::PartialOrd" in full:
                n += 1
                g = None
                for desc, e in guards:
                    if cfg.find_path(b, [0], [i], removed_edges=[e]) is None:
                        g = desc
                ctx.ob("R15d", "compare:%s#%d" % (last(d), n), g is not None,
                       "ordering of DbValue reachable only after %s" % g if g else
                       "derived ordering `DbValue::%s` (orders by variant first) is reachable without a same-variant "
                       "test: values of different types compare as ordered" % last(d), b.loc(i),
                       key="%s|R15d|Comparison::compare|%s" % (ctx.pid, last(d)))
        ctx.ob("R15d", "compare:ordering-idiom", n >= 4,
               "the four ordering comparisons call DbValue's PartialOrd directly (guarded, see above)" if n >= 4 else
               "the ordering comparisons of Comparison::compare are implemented through an idiom this rule does not "
               "recognise (%d direct `DbValue: PartialOrd` calls found, 4 expected): type strictness of <, <=, >, >= cannot "
               "be established (accepted idioms: same-variant test && derived ordering; ordering of payloads inside a "
               "same-variant match)" % n, b.where)

        # ---------------- R15e
        ms = fa.matches(b.path)
        outer = [m for m in ms if m["scrut_ty"].endswith("Comparison")]
        inner = [m for m in ms if m["scrut_ty"].count("DbValue") == 2]
        if outer:
            arms = outer[0]["arms"]
            for k, a in enumerate(arms):
                vname = last(a["p"].get("path"))
                if vname not in ("Contains", "StartsWith", "EndsWith"):
                    continue
                lo, hi = a["line"], (arms[k + 1]["line"] if k + 1 < len(arms) else 10 ** 9)
                im = [m for m in inner if lo <= m["line"] < hi]
                pairs = set()
                wild_false = False
                if im:
                    for ia in im[0]["arms"]:
                        for p in flatten_or(ia["p"]):
                            if p["k"] == "tuple" and len(p["sub"]) == 2 and all(s.get("path") for s in p["sub"]):
                                pairs.add((last(p["sub"][0]["path"]), last(p["sub"][1]["path"])))
                            elif p["k"] == "wild":
                                wild_false = lit_bool(ia["body"]) is False
                ok = pairs == PAIRS and wild_false
                ctx.ob("R15e", "compare[%s]:pairs" % vname, ok,
                       "10 documented (left,right) type pairs, everything else false" if ok else
                       "%s accepts type pairs %s (extra %s, missing %s; `_ => false`: %s)" % (
                           vname, len(pairs), sorted(pairs - PAIRS), sorted(PAIRS - pairs), wild_false), "%s:%d" % (b.file, lo))
        # Equal / NotEqual use derived PartialEq of DbValue (type strict by construction)
        eqs = [1 for i, t in cfg.calls(b) if (cfg.callee_decl(t) or "").startswith("std::cmp::PartialEq::") and
               "DbValue as std::cmp::PartialEq" in (cfg.callee_full(t) or "")]
        ctx.ob("R15d", "compare:equality-derived", len(eqs) >= 2, "Equal/NotEqual use derived PartialEq (variant + payload)"
               if len(eqs) >= 2 else "Equal/NotEqual no longer use DbValue's derived equality", b.where)
    # the extent of a traversal under Stop / Continue is decided by the expand siblings and SearchImpl's dispatch
    # (a Stop at an edge must prune only what lies beyond that edge): re-evaluate C14's rules under this property
    from rules import C14
    C14.run(ctx)
    # pruning (`not_beyond` / `beyond`: Stop) must survive the limit/offset handlers (R16e, shared with C16)
    from rules import C16
    C16.handler_control_rule(ctx)
    return 0
