"""C32 — a failed write never corrupts or loses later committed work."""
from lib import cfg
from rules import common

CRATES = ("agdb",)
EXPLANATION = (
    "Static PAIR rule over MIR CFGs: every path from a storage-transaction begin (Storage::transaction and its two "
    "forwarding aliases) to an *error* exit of the same function must pass the matching commit, otherwise the nesting "
    "counter stays raised, no later commit reaches zero, the write-ahead log is never purged and drop/reopen undoes "
    "all later work. Plus: transaction_mut rolls back on the closure's Err edge.")
DECIDED = ["R32 PAIR(error): begin/commit pairing on every error exit (one key per bracketing function)",
           "R32b transaction_mut calls rollback when the closure fails",
           "R04c the compaction pass is one storage transaction ending in truncate + clear_free (shared with C04)"]
UNDECIDED = ["state of in-memory tables vs file after the fault (a correct abort must also undo in-memory structures)"]


def run(ctx):
    common.pair_rule(ctx, "R32", classes=("error",))
    b = ctx.anchor("R32b", "agdb::db::DbImpl::transaction_mut")
    if b:
        rb = cfg.call_blocks(b, ["agdb::transaction_mut::TransactionMut::rollback"])
        cm = cfg.call_blocks(b, ["agdb::transaction_mut::TransactionMut::commit"])
        # the is_ok() test on the closure result selects commit vs rollback
        sws = []
        for i, t in cfg.calls(b):
            if (cfg.callee(t) or "").endswith("::is_ok"):
                sws += cfg.bool_switches(b, cfg.derived_locals(b, [t["d"][0]]))
        ok = bool(rb) and bool(cm) and bool(sws)
        if ok:
            sw = sws[0]
            ok = (cfg.find_path(b, [0], rb, removed_edges=[sw["false_edge"]]) is None and
                  cfg.find_path(b, [0], cm, removed_edges=[sw["true_edge"]]) is None)
            # and on the false edge every path to return passes rollback
            ok = ok and cfg.must_pass(b, [sw["false_edge"][1]], rb, cfg.return_blocks(b))[0]
        ctx.ob("R32b", "transaction_mut:rollback-on-Err", ok,
               "closure Err => TransactionMut::rollback on every path; Ok => commit" if ok else
               "transaction_mut does not reach rollback on every path after the closure failed", b.where)
    # a write failure during the close-time compaction must undo the whole pass (R04c, shared with C04)
    from rules import C04
    C04.optimize_rule(ctx)
    return 0
