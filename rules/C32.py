"""C32 — a failed write never corrupts or loses later committed work."""
from lib import cfg
from rules import common

CRATES = ("agdb",)
EXPLANATION = (
    "Static PAIR rule over MIR CFGs: every path from a storage-transaction begin (Storage::transaction and its two "
    "forwarding aliases) to an *error* exit of the same function must pass the matching commit, otherwise the nesting "
    "counter stays raised, no later commit reaches zero, the write-ahead log is never purged and drop/reopen undoes "
    "all later work. Plus: transaction_mut rolls back on the closure's Err edge.")
DECIDED = ["R32 PAIR(error): begin/commit pairing on every error exit (one key per bracketing function)",
           "R32b transaction_mut calls rollback when the closure fails",
           "R32c the mirrored storage reports the length of the copy it updates last (order read from write / resize)",
           "R04c the compaction pass is one storage transaction ending in truncate + clear_free (shared with C04)"]
UNDECIDED = ["state of in-memory tables vs file after the fault (a correct abort must also undo in-memory structures)"]


MM = "<agdb::storage::file_storage_memory_mapped::FileStorageMemoryMapped as agdb::storage::StorageData>::"


def mirror_length_rule(ctx, rule="R32c"):
    """The memory-mapped storage keeps two copies and updates them one after the other in write() / resize(); a failure
    of the second update leaves the first copy changed.  Its len() therefore has to come from the copy that is updated
    LAST (then a failed write cannot have changed the reported length, and the next append does not start beyond the
    real end of the file).  The order is read from write() / resize(), not frozen."""
    fa = ctx.facts

    def member_of(t):
        n = cfg.callee(t) or ""
        return "file" if "file_storage::FileStorage as" in n else ("memory" if "memory_storage::MemoryStorage as" in n else None)

    def members(b):
        """(block, copy) for every call into one of the two copies; a call made inside a closure counts at the block
        that receives the closure (`a.and_then(|_| b)`)"""
        out = []
        for i, t in cfg.calls(b):
            m = member_of(t)
            if m:
                out.append((i, m))
            for a in t["a"]:
                pl = cfg.op_place(a)
                for d in (cfg.defs(b).get(cfg.origin(b, pl)[0], []) if pl else []):
                    if d[0] == "assign" and d[2]["k"] == "agg" and d[2].get("what") == "closure":
                        cb = fa.body(d[2]["def"])
                        for j, tt in (cfg.calls(cb) if cb else []):
                            if member_of(tt):
                                out.append((i, member_of(tt)))
        return out
    lb = ctx.anchor(rule, MM + "len")
    last_of = {}
    for fn in ("write", "resize"):
        b = ctx.anchor(rule, MM + fn)
        if not b:
            return
        ms = members(b)
        # the member none of the other member calls can follow
        final = [m for i, m in ms if not any(j != i and j in cfg.reachable(b, cfg.succs(b, i))[0] for j, m2 in ms)]
        last_of[fn] = final[0] if len(final) == 1 and len({m for i, m in ms}) == 2 else None
    if not lb:
        return
    src = {m for i, m in members(lb)}
    auth = last_of["write"] if last_of["write"] == last_of["resize"] else None
    ok = auth is not None and src == {auth}
    ctx.ob(rule, "FileStorageMemoryMapped::len:from-the-copy-updated-last", ok,
           "write() / resize() update `%s` last and len() reports `self.%s.len()`" % (auth, auth) if ok else
           "FileStorageMemoryMapped: write() updates %s last, resize() updates %s last, but len() is taken from %s: after a "
           "failed update of the second copy the storage reports a length the file does not have (the failed write has an "
           "effect, later appends land beyond the end of the file)" % (last_of["write"], last_of["resize"], sorted(src) or "?"),
           lb.where)


def run(ctx):
    common.pair_rule(ctx, "R32", classes=("error",))
    b = ctx.anchor("R32b", "agdb::db::DbImpl::transaction_mut")
    if b:
        rb = cfg.call_blocks(b, ["agdb::transaction_mut::TransactionMut::rollback"])
        cm = cfg.call_blocks(b, ["agdb::transaction_mut::TransactionMut::commit"])
        # the test of the closure's result (is_ok()/is_err() or a match on it) selects commit vs rollback
        fcalls = [t["d"][0] for i, t in cfg.calls(b) if (cfg.callee_decl(t) or cfg.callee(t) or "").endswith(
            ("ops::FnOnce::call_once", "ops::FnMut::call_mut", "ops::Fn::call"))]
        tests = cfg.result_edges(b, fcalls) if fcalls else []
        ok = bool(rb) and bool(cm) and bool(tests)
        if ok:
            # some test of the result separates the two: rollback only on its Err side, commit only on its Ok side,
            # and from the Err edge every path to a return passes rollback
            ok = any(cfg.find_path(b, [0], rb, removed_edges=[te["err_edge"]]) is None and
                     cfg.find_path(b, [0], cm, removed_edges=[te["ok_edge"]]) is None and
                     cfg.must_pass(b, [te["err_edge"][1]], rb, cfg.return_blocks(b))[0] for te in tests)
        ctx.ob("R32b", "transaction_mut:rollback-on-Err", ok,
               "closure Err => TransactionMut::rollback on every path; Ok => commit" if ok else
               "transaction_mut does not reach rollback on every path after the closure failed", b.where)
    # a write failure during the close-time compaction must undo the whole pass (R04c, shared with C04)
    from rules import C04
    C04.optimize_rule(ctx)
    mirror_length_rule(ctx)
    return 0
