"""C32 — a failed write never corrupts or loses later committed work."""
from lib import cfg
from rules import common

CRATES = ("agdb",)
EXPLANATION = (
    "Static PAIR rule over MIR CFGs: every path from a storage-transaction begin (Storage::transaction and its two "
    "forwarding aliases) to an *error* exit of the same function must pass the matching commit, otherwise the nesting "
    "counter stays raised, no later commit reaches zero, the write-ahead log is never purged and drop/reopen undoes "
    "all later work. Plus: transaction_mut rolls back on the closure's Err edge.")
DECIDED = ["R32 PAIR(error): begin/commit pairing on every error exit (one key per bracketing function)",
           "R32b transaction_mut calls rollback when the closure fails",
           "R04c the compaction pass is one storage transaction ending in truncate + clear_free (shared with C04)"]
UNDECIDED = ["state of in-memory tables vs file after the fault (a correct abort must also undo in-memory structures)"]


def run(ctx):
    common.pair_rule(ctx, "R32", classes=("error",))
    b = ctx.anchor("R32b", "agdb::db::DbImpl::transaction_mut")
    if b:
        rb = cfg.call_blocks(b, ["agdb::transaction_mut::TransactionMut::rollback"])
        cm = cfg.call_blocks(b, ["agdb::transaction_mut::TransactionMut::commit"])
        # the test of the closure's result (is_ok()/is_err() or a match on it) selects commit vs rollback
        fcalls = [t["d"][0] for i, t in cfg.calls(b) if (cfg.callee_decl(t) or cfg.callee(t) or "").endswith(
            ("ops::FnOnce::call_once", "ops::FnMut::call_mut", "ops::Fn::call"))]
        tests = cfg.result_edges(b, fcalls) if fcalls else []
        ok = bool(rb) and bool(cm) and bool(tests)
        if ok:
            # some test of the result separates the two: rollback only on its Err side, commit only on its Ok side,
            # and from the Err edge every path to a return passes rollback
            ok = any(cfg.find_path(b, [0], rb, removed_edges=[te["err_edge"]]) is None and
                     cfg.find_path(b, [0], cm, removed_edges=[te["ok_edge"]]) is None and
                     cfg.must_pass(b, [te["err_edge"][1]], rb, cfg.return_blocks(b))[0] for te in tests)
        ctx.ob("R32b", "transaction_mut:rollback-on-Err", ok,
               "closure Err => TransactionMut::rollback on every path; Ok => commit" if ok else
               "transaction_mut does not reach rollback on every path after the closure failed", b.where)
    # a write failure during the close-time compaction must undo the whole pass (R04c, shared with C04)
    from rules import C04
    C04.optimize_rule(ctx)
    return 0
