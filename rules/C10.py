"""C10 — aliases form a one-to-one mapping onto existing nodes."""
from lib import cfg
from rules import common

CRATES = ("agdb",)
EXPLANATION = (
    "Static analysis: (R10a) the bidirectional map updates both directions together: IndexedMapImpl::insert inserts into "
    "both maps on every success path and removes both displaced entries, remove_key/remove_value remove from both; "
    "(R10b) every call site of the alias-creating primitives DbImpl::insert_alias / insert_new_alias is guarded by an "
    "emptiness test of the alias and a node-ness test of the id (or the id is the fresh result of insert_node); "
    "(R10c) removing a node removes its alias first (remove_id passes aliases.key(id) into remove_node, which removes it).")
DECIDED = ["R10a both directions of the alias map are updated together (MUST)",
           "R10b only non-empty aliases, only for nodes (DOM, cut-set over guards incl. closures)",
           "R10c node removal removes its alias (MUST + value flow)",
           "R13f undo commands in mutation order (shared with C13)",
           "R19t slot states of the hash tables are written only by insert / remove / full rehash (WHO table, shared)",
           "R10d aliases resolve only through the bidirectional map (backward data slice of db_id's success values)",
           "R19u a capacity change of a hash table runs the full rebuild (shared)"]
UNDECIDED = ["contents of the alias map over histories (needs execution)"]

IM = "agdb::collections::indexed_map::IndexedMapImpl::"
MAP = "agdb::collections::map::MapImpl::"
DB = "agdb::db::DbImpl::"


def field_calls(b):
    out = []
    for i, t in cfg.calls(b):
        if not t["a"]:
            continue
        o = cfg.op_origin(b, t["a"][0])
        n = common.norm(cfg.callee(t) or "")
        if o and o[0] == 1 and o[1] and n.startswith(MAP):
            out.append((i, o[1][0][1:], n[len(MAP):]))
    return out


def resolution_rule(ctx, rule="R10d"):
    """An alias resolves through the one bidirectional map and nothing else: every success value of DbImpl::db_id is
    computed from `self.aliases.value(..)` (alias) or from graph_index (numeric id).  A second source - a cache of earlier
    look-ups - has to be kept in step with every alias mutation and rollback; one missed eviction makes an alias resolve to
    a node that no longer holds it."""
    b = ctx.anchor(rule, DB + "db_id")
    if not b:
        return
    okb, errb, unk = cfg.ret_class_blocks(b)
    bad = []
    n = 0
    for bi in okb + unk:
        for st in b.blocks[bi]["s"]:
            if "l" in st and st["l"] == [0]:
                n += 1
                ops = [cfg.op_place(o) for o in cfg.rvalue_operands(st["r"])]
                seeds = [pl[0] for pl in ops if pl]
                sl, calls_in, _rd = cfg.backward_slice(b, seeds) if seeds else (set(), [], set())
                names = {common.norm(cfg.callee(t) or "") for i, t in calls_in}
                if not ({IM + "value", DB + "graph_index"} & names):
                    bad.append(b.loc(bi))
        t = b.blocks[bi]["term"]
        if t["k"] == "call" and t["d"] == [0]:
            n += 1
            if common.norm(cfg.callee(t) or "") not in (IM + "value", DB + "graph_index"):
                sl, calls_in, _rd = cfg.backward_slice(b, [0])
                names = {common.norm(cfg.callee(x) or "") for i, x in calls_in}
                if not ({IM + "value", DB + "graph_index"} & names):
                    bad.append(b.loc(bi))
    ctx.ob(rule, "db_id:resolves-through-the-map", n > 0 and not bad,
           "every success value comes from aliases.value(..) / graph_index(..)" if n > 0 and not bad else
           "DbImpl::db_id can return an id that is not computed from aliases.value(..) or graph_index(..) (at %s): a second "
           "source of alias bindings can disagree with the alias map" % bad, b.where)


def run(ctx):
    fa = ctx.facts
    # ---- R10a
    spec = {
        "insert": {"always": [("keys_to_values", "insert"), ("values_to_keys", "insert")],
                   "exists": [("values_to_keys", "remove"), ("keys_to_values", "remove")]},
        "remove_key": {"always": [("keys_to_values", "remove")], "exists": [("values_to_keys", "remove")]},
        "remove_value": {"always": [("values_to_keys", "remove")], "exists": [("keys_to_values", "remove")]},
    }
    for m, sp in spec.items():
        b = ctx.anchor("R10a", IM + m)
        if not b:
            continue
        fc = field_calls(b)
        okb, errb, unk = cfg.ret_class_blocks(b)
        targets = (okb + unk) or cfg.return_blocks(b)
        problems = []
        for f, meth in sp["always"]:
            blocks = [i for i, ff, mm in fc if (ff, mm) == (f, meth)]
            if not blocks or cfg.find_path(b, [0], targets, avoid=blocks) is not None and not any(x in targets for x in blocks):
                problems.append("%s.%s not on every success path" % (f, meth))
        for f, meth in sp["exists"]:
            if not [1 for i, ff, mm in fc if (ff, mm) == (f, meth)]:
                problems.append("%s.%s never called (displaced/other direction not removed)" % (f, meth))
        ctx.ob("R10a", "IndexedMapImpl::" + m, not problems,
               "both maps updated: %s" % sorted({(f, mm) for i, f, mm in fc}) if not problems else "; ".join(problems), b.where)

    # ---- R10b
    def empty_test(n, t, body):
        if not n.endswith("::is_empty") or not t["a"]:
            return False
        ty = body.local_ty(cfg.op_place(t["a"][0])[0]) if cfg.op_place(t["a"][0]) else ""
        return "String" in ty or "str" in ty

    def neg_test(s, body):
        r = s["r"]
        if r["op"] != "Lt":
            return False
        c = cfg.op_const(r["b"])
        return bool(c and c.get("v") == 0 and "i64" in c.get("ty", ""))
    sites = common.callers_of(fa, DB + "insert_alias", "agdb") + common.callers_of(fa, DB + "insert_new_alias", "agdb")
    for cb, j, tj in sorted(sites, key=lambda x: (x[0].npath, x[1])):
        inst = "%s->%s" % (common.norm(cb.root or cb.npath), common.norm(cfg.callee(tj)).split("::")[-1])
        eg = common.reject_guards(fa, cb, call_pred=empty_test)
        g1 = common.guarded_by(cb, j, eg)
        ng = common.reject_guards(fa, cb, bin_pred=neg_test)
        g2 = common.guarded_by(cb, j, ng, value=tj["a"][1] if len(tj["a"]) > 1 else None)
        fresh = False
        for k, tk in cfg.calls(cb):
            if common.norm(cfg.callee(tk) or "") == DB + "insert_node":
                o = cfg.op_origin(cb, tj["a"][1])
                if o and o[0] in cfg.derived_locals(cb, [tk["d"][0]]):
                    fresh = True
        idx = sum(1 for x in sites if x[0].path == cb.path and x[1] < j)
        ctx.ob("R10b", "%s#%d:non-empty" % (inst, idx), g1 is not None,
               "alias emptiness rejected by %s" % g1 if g1 else
               "an empty alias can reach `%s` in `%s` (no emptiness test guards the call)" % (
                   cfg.callee(tj).split("::")[-1], common.norm(cb.npath)), cb.loc(j))
        ctx.ob("R10b", "%s#%d:node-only" % (inst, idx), bool(g2) or fresh,
               ("id is the fresh result of insert_node" if fresh else "negative (edge) ids rejected by %s" % g2)
               if (g2 or fresh) else
               "an edge id can reach `%s` in `%s` (no `id < 0` test guards the call and the id is not fresh)" % (
                   cfg.callee(tj).split("::")[-1], common.norm(cb.npath)), cb.loc(j))
    ctx.floor("R10b", "call sites of insert_alias/insert_new_alias", len(sites), 4)

    # ---- R10c
    b = ctx.anchor("R10c", DB + "remove_node")
    if b:
        rk = [i for i, t in cfg.calls(b) if common.norm(cfg.callee(t) or "") == IM + "remove_key"]
        rn = [i for i, t in cfg.calls(b) if common.norm(cfg.callee(t) or "") == "agdb::graph::GraphImpl::remove_node"]
        ok = bool(rk and rn)
        if ok:
            # alias param is arg 4 (self, db_id, graph_index, alias); the Some-branch leads to remove_key
            sw = None
            for i, blk in enumerate(b.blocks):
                t = blk["term"]
                if t["k"] == "switch":
                    pl = cfg.op_place(t["d"])
                    ds = cfg.defs(b).get(pl[0], []) if pl else []
                    if ds and ds[0][0] == "assign" and ds[0][2]["k"] == "discr" and cfg.origin(b, ds[0][2]["p"])[0] == 4:
                        sw = (i, t)
                        break
            ok = sw is not None
            if ok:
                some = [tb for v, tb in sw[1]["ts"] if v == 1]
                ok = bool(some) and cfg.find_path(b, some, rn, avoid=rk) is None
        ctx.ob("R10c", "remove_node:alias-removed-first", ok,
               "when an alias is given, aliases.remove_key precedes graph.remove_node on every path" if ok else
               "remove_node can remove the node while its alias stays resolvable", b.where)
    b = ctx.anchor("R10c", DB + "remove_id")
    if b:
        rn = [(i, t) for i, t in cfg.calls(b) if common.norm(cfg.callee(t) or "") == DB + "remove_node"]
        keys = [(i, t) for i, t in cfg.calls(b) if common.norm(cfg.callee(t) or "") == IM + "key"]
        ok = bool(rn and keys)
        if ok:
            der = cfg.derived_locals(b, [keys[0][1]["d"][0]])
            o = cfg.op_origin(b, rn[0][1]["a"][3])
            ok = o is not None and o[0] in der
        ctx.ob("R10c", "remove_id:passes-alias", ok,
               "remove_id hands aliases.key(id) to remove_node" if ok else
               "remove_id no longer passes the node's alias to remove_node", b.where)
    b = ctx.anchor("R10c", DB + "remove")
    if b:
        rn = [(i, t) for i, t in cfg.calls(b) if common.norm(cfg.callee(t) or "") == DB + "remove_node"]
        ok = False
        if rn:
            # the alias argument is Some(alias.clone())
            o = cfg.op_origin(b, rn[0][1]["a"][3])
            ds = cfg.defs(b).get(o[0], []) if o else []
            ok = any(d[0] == "assign" and d[2]["k"] == "agg" and d[2].get("variant") == "Some" for d in ds)
        ctx.ob("R10c", "remove(alias):passes-alias", ok,
               "removing by alias passes Some(alias) to remove_node" if ok else
               "remove-by-alias no longer passes the alias to remove_node", b.where)
    # "rejected without effect" relies on the rollback of alias changes: undo commands in mutation order (R13f)
    from rules import C13
    C13.undo_order_rule(ctx)
    # tombstone discipline of the open-addressing tables behind the alias map (shared rule, rules/maps_common.py)
    from rules import maps_common
    maps_common.slot_state_rule(ctx)
    maps_common.resize_rehash_rule(ctx)
    resolution_rule(ctx)
    return 0
