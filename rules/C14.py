"""C14 — traversals return exactly the reachable elements in documented order."""
from lib import cfg
from rules import common

CRATES = ("agdb",)
EXPLANATION = (
    "Static analysis by sibling comparison: each of the four SearchIterator::expand bodies is abstracted to its set of "
    "push events (container operation, element branch node/edge, whether guarded by `follow`, which graph accessor "
    "produced the pushed index, distance delta). (R14a) forward and reverse variants must be mirror images under "
    "first_edge_from<->first_edge_to, next_edge_from<->next_edge_to, edge_to<->edge_from; breadth-first and depth-first "
    "differ only in container operations and in the order of the two pushes on the edge branch (BFS: sibling to the "
    "front, target to the back; DFS: sibling pushed before target so the target is popped first). (R14b) "
    "SearchImpl consults and sets the visited bit before the handler runs, stops on Finish, and expands with "
    "follow = true / not at all / false for Continue / Finish / Stop. (R14c) node->edge and edge->node pushes add 1 to "
    "the distance, sibling pushes add 0.")
DECIDED = ["R14a forward/reverse and BFS/DFS sibling agreement of expand (SIBLING over push events)",
           "R14b visit-once and SearchControl dispatch in SearchImpl (MUST/TABLE)",
           "R14c distance increments (TABLE)",
           "R08e a freed graph slot is fully reset (shared with C08)",
           "R08f from/to sibling functions of the graph module are mirror images (shared with C08)"]
UNDECIDED = ["the resulting order and reachability on concrete graphs (needs execution)",
             "a search started at an edge also returns that edge's siblings (lazy sibling chaining): a behavioural "
             "consequence no exact structural rule separates from the intended behaviour; not reported"]

GS = "agdb::graph_search::"
G = "agdb::graph::GraphImpl::"
VARIANTS = {
    "bfs": "<agdb::graph_search::breadth_first_search::BreadthFirstSearch as agdb::graph_search::search_impl::SearchIterator<D>>::expand",
    "bfs_rev": "<agdb::graph_search::breadth_first_search_reverse::BreadthFirstSearchReverse as agdb::graph_search::search_impl::SearchIterator<D>>::expand",
    "dfs": "<agdb::graph_search::depth_first_search::DepthFirstSearch as agdb::graph_search::search_impl::SearchIterator<D>>::expand",
    "dfs_rev": "<agdb::graph_search::depth_first_search_reverse::DepthFirstSearchReverse as agdb::graph_search::search_impl::SearchIterator<D>>::expand",
}
SIGMA = {"first_edge_from": "first_edge", "first_edge_to": "first_edge", "next_edge_from": "next_edge",
         "next_edge_to": "next_edge", "edge_to": "target", "edge_from": "target"}
DIRECTION = {"first_edge_from": "fwd", "next_edge_from": "fwd", "edge_to": "fwd",
             "first_edge_to": "rev", "next_edge_to": "rev", "edge_from": "rev"}
PUSHES = {"std::collections::VecDeque::push_back": "push_back", "std::collections::VecDeque::push_front": "push_front",
          "std::vec::Vec::push": "push"}


def param_origin(b, place_or_op, depth=0):
    """origin() that also looks through *named* snapshots of a parameter (`let SearchIndex { index, distance } = current;`):
    returns (param local, [fields]) or the plain origin."""
    pl = place_or_op if isinstance(place_or_op, list) else cfg.op_place(place_or_op)
    if pl is None:
        return None
    r, f = cfg.origin(b, pl)
    if 0 < r <= b.d["argc"] or depth > 3:
        return r, f
    ds = [d for d in cfg.defs(b).get(r, []) if d[0] != "partial"]
    if len(ds) == 1 and ds[0][0] == "assign" and ds[0][2]["k"] in ("use", "cast") and cfg.op_place(ds[0][2]["o"]):
        r2, f2 = param_origin(b, ds[0][2]["o"], depth + 1)
        if 0 < r2 <= b.d["argc"]:
            return r2, f2 + f
    return r, f


def events(b, fa=None):
    """list of dict(op, branch, follow, source, delta, bb)"""
    out = []
    graph_calls = [(i, t, common.norm(cfg.callee(t) or "")[len(G):]) for i, t in cfg.calls(b)
                   if common.norm(cfg.callee(t) or "").startswith(G) and common.norm(cfg.callee(t) or "")[len(G):] in SIGMA]
    der = {i: cfg.derived_locals(b, [t["d"][0]], through=lambda n: cfg.is_transparent(n) or (n or "").endswith(
        ("::ok", "::filter", "Option::ok", "Result::ok"))) for i, t, n in graph_calls}
    isnode = [(i, t) for i, t in cfg.calls(b) if common.norm(cfg.callee(t) or "").endswith("GraphIndex::is_node")]
    node_sw = []
    for i, t in isnode:
        o = param_origin(b, t["a"][0])
        if o and o[0] == 2:       # current_index.index
            node_sw += cfg.bool_switches(b, cfg.derived_locals(b, [t["d"][0]]))
    follow_sw = cfg.bool_switches(b, cfg.derived_locals(b, [5])) if b.d["argc"] >= 5 else []
    for i, t in cfg.calls(b):
        op = PUSHES.get(cfg.callee(t) or "")
        if not op or len(t["a"]) < 2:
            continue
        root = cfg.op_origin(b, t["a"][1])
        agg = None
        if root:
            for d in cfg.defs(b).get(root[0], []):
                if d[0] == "assign" and d[2]["k"] == "agg" and d[2].get("adt", "").endswith("SearchIndex"):
                    agg = d[2]
        ev = {"op": op, "bb": i, "source": None, "delta": None, "branch": None, "follow": None}
        if agg:
            fields = agg.get("fields", [])
            for fname, o in zip(fields, agg["ops"]):
                pl = cfg.op_place(o)
                if fname == "index" and pl:
                    r0 = cfg.origin(b, pl)[0]
                    for gi, gt, gname in graph_calls:
                        if r0 in der[gi] or pl[0] in der[gi]:
                            ev["source"] = gname
                if fname == "distance" and pl:
                    r0, f0 = cfg.origin(b, pl)
                    ds = [d for d in cfg.defs(b).get(r0, []) if d[0] == "assign"]
                    if ds and ds[0][2]["k"] == "bin" and ds[0][2]["op"].startswith("Add"):
                        c = cfg.op_const(ds[0][2]["b"]) or cfg.op_const(ds[0][2]["a"])
                        ev["delta"] = c.get("v") if c else "?"
                    elif param_origin(b, pl) == (2, [".distance"]):
                        ev["delta"] = 0
                    else:
                        # `next_distance(current.distance)` with a local closure `|d| d + 1`
                        dc = cfg.def_call(b, r0)
                        if dc and fa is not None:
                            for cb in common.closure_bodies_passed(fa, b, dc[1]):
                                adds = [st["r"] for bi, st in cfg.assigns(cb) if st["r"]["k"] == "bin" and st["r"]["op"].startswith("Add")]
                                if len(adds) == 1 and (cfg.op_const(adds[0]["b"]) or cfg.op_const(adds[0]["a"])):
                                    src_ok = any(param_origin(b, a) == (2, [".distance"]) for a in dc[1]["a"][1:]) or any(
                                        (lambda ag: ag and any(param_origin(b, o) == (2, [".distance"]) for o in ag["ops"]))(
                                            next((d[2] for d in cfg.defs(b).get((cfg.op_place(a) or [None])[0], [])
                                                  if d[0] == "assign" and d[2]["k"] == "agg"), None)) for a in dc[1]["a"][1:])
                                    if src_ok:
                                        ev["delta"] = (cfg.op_const(adds[0]["b"]) or cfg.op_const(adds[0]["a"])).get("v")
        if node_sw:
            sw = node_sw[0]
            if cfg.find_path(b, [0], [i], removed_edges=[sw["true_edge"]]) is None:
                ev["branch"] = "node"
            elif cfg.find_path(b, [0], [i], removed_edges=[sw["false_edge"]]) is None:
                ev["branch"] = "edge"
        ev["follow"] = any(cfg.find_path(b, [0], [i], removed_edges=[sw["true_edge"]]) is None for sw in follow_sw)
        # what else decides this push?  Allowed deciders: the is_node test, the follow flag, and - for an index the
        # graph returned as a Result/Option - the validity test of that very index.  Anything else (e.g. "skip the
        # target of a self-loop") removes reachable elements from some traversals.
        known = {sw["bb"] for sw in node_sw + follow_sw if "bb" in sw}
        known |= {sw["true_edge"][0] for sw in node_sw + follow_sw}
        extra = []
        src_der = set()
        for gi, gt, gname in graph_calls:
            if ev["source"] == gname:
                src_der |= set(der[gi])
        for j, blk in enumerate(b.blocks):
            tt = blk["term"]
            if blk.get("cleanup") or tt["k"] != "switch" or j in known:
                continue
            if not any(cfg.find_path(b, [0], [i], removed_edges=[(j, tg)]) is None for tg in cfg.succs(b, j)):
                continue
            pl = cfg.op_place(tt["d"])
            dsw = [d for d in cfg.defs(b).get(pl[0], []) if d[0] != "partial"] if pl else []
            okd = False
            for d in dsw:
                if d[0] == "assign" and d[2]["k"] == "discr" and (d[2]["p"][0] in src_der or cfg.origin(b, d[2]["p"])[0] in src_der):
                    okd = True          # `if let Some(i) = first_edge(..).ok().filter(is_valid)` / match on its Result
                if d[0] == "call" and (cfg.callee(d[2]) or "").endswith(("::is_valid", "::is_ok", "::is_some")) and d[2]["a"] and \
                        ((cfg.op_place(d[2]["a"][0]) or [None])[0] in src_der or (cfg.op_origin(b, d[2]["a"][0]) or (None,))[0] in src_der):
                    okd = True
            if not okd:
                extra.append(b.loc(j))
        ev["extra"] = extra
        out.append(ev)
    return out


EXPECT = {  # abstract source -> (branch, requires follow, distance delta)
    "first_edge": ("node", True, 1), "target": ("edge", True, 1), "next_edge": ("edge", False, 0)}


def visit_once_rule(ctx):
    """R14b (shared with C19): every element is processed at most once; SearchControl dispatch."""
    fa = ctx.facts
    # R14b
    SI = GS + "search_impl::SearchImpl::"
    b = ctx.anchor("R14b", SI + "visit_index")
    if b:
        v = [i for i, t in cfg.calls(b) if common.norm(cfg.callee(t) or "").endswith("BitSet::value")]
        s = [i for i, t in cfg.calls(b) if common.norm(cfg.callee(t) or "").endswith("BitSet::set")]
        ok = bool(v and s) and cfg.must_pass(b, [0], s, cfg.return_blocks(b))[0] and cfg.find_path(b, [0], s, avoid=v) is None
        ctx.ob("R14b", "visit_index", ok, "reads the visited bit, then sets it, on every path" if ok else
               "visit_index no longer reads-then-sets the visited bit", b.where)
    b = ctx.anchor("R14b", SI + "process_index")
    if b:
        vi = [(i, t) for i, t in cfg.calls(b) if common.norm(cfg.callee(t) or "") == SI + "visit_index"]
        pu = [i for i, t in cfg.calls(b) if common.norm(cfg.callee(t) or "") == SI + "process_unvisited_index"]
        ok = bool(vi and pu)
        if ok:
            sws = cfg.bool_switches(b, cfg.derived_locals(b, [vi[0][1]["d"][0]]))
            ok = bool(sws) and cfg.find_path(b, [0], pu, removed_edges=[sws[0]["false_edge"]]) is None
        ctx.ob("R14b", "process_index", ok, "an index is processed only if it was not visited before" if ok else
               "process_index can process an already visited element", b.where)
        # ... and nothing is skipped before that test: every success return lies behind visit_index (an element taken
        # from the work list is either new - then it is handled and expanded - or was seen before)
        okb, errb, unk = cfg.ret_class_blocks(b)
        p0 = cfg.find_path(b, [0], okb + unk, avoid=[i for i, t in vi]) if vi else [0]
        ctx.ob("R14b", "process_index:no-skip", bool(vi) and p0 is None,
               "every success path consults visit_index" if vi and p0 is None else
               "process_index can drop an element from the work list without consulting visit_index (%s): elements only "
               "reachable through it are missing from the result" % (cfg.path_str(b, p0) if p0 else "-"), b.where)
    b = ctx.anchor("R14b", SI + "process_unvisited_index")
    if b:
        tbl = {}
        for m in fa.matches(b.path):
            if m["scrut_ty"].endswith("SearchControl"):
                for a in m["arms"]:
                    v = (a["p"].get("path") or "?").split("::")[-1]
                    ex = [c for c in a["body"]["calls"] if c.endswith("::expand")]
                    lits = [x for x in a["body"]["lits"] if x.startswith("Bool(")]
                    tbl[v] = (len(ex), lits)
        ok = (tbl.get("Continue", (0, []))[0] == 1 and "Bool(true)" in tbl["Continue"][1] and
              tbl.get("Finish", (1, []))[0] == 0 and tbl.get("Stop", (0, []))[0] == 1 and "Bool(false)" in tbl["Stop"][1])
        ctx.ob("R14b", "process_unvisited_index:dispatch", ok,
               "Continue: expand(follow=true); Finish: no expand, search ends; Stop: expand(follow=false)" if ok else
               "SearchControl dispatch changed: %s" % tbl, b.where)
        hp = [i for i, t in cfg.calls(b) if (cfg.callee_decl(t) or "").endswith("SearchHandler::process")]
        ctx.ob("R14b", "process_unvisited_index:handler", bool(hp), "handler consulted once per unvisited element" if hp else
               "handler.process no longer called", b.where)
    b = ctx.anchor("R14b", SI + "search")
    if b:
        pi = [(i, t) for i, t in cfg.calls(b) if common.norm(cfg.callee(t) or "") == SI + "process_index"]
        ok = False
        if pi:
            comp = [c for c in cfg.sccs(b) if pi[0][0] in c]
            ok = bool(comp)
        ctx.ob("R14b", "search:loop", ok, "loop: next() -> process_index until exhausted or false" if ok else
               "SearchImpl::search no longer loops over the algorithm's next()", b.where)


def run(ctx):
    fa = ctx.facts
    evs = {}
    for k, path in VARIANTS.items():
        b = ctx.anchor("R14a", path)
        if b:
            evs[k] = (b, events(b, fa))
    for k, (b, es) in evs.items():
        want_dir = "rev" if k.endswith("_rev") else "fwd"
        got = {}
        for e in es:
            got[SIGMA.get(e["source"], e["source"])] = e
        for src, (branch, follow, delta) in EXPECT.items():
            e = got.get(src)
            ok = (e is not None and e["branch"] == branch and e["follow"] == follow and
                  DIRECTION.get(e["source"]) == want_dir)
            ctx.ob("R14a", "%s:%s" % (k, src), ok,
                   "%s-branch push of %s (follow-guarded: %s)" % (branch, e["source"], follow) if ok else
                   "%s expand: push for `%s` is %s (expected branch=%s, follow-guarded=%s, direction=%s)" % (
                       k, src, {x: e[x] for x in ("op", "branch", "follow", "source")} if e else "missing", branch, follow, want_dir),
                   b.loc(e["bb"]) if e else b.where)
            okx = e is not None and not e.get("extra")
            ctx.ob("R14a", "%s:%s:no-extra-filter" % (k, src), okx,
                   "decided only by is_node / follow / validity of the index" if okx else
                   "%s expand: the push for `%s` also depends on a test at %s: an element reachable in the graph is left out of "
                   "some traversals" % (k, src, e.get("extra") if e else "?"), b.loc(e["bb"]) if e else b.where)
            okd = e is not None and e["delta"] == delta
            ctx.ob("R14c", "%s:%s:distance" % (k, src), okd,
                   "distance + %d" % delta if okd else "%s expand: `%s` push changes the distance by %s, expected +%d" % (
                       k, src, e["delta"] if e else "?", delta), b.loc(e["bb"]) if e else b.where)
        ctx.ob("R14a", "%s:event-count" % k, len(es) == 3, "3 push events" if len(es) == 3 else
               "%s expand has %d push events (expected 3: first edge, target, sibling)" % (k, len(es)), b.where)
        # container discipline and order on the edge branch
        tgt, sib, first = got.get("target"), got.get("next_edge"), got.get("first_edge")
        if tgt and sib and first:
            if k.startswith("bfs"):
                ok = (first["op"], tgt["op"], sib["op"]) == ("push_back", "push_back", "push_front")
                ctx.ob("R14a", "%s:container" % k, ok,
                       "BFS: new levels to the back, sibling edge to the front" if ok else
                       "BFS container operations are %s (expected push_back, push_back, push_front)" % ((first["op"], tgt["op"], sib["op"]),), b.where)
            else:
                ok = (first["op"], tgt["op"], sib["op"]) == ("push", "push", "push") and \
                    cfg.find_path(b, [tgt["bb"]], [sib["bb"]], leave_start=True) is None and \
                    cfg.find_path(b, [sib["bb"]], [tgt["bb"]], leave_start=True) is not None
                ctx.ob("R14a", "%s:order" % k, ok,
                       "DFS: sibling pushed before the target, so the target is popped first" if ok else
                       "DFS edge branch no longer pushes the sibling before the target", b.where)
    # forward ~ reverse pairwise equality of abstract events
    for f, r in (("bfs", "bfs_rev"), ("dfs", "dfs_rev")):
        if f in evs and r in evs:
            sf = sorted((SIGMA.get(e["source"]), e["op"], e["branch"], e["follow"], e["delta"]) for e in evs[f][1])
            sr = sorted((SIGMA.get(e["source"]), e["op"], e["branch"], e["follow"], e["delta"]) for e in evs[r][1])
            ctx.ob("R14a", "%s~%s" % (f, r), sf == sr, "mirror images" if sf == sr else
                   "forward and reverse expand differ: %s vs %s" % (sf, sr), evs[f][0].where)

    visit_once_rule(ctx)
    # traversals follow the per-slot links; a reused slot must not carry links of the removed element (R08e)
    from rules import C08
    C08.slot_reset_rule(ctx)
    # ... and walk the outgoing / incoming lists, whose maintenance must agree (R08f)
    C08.mirror_rule(ctx)
    return 0
