"""C06 — all storage variants give identical results."""
import re
from lib import cfg
from rules import common

CRATES = ("agdb",)
EXPLANATION = (
    "Static analysis: (R06a) every method of `impl StorageData for AnyStorage` dispatches each enum variant to the "
    "same-named StorageData method of exactly that variant's inner storage type with the parameters passed through; "
    "(R06b) no function of crate agdb outside storage/* and the DbAny constructors mentions a concrete storage type or "
    "inspects the type parameter (TypeId/type_name): all query logic is one generic body, so variants can only differ "
    "through StorageData; (R05d) the memory-mapped variant mirrors every mutation into both the file and the memory copy.")
DECIDED = ["R06a AnyStorage delegation table (10 methods x 3 variants, resolved callees)",
           "R06b storage-generic database: concrete storage types confined to storage/* and DbAny::try_new_*",
           "R05d memory-mapped mirror (shared with C05)",
           "R23b cursor discipline of the file-only variant (shared with C23)",
           "R23a no interior-mutable state in the storage variants beyond the cursor mutex `Mutex<()>` (shared with C23)"]
UNDECIDED = ["agreement of the three primitive StorageData impls on write-past-end / short-read error behaviour "
             "(arithmetic and error-vs-panic differences; the panic side is C07)",
             "equality of query results (needs execution)"]

ANY = "agdb::storage::any_storage::AnyStorage"
SD = "agdb::storage::StorageData"
MM = "agdb::storage::file_storage_memory_mapped::FileStorageMemoryMapped"
CONCRETE = re.compile(r"(file_storage::FileStorage\b|memory_storage::MemoryStorage\b|FileStorageMemoryMapped\b|"
                      r"any_storage::AnyStorage\b)")
DELEGATED = ("backup", "copy", "flush", "len", "name", "read", "rename", "resize", "write")


def args_pass_through(b, t):
    """non-receiver args of call t originate from the same-position parameters of b."""
    for k, a in enumerate(t["a"][1:], start=2):
        o = cfg.op_origin(b, a)
        if o is None or o[0] != k or o[1]:
            return False
    return True


def mirror_rule(ctx, rule="R05d"):
    fa = ctx.facts
    need = {   # method -> fields that MUST receive the same-named call
        "write": {"file", "memory"}, "resize": {"file", "memory"}, "rename": {"file"},
        "flush": {"file"}, "backup": {"file"}, "copy": {"file", "memory"},
    }
    any_of = {"read": {"file", "memory"}, "len": {"file", "memory"}, "name": {"file", "memory"}}
    for m in list(need) + list(any_of):
        b = ctx.anchor(rule, "<%s as %s>::%s" % (MM, SD, m))
        if not b:
            continue
        got = {}
        for i, t in cfg.calls(b):
            if cfg.callee_decl(t) == SD + "::" + m and t["a"]:
                o = cfg.op_origin(b, t["a"][0])
                if o and o[0] == 1 and o[1]:
                    got[o[1][0][1:]] = (i, t)
        # the second copy updated from a result combinator: `self.memory.resize(n).and_then(|_| self.file.resize(n))`
        via_closure = {}
        for i, t in cfg.calls(b):
            if (cfg.callee_decl(t) or cfg.callee(t) or "").split("::")[-1] != "and_then":
                continue
            for a in t["a"][1:]:
                pl = cfg.op_place(a)
                for d in (cfg.defs(b).get(cfg.origin(b, pl)[0], []) if pl else []):
                    if not (d[0] == "assign" and d[2]["k"] == "agg" and d[2].get("what") == "closure"):
                        continue
                    cb = fa.body(d[2]["def"])
                    for j, tt in (cfg.calls(cb) if cb else []):
                        if cfg.callee_decl(tt) != SD + "::" + m or not tt["a"]:
                            continue
                        o = cfg.op_origin(cb, tt["a"][0])          # (closure env).k -> captured operand k of the aggregate
                        ks = [e for e in (o[1] if o else []) if isinstance(e, str) and e[1:].isdigit()]
                        cap = d[2]["ops"][int(ks[0][1:])] if ks and int(ks[0][1:]) < len(d[2]["ops"]) else None
                        oo = cfg.op_origin(b, cap) if cap else None
                        if oo and oo[0] == 1 and oo[1]:
                            passed = True
                            for k, aa in enumerate(tt["a"][1:], start=2):
                                ao = cfg.op_origin(cb, aa)
                                aks = [e for e in (ao[1] if ao else []) if isinstance(e, str) and e[1:].isdigit()]
                                acap = d[2]["ops"][int(aks[0][1:])] if aks and ao[0] == 1 and int(aks[0][1:]) < len(d[2]["ops"]) else None
                                aoo = cfg.op_origin(b, acap) if acap else None
                                if not (aoo and aoo[0] == k and not aoo[1]):
                                    passed = False
                            got.setdefault(oo[1][0][1:], (i, t))
                            via_closure[oo[1][0][1:]] = passed
        if m in need:
            missing = need[m] - set(got)
            okp = all(via_closure[f] if f in via_closure else args_pass_through(b, t) for f, (i, t) in got.items())
            # both calls must happen on every success path
            okb, errb, unk = cfg.ret_class_blocks(b)
            targets = (okb + unk) or cfg.return_blocks(b)
            skipped = [f for f, (i, t) in got.items() if f in need[m] and
                       cfg.find_path(b, [0], targets, avoid=[i]) is not None]
            ok = not missing and okp and not skipped
            ctx.ob(rule, "FileStorageMemoryMapped::" + m, ok,
                   "forwards to %s with parameters passed through on every success path" % sorted(got) if ok else
                   "memory-mapped `%s` does not mirror into %s (missing %s, skipped on some path %s, args passed through: %s)"
                   % (m, sorted(need[m]), sorted(missing), skipped, okp), b.where)
        else:
            ok = bool(set(got) & any_of[m]) and all(args_pass_through(b, t) for i, t in got.values())
            ctx.ob(rule, "FileStorageMemoryMapped::" + m, ok,
                   "forwards to %s" % sorted(got) if ok else "memory-mapped `%s` no longer forwards to file/memory" % m,
                   b.where)
    b = ctx.anchor(rule, "<%s as %s>::new" % (MM, SD))
    if b:
        fn = cfg.call_blocks(b, ["<agdb::storage::file_storage::FileStorage as agdb::storage::StorageData>::new"])
        rd = [(i, t) for i, t in cfg.calls(b) if cfg.callee_decl(t) == SD + "::read"]
        ln = [(i, t) for i, t in cfg.calls(b) if cfg.callee_decl(t) == SD + "::len"]
        fb = cfg.call_blocks(b, ["agdb::storage::memory_storage::MemoryStorage::from_buffer"])
        ok = bool(fn and rd and ln and fb)
        if ok:
            i, t = rd[0]
            pos = cfg.op_const(t["a"][1])
            lo = cfg.op_origin(b, t["a"][2])
            ok = bool(pos and pos.get("v") == 0 and lo and lo[0] == ln[0][1]["d"][0])
            ok = ok and cfg.find_path(b, [0], fb, avoid=[i]) is None and cfg.find_path(b, [0], [i], avoid=fn) is None
        ctx.ob(rule, "FileStorageMemoryMapped::new", ok,
               "memory copy = file.read(0, file.len()) taken after FileStorage::new (i.e. after recovery)" if ok else
               "memory-mapped constructor no longer fills memory from the whole recovered file", b.where)


def run(ctx):
    fa = ctx.facts
    adt = fa.adts.get(ANY)
    ctx.ob("R06a", "anchor:AnyStorage", adt is not None, "enum found" if adt else "enum AnyStorage not found",
           key="C06|R06a|missing-anchor|AnyStorage")
    if adt:
        variants = {}
        for v in adt["variants"]:
            inner = v["fields"][0]["ty"] if v["fields"] else None
            variants[int(v["discr"])] = (v["name"], inner)
        ctx.floor("R06a", "AnyStorage variants", len(variants), 3)
        n = 0
        for m in DELEGATED:
            b = ctx.anchor("R06a", "<%s as %s>::%s" % (ANY, SD, m))
            if not b:
                continue
            # the discriminant switch on *self
            sw = None
            for i, blk in enumerate(b.blocks):
                t = blk["term"]
                if t["k"] == "switch":
                    pl = cfg.op_place(t["d"])
                    ds = cfg.defs(b).get(pl[0], []) if pl else []
                    if ds and ds[0][0] == "assign" and ds[0][2]["k"] == "discr" and cfg.origin(b, ds[0][2]["p"])[0] == 1:
                        sw = (i, t)
                        break
            if not sw:
                ctx.ob("R06a", "AnyStorage::" + m, False, "no match on self found (idiom not recognised)", b.where)
                continue
            for val, tb in sw[1]["ts"]:
                n += 1
                vname, inner = variants.get(val, ("?", None))
                reach, _ = cfg.reachable(b, [tb], avoid=[sw[0]])
                calls_here = [(i, t) for i, t in cfg.calls(b) if i in reach and cfg.callee_decl(t) == SD + "::" + m]
                want = "<%s as %s>::%s" % (inner, SD, m)
                if fa.body(want) is None:
                    want = SD + "::" + m   # the inner type keeps the trait's default method
                ok = len(calls_here) == 1 and cfg.callee(calls_here[0][1]) == want and args_pass_through(b, calls_here[0][1])
                ctx.ob("R06a", "AnyStorage::%s[%s]" % (m, vname), ok,
                       "arm %s calls %s with parameters passed through" % (vname, want) if ok else
                       "arm `%s` of AnyStorage::%s does not forward to `%s` with the same arguments (found %s)" % (
                           vname, m, want, [cfg.callee(t) for i, t in calls_here]), b.loc(tb))
        ctx.floor("R06a", "AnyStorage delegation arms", n, 27)

    # R06b
    offenders = {}
    for b in fa.bodies.values():
        if b.crate != "agdb" or b.path.startswith(("agdb::storage::", "<agdb::storage::")) or "test_utilities" in b.path:
            continue
        m = set()
        for l in b.locals:
            m.update(CONCRETE.findall(l["ty"]))
        for i, t in cfg.calls(b):
            m.update(CONCRETE.findall(cfg.callee_full(t) or ""))
            if (cfg.callee_decl(t) or "") in ("std::any::type_name", "std::any::TypeId::of", "std::any::type_name_of_val",
                                              "std::any::Any::type_id") and any(
                    "agdb::storage::Storage<" in l["ty"] for l in b.locals):
                m.add("type-inspection:" + cfg.callee_decl(t))
        if m:
            offenders[b.npath] = (b, m)
    allowed_prefix = "agdb::db::DbImpl::<agdb::storage::any_storage::AnyStorage>::"
    allowed_names = ("new_file", "new_mapped", "new_memory", "try_new_any", "try_new_file", "try_new_mapped", "try_new_memory")
    for name, (b, m) in sorted(offenders.items()):
        ok = b.path.startswith(allowed_prefix) and b.path[len(allowed_prefix):].split("::")[0] in allowed_names
        ctx.ob("R06b", name, ok,
               "DbAny constructor (chooses the variant, nothing else)" if ok else
               "`%s` mentions concrete storage type(s) %s outside storage/*: query logic may now differ per variant" % (
                   name, sorted(m)), b.where)
    ctx.floor("R06b", "functions mentioning concrete storage types outside storage/*", len(offenders), 7)
    mirror_rule(ctx, "R05d")
    # the file-only variant reads through one shared OS handle: without the cursor discipline its results diverge
    # from the other variants as soon as two readers overlap (R23b)
    from rules import C23
    C23.cursor_rule(ctx)
    # state that `&self` reads of one variant keep and change (a read cache, a remembered handle position behind the
    # cursor mutex) is exactly how the file-only variant starts to answer differently from the others (R23a)
    C23.interior_mutability_rule(ctx)
    return 0
