"""C18 — elements search visits every existing element once in slot order."""
from lib import cfg
from rules import common

CRATES = ("agdb",)
EXPLANATION = (
    "Static analysis: (R18a) in GraphImpl::next_element every `return Some(_)` is reachable only through the "
    "not-removed edge of is_removed_index for that slot, the scanned range starts at index + 1 and ends at the capacity, "
    "the sign of the returned id is chosen by is_valid_edge (negative for an edge), and the function returns None after "
    "the range; GraphIterator::next advances through next_element; (R18b) ElementSearch::search drives GraphImpl::iter, "
    "never expands, stops only on Finish, and adds an element iff the handler says so.")
DECIDED = ["R18a slot scan: monotone range, removed slots skipped, sign by is_valid_edge (DOM)",
           "R18b ElementSearch::search dispatch (TABLE/MUST)",
           "R15f the ids condition compares signed ids (shared with C15)",
           "R08g every removal releases its slot through free_index (shared with C08)",
           "R13a-f undo recording / inverse table of the transaction commands (shared with C13)"]
UNDECIDED = ["completeness over histories (that every existing element occupies a slot below capacity)"]

G = "agdb::graph::GraphImpl::"


def run(ctx):
    fa = ctx.facts
    b = ctx.anchor("R18a", G + "next_element")
    if b:
        somes = [bi for bi, s in cfg.assigns(b) if s["l"] == [0] and s["r"]["k"] == "agg" and s["r"].get("variant") == "Some"]
        nones = [bi for bi, s in cfg.assigns(b) if s["l"] == [0] and s["r"]["k"] == "agg" and s["r"].get("variant") == "None"]
        rem = [(i, t) for i, t in cfg.calls(b) if common.norm(cfg.callee(t) or "") == G + "is_removed_index"]
        ve = [(i, t) for i, t in cfg.calls(b) if common.norm(cfg.callee(t) or "") == G + "is_valid_edge"]
        through = lambda n: cfg.is_transparent(n) or (n or "").endswith(("::unwrap_or", "::unwrap_or_default"))
        ok = bool(somes and rem)
        if ok:
            sws = []
            for i, t in rem:
                sws += cfg.bool_switches(b, cfg.derived_locals(b, [t["d"][0]], through=through))
            ok = bool(sws) and all(any(cfg.find_path(b, [0], [s], removed_edges=[sw["false_edge"]]) is None for sw in sws) for s in somes)
        ctx.ob("R18a", "next_element:removed-skipped", ok,
               "every Some(_) is reachable only when is_removed_index(slot) is false" if ok else
               "next_element can return a removed slot", b.where)
        # sign chosen by is_valid_edge: wherever the returned id is selected, the negated slot is selected only on the
        # true edge of is_valid_edge and the plain slot only on its false edge (one `Some` per branch, or one `Some(if ..)`)
        def sign_of(op, depth=0):
            pl = cfg.op_place(op)
            if pl is None or depth > 8:
                return "pos"
            ds = [d for d in cfg.defs(b).get(pl[0], []) if d[0] != "partial"]
            if len(ds) != 1:
                return "pos"
            d = ds[0]
            if d[0] == "assign":
                if d[2]["k"] == "un" and d[2]["op"] == "Neg":
                    return "neg"
                if d[2]["k"] in ("use", "cast"):
                    return sign_of(d[2]["o"], depth + 1)
                if d[2]["k"] == "ref":
                    return sign_of({"cp": d[2]["p"]}, depth + 1)
                return "pos"
            if d[0] == "call" and d[2]["a"] and (cfg.callee(d[2]) or "").endswith(("::from", "::into", "::clone")):
                return sign_of(d[2]["a"][0], depth + 1)
            return "pos"

        def selections(op, depth=0):
            """[(block where this alternative is chosen, sign)] for the payload operand of a Some"""
            pl = cfg.op_place(op)
            if pl is None:
                return []
            ds = [d for d in cfg.defs(b).get(pl[0], []) if d[0] != "partial"]
            if len(ds) == 1 and ds[0][0] == "assign" and ds[0][2]["k"] == "use" and depth < 4 and b.local_name(pl[0]) is None:
                inner = selections(ds[0][2]["o"], depth + 1)
                if len(inner) > 1:
                    return inner
            out = []
            for d in ds:
                if d[0] == "assign":
                    sg = "neg" if (d[2]["k"] == "un" and d[2]["op"] == "Neg") else (
                        sign_of(d[2]["o"]) if d[2]["k"] in ("use", "cast") else "pos")
                else:
                    sg = sign_of(d[2]["a"][0]) if d[2]["a"] and (cfg.callee(d[2]) or "").endswith(("::from", "::into", "::clone")) else "pos"
                out.append((d[1], sg))
            return out
        ok = bool(ve and somes)
        detail = ""
        if ok:
            sws = []
            for i, t in ve:
                sws += cfg.bool_switches(b, cfg.derived_locals(b, [t["d"][0]], through=through))
            sel = []
            for bi, s_ in cfg.assigns(b):
                if bi in somes and s_["l"] == [0] and s_["r"]["k"] == "agg":
                    for o in s_["r"]["ops"]:
                        sel += selections(o)
            negs = [blk for blk, sg in sel if sg == "neg"]
            poss = [blk for blk, sg in sel if sg == "pos"]
            ok = bool(sws and negs and poss) and all(
                cfg.find_path(b, [0], [x], removed_edges=[sws[0]["true_edge"]]) is None for x in negs) and all(
                cfg.find_path(b, [0], [x], removed_edges=[sws[0]["false_edge"]]) is None for x in poss)
            detail = "selections %s" % sorted(set(sel))
        ctx.ob("R18a", "next_element:sign", ok, "negative id iff is_valid_edge(-i), positive otherwise" if ok else
               "next_element no longer chooses the sign of the returned id by is_valid_edge (%s)" % detail, b.where)
        # range: start = index.as_u64() + 1, end = capacity
        start_ok = False
        for bi, s in cfg.assigns(b):
            r = s["r"]
            if r["k"] == "bin" and r["op"].startswith("Add"):
                c = cfg.op_const(r["b"])
                o = cfg.op_origin(b, r["a"])
                dc = cfg.def_call(b, o[0]) if o else None
                if c and c.get("v") == 1 and dc and (cfg.callee(dc[1]) or "").endswith("GraphIndex::as_u64"):
                    start_ok = True
        cap = [i for i, t in cfg.calls(b) if (cfg.callee_decl(t) or "").endswith("GraphData::capacity")]
        loop = [c for c in cfg.sccs(b)]
        ctx.ob("R18a", "next_element:range", start_ok and bool(cap) and bool(loop) and bool(nones),
               "scans (index + 1)..capacity in increasing order and returns None afterwards"
               if (start_ok and cap and loop and nones) else
               "next_element no longer scans the slots from index + 1 up to the capacity (start+1: %s, capacity: %s, None: %s)" % (
                   start_ok, bool(cap), bool(nones)), b.where)
    it = ctx.anchor("R18a", "<agdb::graph::GraphIterator<'_, D, Data> as std::iter::Iterator>::next")
    if it:
        ne = [i for i, t in cfg.calls(it) if common.norm(cfg.callee(t) or "") == G + "next_element"]
        ctx.ob("R18a", "GraphIterator::next", bool(ne), "advances through next_element" if ne else
               "the graph iterator no longer advances through next_element", it.where)

    b = ctx.anchor("R18b", "agdb::graph_search::element_search::ElementSearch::search")
    if b:
        names = [common.norm(cfg.callee(t) or "") for i, t in cfg.calls(b)]
        it_ok = (G + "iter") in names
        no_expand = not any(n.endswith("::expand") for n in names)
        tbl = {}
        for m in fa.matches(b.path):
            if m["scrut_ty"].endswith("SearchControl"):
                for a in m["arms"]:
                    tbl[(a["p"].get("path") or "?").split("::")[-1]] = [x for x in a["body"]["lits"] if x.startswith("Bool(")]
        disp = tbl.get("Continue") == ["Bool(false)"] and tbl.get("Finish") == ["Bool(true)"] and tbl.get("Stop") == ["Bool(false)"]
        push = [i for i, t in cfg.calls(b) if cfg.callee(t) == "std::vec::Vec::push"]
        hp = [i for i, t in cfg.calls(b) if (cfg.callee_decl(t) or "").endswith("SearchHandler::process")]
        ok = it_ok and no_expand and disp and bool(push) and bool(hp) and cfg.find_path(b, [0], push, avoid=hp) is None
        ctx.ob("R18b", "ElementSearch::search", ok,
               "iterates GraphImpl::iter, consults the handler for every element, finishes only on Finish, never expands" if ok else
               "ElementSearch::search changed: iter=%s, no expand=%s, finished-table=%s" % (it_ok, no_expand, tbl), b.where)
    # "returns those satisfying the conditions and never a removed element": an `ids` condition must distinguish the
    # node +n from the edge -n that may occupy the same slot later (R15f)
    from rules import C15
    C15.ids_condition_rule(ctx)
    # ids of re-created / scanned elements depend on the free-list discipline of the graph (R08g, shared with C08)
    from rules import C08
    C08.slot_release_rule(ctx)
    # an elements search lists what the graph's slots hold: a rollback that leaves the slot table one entry off makes it
    # list an id that never existed (undo recording and inverse table of C13, re-evaluated)
    from rules import C13
    C13.run(ctx)
    return 0
