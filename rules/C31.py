"""C31 — every node applies committed actions once each and in log order."""
import re
from lib import cfg
from lib.callgraph import CallGraph
from rules import common
from rules import C27 as R
from rules import C28

EXPLANATION = (
    "Static analysis of agdb_server/src/cluster.rs, cluster_log.rs and action.rs (call graph + MIR paths): (R31a) on the call "
    "paths from <ClusterStorage as Storage>::commit and from the start-up replay in ClusterStorage::new to "
    "ClusterAction::exec there is no tokio::spawn / JoinSet::spawn / spawn_blocking / thread::spawn whose task body "
    "(transitively) contains the exec call, except a single ordered consumer started once outside any loop; execution must "
    "be awaited in commit order; (R31b) logs_until sorts the selected (index, id) pairs by index before loading them and "
    "both logs_uncommitted / logs_unexecuted delegate to it, the commit loop is a plain `for` over that vector, "
    "log_committed(item) succeeds before execute_log(item), log_executed follows exec in the executing body, and start-up "
    "re-executes logs_unexecuted(commit) before the storage is returned.")
DECIDED = ["R31a no detached task between commit and execution (call graph, one obligation per spawn site)",
           "R31b ordered selection, ordered iteration, committed-before-executed, executed-marked-after-exec, start-up replay (MUST)"]
UNDECIDED = ["crash between exec and log_executed (at-least-once execution)",
             "that the log database returns elements in the order of the ids passed to it"]

CS = "agdb_server::cluster::ClusterStorage::"
LOGCL = C28.LOGCL
EXEC = "agdb_server::action::ClusterAction::exec"
SPAWN_LAST = ("spawn", "spawn_blocking", "spawn_local", "spawn_on", "spawn_blocking_on", "spawn_local_on", "spawn_scoped",
              "spawn_unchecked")
SORTS = ("sort_by_key", "sort_unstable_by_key", "sort_by_cached_key")


def is_spawn(t):
    n = common.norm(cfg.callee_decl(t) or cfg.callee(t) or "")
    return n.split("::")[-1] in SPAWN_LAST and n.startswith(("tokio::", "std::thread", "futures", "async_std", "smol"))


def storage_commit_body(fa):
    for b in fa.bodies.values():
        if b.crate == "agdb_server" and b.d.get("name") == "commit" and \
                (b.d.get("impl_trait") or "").startswith("agdb_server::raft::Storage") and "ClusterStorage" in b.path:
            return b
    return None


def task_bodies(fa, g, b, t):
    """Bodies that run inside the task spawned by call t of body b."""
    out = []
    for a in t["a"]:
        pl = cfg.op_place(a)
        if not pl:
            continue
        r0 = cfg.origin(b, pl)[0]
        for d in cfg.defs(b).get(r0, []):
            if d[0] == "assign" and d[2]["k"] == "agg" and d[2].get("what") in ("closure", "coroutine", "coroutine_closure"):
                cb = fa.body(d[2]["def"])
                if cb:
                    out.append(cb)
            elif d[0] == "call":
                out += g.targets(d[2])[0]
    return out


def in_loop(b, bb):
    return any(bb in c for c in cfg.sccs(b))


def rule_no_detached_exec(ctx, rule="R31a"):
    fa = ctx.facts
    g = CallGraph(fa)
    commit = storage_commit_body(fa)
    if commit is None:
        ctx.ob(rule, "anchor:ClusterStorage::commit", False, "mechanism `<ClusterStorage as Storage>::commit` not found",
               key="%s|%s|missing-anchor|ClusterStorage::commit" % (ctx.pid, rule))
    new = ctx.anchor(rule, CS + "new")
    ctx.anchor(rule, EXEC)

    def stop(b):
        return b.npath == EXEC
    per_commit = g.closure([commit], stop=stop) if commit else {}
    at_start = g.closure([new], stop=stop) if new else {}
    for name, cl in (("commit", per_commit), ("start-up replay", at_start)):
        reach = any(b.npath == EXEC for b, p, i in cl.values())
        ctx.ob(rule, "%s:reaches-exec" % name, reach,
               "ClusterAction::exec is reachable from the %s path (%d bodies)" % (name, len(cl)) if reach else
               "ClusterAction::exec is not reachable from the %s path: committed actions are not executed (or the "
               "mechanism was renamed)" % name, (commit.where if name == "commit" and commit else (new.where if new else "")))
    seen = {}
    n = 0
    for cl in (per_commit, at_start):
        for path, (b, parent, bb) in sorted(cl.items()):
            k = 0
            for i, t in cfg.calls(b):
                if not is_spawn(t):
                    continue
                site = (b.path, i)
                idx = k
                k += 1
                if site in seen:
                    continue
                seen[site] = True
                n += 1
                tasks = task_bodies(fa, g, b, t)
                tcl = g.closure(tasks, stop=stop) if tasks else {}
                execs = [x for x, p, j in tcl.values() if x.npath == EXEC]
                f = R.fn_name(b)
                sp = common.norm(cfg.callee_decl(t) or "")
                if not tasks:
                    ctx.ob(rule, "%s:%s#%d" % (f, sp, idx), False,
                           "cannot determine the task body of `%s` in `%s` (idiom not recognised)" % (sp, f), b.loc(i),
                           key="%s|%s|%s|%s#%d-unknown-task" % (ctx.pid, rule, f, sp, idx))
                    continue
                ok = not execs
                how = "task body does not contain ClusterAction::exec"
                if execs:
                    # a single ordered consumer: spawned once (start-up only, outside any loop), exec inside a recv loop
                    single = (b.path not in per_commit and not in_loop(b, i) and (b.root or b.path) == (new.path if new else None))
                    if single:
                        for tb, p, j in tcl.values():
                            ex = [q for q, tt in cfg.calls(tb) if common.norm(cfg.callee(tt) or "") == EXEC]
                            rc = [q for q, tt in cfg.calls(tb) if (cfg.callee(tt) or "").split("::")[-1] in ("recv", "recv_async", "next")]
                            if ex and rc and any(e in c and any(r_ in c for r_ in rc) for c in cfg.sccs(tb) for e in ex):
                                ok = True
                                how = "single ordered consumer started once at start-up (exec inside its receive loop)"
                ctx.ob(rule, "%s:%s#%d" % (f, sp, idx), ok, how if ok else
                       "`%s` in `%s` starts a detached task whose body calls ClusterAction::exec (%s): every committed "
                       "entry is executed by its own task, so entries committed together (a follower catching up, a leader "
                       "committing several indexes at once, the start-up replay) run concurrently and in any order, and "
                       "commit() returns before any of them ran (F19)" % (
                           sp, f, " -> ".join(x.split("::")[-1] if not x.endswith("}") else "::".join(x.split("::")[-3:])
                                              for x in g.chain(tcl, execs[0].path))), b.loc(i),
                       key="%s|%s|%s|%s#%d-task-contains-exec" % (ctx.pid, rule, f, sp, idx))
                if execs:
                    uniform_dispatch(ctx, rule, fa, g, b, stop, f)
    ctx.note("R31a: %d spawn sites on the commit / start-up paths inspected" % n)


def uniform_dispatch(ctx, rule, fa, g, b, stop, f):
    """A function that hands executions to detached tasks must hand EVERY execution to them the same way: if the future
    that contains ClusterAction::exec is spawned on one path and awaited in place on another (say, "when a client waits
    for the result"), an entry of the second kind overtakes the still-queued tasks of earlier entries."""
    srcs = {}
    for i, st in cfg.assigns(b):
        r = st["r"]
        if r["k"] == "agg" and r.get("what") in ("coroutine", "coroutine_closure", "closure") and len(st["l"]) == 1:
            cb = fa.body(r["def"])
            if cb and any(x.npath == EXEC for x, p_, j in g.closure([cb], stop=stop).values()):
                srcs[st["l"][0]] = b.loc(i)
    for i, t in cfg.calls(b):
        if is_spawn(t) or not t.get("d") or len(t["d"]) != 1:
            continue
        tg = g.targets(t)[0]
        if tg and "Future" in b.local_ty(t["d"][0]) + "".join(x.d.get("ret", "") for x in tg) and \
                any(x.npath == EXEC for tb in tg for x, p_, j in g.closure([tb], stop=stop).values()):
            srcs[t["d"][0]] = b.loc(i)
    # per source future (the same async block / the same callee): how is it consumed
    modes = {}
    through = ("std::future::IntoFuture::into_future", "std::pin::Pin::new_unchecked", "<F as std::future::IntoFuture>::into_future")
    for src in srcs:
        der = cfg.derived_locals(b, [src], extra_through=through)
        mine = {}
        for i, t in cfg.calls(b):
            used = [cfg.op_place(a)[0] for a in t["a"] if cfg.op_place(a) and cfg.op_place(a)[0] in der]
            if not used:
                continue
            last = (cfg.callee_decl(t) or cfg.callee(t) or "").split("::")[-1]
            if is_spawn(t):
                mine.setdefault("spawned", []).append(b.loc(i))
            elif last in ("poll", "block_on", "join", "join_all", "select"):
                mine.setdefault("awaited in place", []).append(b.loc(i))
        if len(mine) > 1 or not modes:
            modes = mine if (len(mine) > 1 or not modes) else modes
        if len(mine) > 1:
            break
    ok = len(modes) <= 1
    ctx.ob(rule, "%s:uniform-dispatch" % f, ok,
           "%d future(s) containing ClusterAction::exec, all dispatched the same way (%s)" % (len(srcs), ", ".join(modes) or "-") if ok else
           "`%s` spawns the execution of some entries (%s) and awaits the execution of others in place (%s): an entry that "
           "is executed in place overtakes the queued tasks of earlier entries, so this node applies committed actions out "
           "of log order" % (f, modes["spawned"][0], modes["awaited in place"][0]), b.where)


def rule_ordered(ctx, rule="R31b"):
    fa = ctx.facts
    # 1. logs_until sorts by index
    lu = ctx.anchor(rule, LOGCL + "logs_until")
    tx = None
    if lu:
        for b in fa.bodies.values():
            if (b.root or "") == lu.path and any((cfg.callee(t) or "").split("::")[-1] in SORTS + ("sort", "sort_by", "sort_unstable")
                                                   for i, t in cfg.calls(b)):
                tx = b
        if tx is None:
            ctx.ob(rule, "logs_until:sorted", False, "logs_until no longer sorts the selected logs (no sort call found)", lu.where)
        else:
            # value-flow formulation (independent of filter_map / map+filter / loop spellings):
            #   the vector handed to logs() is computed from the vector that was sorted (sort first), the sort key is the
            #   first component of its elements, and those elements are (index value of the entry, entry id) pairs built
            #   from a query that selects values("index")
            sorts = [(i, t) for i, t in cfg.calls(tx) if (cfg.callee(t) or "").split("::")[-1] in SORTS]
            loads = [(i, t) for i, t in cfg.calls(tx) if common.norm(cfg.callee(t) or "") == "agdb_server::cluster_log::logs"]
            ok = bool(sorts and loads)
            why = "no sort_by_key / no logs() call (idiom not recognised)"
            if ok:
                i, t = sorts[0]
                vroot = cfg.op_origin(tx, t["a"][0])
                kbs = common.closure_bodies_passed(fa, tx, t)
                key_ok = False
                for kb in kbs:
                    for bi, st in cfg.assigns(kb):
                        if st["l"] == [0] and st["r"]["k"] in ("use", "cast"):
                            o = common.param_origin(kb, st["r"]["o"])
                            if o and o[0] == 2 and o[1][:1] == [".0"]:
                                key_ok = True
                vsl, vcalls, _ = cfg.backward_slice(tx, [vroot[0]]) if vroot else (set(), [], set())
                pair_ok = False
                sel_ok = False
                for ci, ct in vcalls:
                    if (cfg.callee(ct) or "").split("::")[-1] == "values" and any(
                            (cfg.op_const(a) or {}).get("c", "").strip('"') == "index" for a in ct["a"]):
                        sel_ok = True
                    for cb in common.closure_bodies_passed(fa, tx, ct):
                        for bi, st in cfg.assigns(cb):
                            r = st["r"]
                            if r["k"] == "agg" and r.get("what") == "tuple" and len(r["ops"]) == 2:
                                o1 = common.param_origin(cb, r["ops"][1])
                                sl0, c0, _r0 = cfg.backward_slice(cb, [cfg.op_place(r["ops"][0])[0]]) if cfg.op_place(r["ops"][0]) else (set(), [], set())
                                from_index_value = any((cfg.callee(x) or "").endswith("::to_u64") for _i, x in c0)
                                if o1 and o1[1][-1:] == [".id"] and from_index_value:
                                    pair_ok = True
                arg_pl = cfg.op_place(loads[0][1]["a"][1]) if len(loads[0][1]["a"]) > 1 else None
                asl, acalls, _ = cfg.backward_slice(tx, [arg_pl[0]]) if arg_pl else (set(), [], set())
                flow_ok = bool(vroot) and vroot[0] in asl
                snd_ok = False
                for ci, ct in acalls:
                    for cb in common.closure_bodies_passed(fa, tx, ct):
                        for bi, st in cfg.assigns(cb):
                            if st["l"] == [0] and st["r"]["k"] in ("use", "cast"):
                                o = common.param_origin(cb, st["r"]["o"])
                                if o and o[0] == 2 and o[1][:1] == [".1"]:
                                    snd_ok = True
                order_ok = cfg.find_path(tx, [0], [j for j, tt in loads], avoid=[j for j, tt in sorts]) is None
                ok = pair_ok and sel_ok and key_ok and flow_ok and snd_ok and order_ok
                why = "pairs (index value, id): %s; selects values(\"index\"): %s; key closure returns .0: %s; logs() loads the " \
                      "ids (.1) of the sorted vector: %s; sort precedes logs(): %s" % (pair_ok, sel_ok, key_ok, flow_ok and snd_ok, order_ok)
            ctx.ob(rule, "logs_until:sorted", ok,
                   "logs_until collects (index, id) pairs, sort_by_key(.0), then loads the ids in that order" if ok else
                   "logs_until does not provably return the logs in index order: " + why, tx.where)
    for m, label in (("logs_uncommitted", "cluster_log::COMMITTED"), ("logs_unexecuted", "cluster_log::EXECUTED")):
        b = C28.anchor_code(ctx, rule, LOGCL + m)
        if b:
            sy = R.Sym(fa, b)
            rets = [R._rvalue_term(sy, s["r"]) for bi, s in cfg.assigns(b) if s["l"] == [0]]
            ok = bool(rets) and all("logs_until(self, index, %s)" % label in x for x in rets)
            ctx.ob(rule, "%s:delegates" % m, ok, "%s(index) = logs_until(index, %s)" % (m, label.split("::")[-1]) if ok else
                   "%s no longer returns logs_until(self, index, %s): %s" % (m, label, [x[:120] for x in rets]), b.where)
    # 2./3. the commit loop
    commit = storage_commit_body(fa)
    cc = C28.coroutine_of(fa, commit.path) if commit else None
    if cc is None:
        ctx.ob(rule, "anchor:ClusterStorage::commit", False, "mechanism `<ClusterStorage as Storage>::commit` not found",
               key="%s|%s|missing-anchor|ClusterStorage::commit" % (ctx.pid, rule))
    else:
        loop_checks(ctx, rule, cc, "commit", r"logs_uncommitted\(self\.cluster_log, index\)", need_committed=True)
    new = C28.anchor_code(ctx, rule, CS + "new")
    if new:
        loop_checks(ctx, rule, new, "start-up", r"logs_unexecuted\((\w+), .*cluster_log\(\1\).* as Continue\.0\.2\)",
                    need_committed=False)
    # 4. log_executed follows exec
    n = 0
    for b in fa.bodies.values():
        if b.crate != "agdb_server" or not (b.root or b.path).startswith(CS[:-2]) and "ClusterStorage" not in b.path:
            continue
        ex = [(i, t) for i, t in cfg.calls(b) if common.norm(cfg.callee(t) or "") == EXEC]
        if not ex:
            continue
        n += 1
        sy = R.Sym(fa, b)
        le = [(i, t) for i, t in cfg.calls(b) if common.norm(cfg.callee(t) or "") == LOGCL + "log_executed"]
        exb = [i for i, t in ex]
        leb = [i for i, t in le]
        rets = cfg.return_blocks(b)
        ok = bool(le) and cfg.find_path(b, [0], leb, avoid=exb) is None and \
            cfg.find_path(b, exb, rets, avoid=leb, leave_start=True) is None
        same = bool(le) and all(sy.op(t["a"][0]).split(".")[0] == sy.op(tt["a"][1]).replace("unwrap_or_default(", "").split(".")[0]
                                for i, t in ex for j, tt in le)
        if le and not same:
            same = same_log_at_callers(fa, b, sy, ex, le)
        ctx.ob(rule, "%s:log_executed-follows-exec" % R.fn_name(b), ok and same,
               "exec(log.data) is followed on every path by log_executed(log id) of the same log" if ok and same else
               "`%s` calls ClusterAction::exec but log_executed does not follow it on every path (for the same log: %s): an "
               "executed entry stays marked unexecuted and is executed again at the next start" % (R.fn_name(b), same), b.loc(exb[0]))
    ctx.floor(rule, "bodies calling ClusterAction::exec in cluster.rs", n, 1)


def same_log_at_callers(fa, b, sy, ex, le):
    """The executing body is a helper that receives the entry and its id as two parameters (`run(log, log_id, ..)`):
    they belong to the same entry if every call site passes `<x>` and `<x>.db_id` of one `<x>`."""
    pb = fa.body(b.parent) if b.parent and b.d.get("coroutine") else None
    if pb is None:
        return False
    ps = R.Sym(fa, pb)
    names = {ps.argname(k): k for k in range(1, pb.d["argc"] + 1)}
    pairs = set()
    for i, t in ex:
        for j, tt in le:
            a = sy.op(t["a"][0]).split(".")[0]
            c = sy.op(tt["a"][1]).replace("unwrap_or_default(", "").split(".")[0].rstrip(")")
            if a not in names or c not in names:
                return False
            pairs.add((names[a], names[c]))
    sites = 0
    for cb in fa.bodies.values():
        if cb.crate != b.crate:
            continue
        for i, t in cfg.calls(cb):
            if common.norm(cfg.callee(t) or "") != pb.npath:
                continue
            sites += 1
            cs = R.Sym(fa, cb)
            for ka, kc in pairs:
                if len(t["a"]) < max(ka, kc):
                    return False
                x = cs.op(t["a"][ka - 1]).split(".")[0]
                y = cs.op(t["a"][kc - 1]).replace("unwrap_or_default(", "").split(".")[0].rstrip(")")
                if x != y:
                    return False
    return sites > 0


def loop_checks(ctx, rule, b, name, src_rx, need_committed):
    fa = ctx.facts
    sy = R.Sym(fa, b)
    its = [(i, t) for i, t in cfg.calls(b) if t.get("x") == "desugar:ForLoop" and (cfg.callee(t) or "").endswith("into_iter")]
    nxt = [(i, t) for i, t in cfg.calls(b) if t.get("x") == "desugar:ForLoop" and (cfg.callee(t) or "").endswith("::next")]
    exe = [(i, t) for i, t in cfg.calls(b) if common.norm(cfg.callee(t) or "") == CS + "execute_log"]
    ok = len(its) == 1 and len(nxt) == 1 and bool(exe)
    why = "expected one `for` loop calling execute_log (found %d loops, %d execute_log calls)" % (len(its), len(exe))
    if ok:
        src = sy.op(its[0][1]["a"][0])
        plain = (cfg.callee(its[0][1]) or "").startswith("<std::vec::Vec") and (cfg.callee(nxt[0][1]) or "").startswith("<std::vec::IntoIter")
        from_sel = re.search(src_rx, src) is not None
        item = all(re.match(r"^next\(.*\) as Some\.0$", sy.op(t["a"][1])) for i, t in exe)
        inloop = all(any(i in c and nxt[0][0] in c for c in cfg.sccs(b)) for i, t in exe)
        ok = plain and from_sel and item and inloop
        why = "plain Vec iteration: %s; iterates the selected logs: %s; execute_log(loop item): %s; inside the loop: %s" % (
            plain, from_sel, item, inloop)
    ctx.ob(rule, "%s:loop-in-order" % name, ok,
           "`for log in <selected logs>` (Vec::into_iter, no adaptor) calls execute_log(log)" if ok else
           "the %s loop does not provably visit the selected logs in vector order: %s" % (name, why), b.where)
    if not (nxt and exe):
        return
    okb, errb, unk = cfg.ret_class_blocks(b)
    if need_committed:
        lc = [(i, t) for i, t in cfg.calls(b) if common.norm(cfg.callee(t) or "") == LOGCL + "log_committed"]
        edges = []
        for i, t in lc:
            for te in cfg.try_edges(b, cfg.derived_locals(b, [t["d"][0]])):
                if te["ok_edge"]:
                    edges.append(te["ok_edge"])
        p = cfg.find_path(b, [nxt[0][0]], [i for i, t in exe], removed_edges=edges, leave_start=True)
        arg = all(re.search(r"next\(.*\) as Some\.0\.db_id", sy.op(t["a"][1])) for i, t in lc)
        ok = bool(lc and edges) and p is None and arg
        ctx.ob(rule, "%s:log_committed-before-execute_log" % name, ok,
               "within an iteration execute_log is reachable only through log_committed(item id)? == Ok" if ok else
               "execute_log can run for an entry that was not marked committed first (%s)" % (
                   cfg.path_str(b, p) if p else "log_committed missing or not called with the loop item's id"),
               b.loc(exe[0][0]))
    else:
        # start-up: the storage is returned only after the loop ran to exhaustion
        p = cfg.find_path(b, [0], okb, avoid=[nxt[0][0]])
        # and the loop is left towards the success return only by exhaustion
        ctx.ob(rule, "%s:replay-before-ready" % name, bool(okb) and p is None,
               "ClusterStorage::new returns Ok only after iterating logs_unexecuted(commit)" if okb and p is None else
               "ClusterStorage::new can return Ok without re-executing the committed-but-unexecuted logs: %s" % (
                   cfg.path_str(b, p) if p else "no Ok return found"), b.where)
    # errors of execute_log are propagated (the loop does not silently skip an entry)
    edges = []
    for i, t in exe:
        for te in cfg.try_edges(b, cfg.derived_locals(b, [t["d"][0]])):
            if te["ok_edge"]:
                edges.append(te["ok_edge"])
    p = cfg.find_path(b, [i for i, t in exe], [nxt[0][0]], removed_edges=edges, leave_start=True)
    ctx.ob(rule, "%s:execute_log-error-stops-loop" % name, bool(edges) and p is None,
           "the next entry is taken only after execute_log(..)? returned Ok" if edges and p is None else
           "the %s loop continues with the next entry although execute_log failed for the current one" % name, b.loc(exe[0][0]))


def run(ctx):
    rule_no_detached_exec(ctx)
    rule_ordered(ctx)
    return 0
