"""C11 — indexes always reflect current property values."""
from lib import cfg
from rules import common
from rules.C13 import self_mutator_calls, pushed_variants

CRATES = ("agdb",)
EXPLANATION = (
    "Static analysis of DbImpl's index maintenance: (R11a) every function (and every rollback arm) that calls a "
    "DbKeyValues mutator also performs the matching index maintenance reached through DbIndexes::index_mut on the same "
    "success path; (R11b) insert_index back-fills the new index from all stored values in a loop after creating it; "
    "(R11c) creating an existing index is an error that dominates every effect; (R11d) remove_index records one "
    "InsertToIndex per entry before InsertIndex, so rollback recreates the index before refilling it.")
DECIDED = ["R11a key-value store and indexes are co-updated (MUST, 4 primitives + 3 rollback arms)",
           "R11b index creation back-fills existing data",
           "R11c duplicate index is rejected before any effect (DOM)",
           "R11d remove_index undo order",
           "R11e replacement un-indexes the previous value and indexes the new one (argument provenance)",
           "R11f back-fill decides node/edge by a graph lookup",
           "R19t slot states of the hash tables are written only by insert / remove / full rehash (WHO table, shared)",
           "R09d insert_or_replace reports None only after an insertion (shared with C09)",
           "R19u a capacity change of a hash table runs the full rebuild (shared)",
           "R09f stable hashes are computed only by the hash-map implementation (WHO; identity is equality)"]
UNDECIDED = ["contents of the index multimap over histories (needs execution)"]

DB = "agdb::db::DbImpl::"
KV = "agdb::db::db_key_value::DbKeyValues::"
IX = "agdb::db::db_index::DbIndexes::"
MM = "agdb::collections::multi_map::MultiMapImpl::"
# kv mutator -> multimap operations that must accompany it
NEED = {KV + "insert_value": {"insert"}, KV + "remove_value": {"remove_value"},
        KV + "insert_or_replace": {"insert", "remove_value"}, KV + "remove": {"remove_value"}}


def index_maintenance_rule(ctx):
    """R11a (shared with C13: the undo commands restore exactly what the forward step removed only if both sides use
    the per-(value, id) primitives)."""
    fa = ctx.facts
    n = 0
    for b in sorted(fa.find(r"^agdb::db::DbImpl::[a-z_]+$"), key=lambda x: x.line):
        name = common.norm(b.npath)
        if name == DB + "rollback" or b.d["argc"] < 1 or not b.local_ty(1).startswith("&mut"):
            continue
        muts = [(i, t, f, c) for i, t, f, c in self_mutator_calls(b) if f == "values" and c in NEED]
        if not muts:
            continue
        im = [i for i, t in cfg.calls(b) if common.norm(cfg.callee(t) or "") == IX + "index_mut"]
        ops = {common.norm(cfg.callee(t) or "")[len(MM):] for i, t in cfg.calls(b)
               if common.norm(cfg.callee(t) or "").startswith(MM)}
        okb, errb, unk = cfg.ret_class_blocks(b)
        targets = (okb + unk) or cfg.return_blocks(b)
        for i, t, f, c in muts:
            n += 1
            pre = cfg.find_path(b, [0], [i], avoid=im)
            post = i in targets or cfg.find_path(b, [i], targets, avoid=im, leave_start=True) is not None
            missing_ops = NEED[c] - ops
            ok = bool(im) and not (pre is not None and post) and not missing_ops
            if not ok and c == KV + "remove" and im and not missing_ops:
                # bulk removal of all pairs: accepted when a loop over the stored pairs that maintains the
                # index precedes it (an element without properties legitimately iterates zero times)
                for comp in cfg.sccs(b):
                    if any(x in comp for x in im) and cfg.find_path(b, [0], [i], avoid=comp) is None:
                        ok = True
            ctx.ob("R11a", "%s:values.%s" % (name, c.split("::")[-1]), ok,
                   "index maintenance (index_mut + %s) accompanies the key-value mutation on every success path" % sorted(NEED[c])
                   if ok else "key-value mutation `%s` in `%s` is not accompanied by index maintenance (index_mut on path: %s, "
                   "missing index operations: %s): an index search would return stale ids" % (
                       c.split("::")[-1], name, not (pre is not None and post), sorted(missing_ops)), b.loc(i))
    rb = ctx.anchor("R11a", DB + "rollback")
    if rb:
        for m in fa.matches(rb.path):
            if not m["scrut_ty"].endswith("agdb::command::Command"):
                continue
            for a in m["arms"]:
                calls = {common.norm(c) for c in a["body"]["calls"]}
                kvm = [c for c in calls if c in NEED]
                if not kvm:
                    continue
                n += 1
                vname = (a["p"].get("path") or "?").split("::")[-1]
                need = set().union(*(NEED[c] for c in kvm))
                have = {c[len(MM):] for c in calls if c.startswith(MM)}
                ok = (IX + "index_mut") in calls and need <= have
                ctx.ob("R11a", "rollback[%s]" % vname, ok,
                       "arm maintains the index (%s) together with %s" % (sorted(need), [c.split("::")[-1] for c in kvm]) if ok else
                       "rollback arm `%s` changes key-values (%s) without the matching index update %s" % (
                           vname, [c.split("::")[-1] for c in kvm], sorted(need - have)), "%s:%d" % (rb.file, a["line"]))
    ctx.floor("R11a", "key-value mutation sites with index maintenance", n, 7)


def run(ctx):
    fa = ctx.facts
    index_maintenance_rule(ctx)

    b = ctx.anchor("R11b", DB + "insert_index")
    if b:
        ins = [i for i, t in cfg.calls(b) if common.norm(cfg.callee(t) or "") == IX + "insert"]
        fill = [i for i, t in cfg.calls(b) if common.norm(cfg.callee(t) or "") == MM + "insert"]
        vals = [i for i, t in cfg.calls(b) if common.norm(cfg.callee(t) or "") == KV + "values"]
        ln = [i for i, t in cfg.calls(b) if common.norm(cfg.callee(t) or "") == KV + "len"]
        loops = cfg.sccs(b)
        ok = bool(ins and fill and vals and ln)
        if ok:
            outer = [c for c in loops if vals[0] in c and fill[0] in c]
            ok = bool(outer) and cfg.find_path(b, [0], fill, avoid=ins) is None
        ctx.ob("R11b", "insert_index:back-fill", ok,
               "after indexes.insert, a loop over 1..values.len() inserts matching pairs into the new index" if ok else
               "insert_index no longer back-fills the new index from existing values", b.where)
        # R11c
        pushes = [i for i, v in pushed_variants(b)]
        ie = common.reject_guards(fa, b, call_pred=lambda n_, t, body: n_.endswith("Option::is_some") or n_.endswith("::is_some"))
        g_push = all(common.guarded_by(b, p, ie) for p in pushes) if pushes else False
        g_ins = all(common.guarded_by(b, p, ie) for p in ins) if ins else False
        ctx.ob("R11c", "insert_index:duplicate-rejected-first", bool(g_push and g_ins),
               "`indexes.index(key).is_some()` => Err dominates the undo push and indexes.insert" if (g_push and g_ins) else
               "creating an existing index is no longer rejected before the undo push / indexes.insert", b.where)

    # R11e: a replacement un-indexes the PREVIOUS value and indexes the NEW one (argument provenance)
    n_rep = 0
    for fb in [fa.body(DB + "insert_or_replace_key_value"), fa.body(DB + "rollback")]:
        if fb is None:
            continue
        for i, t in cfg.calls(fb):
            if common.norm(cfg.callee(t) or "") != KV + "insert_or_replace":
                continue
            n_rep += 1
            old = cfg.derived_locals(fb, [t["d"][0]], through=lambda n: cfg.is_transparent(n) or (n or "").endswith(
                ("::expect", "::unwrap", "Option::expect", "Option::unwrap")))
            new_o = cfg.op_origin(fb, t["a"][3]) if len(t["a"]) > 3 else None
            after = [(j, tj) for j, tj in cfg.calls(fb) if common.norm(cfg.callee(tj) or "").startswith(MM) and
                     cfg.find_path(fb, [0], [j], avoid=[i]) is None]
            rem = [(j, tj) for j, tj in after if common.norm(cfg.callee(tj)).endswith("::remove_value")]
            ins = [(j, tj) for j, tj in after if common.norm(cfg.callee(tj)).endswith("::insert")]
            # only the calls on the found-branch (both present); the not-found branch only inserts
            ok_rem = bool(rem) and all((cfg.op_origin(fb, tj["a"][2]) or (None,))[0] in old for j, tj in rem)
            ins_found = [(j, tj) for j, tj in ins if any(cfg.find_path(fb, [r], [j], leave_start=True) is not None for r, _ in rem)]
            ok_ins = bool(ins_found) and new_o is not None and all(
                (cfg.op_origin(fb, tj["a"][2]) or (None,))[0] == new_o[0] for j, tj in ins_found)
            name = common.norm(fb.npath).split("::")[-1]
            ctx.ob("R11e", "%s:replace-provenance" % name, ok_rem and ok_ins,
                   "index.remove_value takes the value returned by insert_or_replace (previous), index.insert the value passed to it (new)"
                   if (ok_rem and ok_ins) else
                   "in `%s` the index is updated with the wrong value on replacement (remove_value uses the previous value: %s; "
                   "insert uses the new value: %s): a stale index entry survives" % (name, ok_rem, ok_ins), fb.loc(i))
    ctx.floor("R11e", "key-value replacement sites", n_rep, 2)
    # R11f: the back-fill decides node vs edge id by asking the graph, not by the (always positive) slot number
    b2 = fa.body(DB + "insert_index")
    if b2:
        negs = {s["l"][0] for bi, s in cfg.assigns(b2) if s["r"]["k"] == "un" and s["r"]["op"] == "Neg" and len(s["l"]) == 1}
        neg_aggs = []
        for bi, s in cfg.assigns(b2):
            r = s["r"]
            if r["k"] == "agg" and r.get("adt", "").endswith("DbId"):
                o = cfg.op_origin(b2, r["ops"][0]) if r["ops"] else None
                if o and (o[0] in negs or any(d[0] == "assign" and d[2]["k"] == "cast" and
                                              (cfg.op_origin(b2, d[2]["o"]) or (None,))[0] in negs
                                              for d in cfg.defs(b2).get(o[0], []))):
                    neg_aggs.append(bi)
        lookups = [(i, t) for i, t in cfg.calls(b2) if common.norm(cfg.callee(t) or "") in (
            "agdb::graph::GraphImpl::node", "agdb::graph::GraphImpl::edge")]
        sws = []
        for i, t in lookups:
            sws += cfg.bool_switches(b2, cfg.derived_locals(b2, [t["d"][0]], through=lambda n: cfg.is_transparent(n) or (
                n or "").endswith(("::is_some", "::is_none"))))
        # the place where the id is negated (not necessarily where DbId is built: `DbId(if is_node { i } else { -i })`)
        # is reachable only on one outcome of the graph look-up
        neg_blocks = [bi for bi, s_ in cfg.assigns(b2) if s_["r"]["k"] == "un" and s_["r"]["op"] == "Neg"]
        ok = bool(neg_aggs and sws and neg_blocks) and all(any(
            cfg.find_path(b2, [0], [nb], removed_edges=[e]) is None for sw in sws for e in (sw["true_edge"], sw["false_edge"]))
            for nb in neg_blocks)
        ctx.ob("R11f", "insert_index:id-sign-from-graph", ok,
               "the negative (edge) id is chosen by a graph membership lookup" if ok else
               "insert_index no longer asks the graph whether a slot is a node or an edge: existing edges would be "
               "indexed under positive ids", b2.where)

    b = ctx.anchor("R11d", DB + "remove_index")
    if b:
        pv = pushed_variants(b)
        to_index = [i for i, v in pv if v == "InsertToIndex"]
        ins_index = [i for i, v in pv if v == "InsertIndex"]
        rem = [i for i, t in cfg.calls(b) if common.norm(cfg.callee(t) or "") == IX + "remove"]
        loops = cfg.sccs(b)
        ok = bool(to_index and ins_index and rem)
        if ok:
            ok = (any(to_index[0] in c for c in loops) and
                  cfg.find_path(b, ins_index, to_index, leave_start=True) is None and
                  cfg.find_path(b, [0], rem, avoid=ins_index) is None)
        ctx.ob("R11d", "remove_index:undo-order", ok,
               "InsertToIndex pushed per entry (in a loop) before InsertIndex; indexes.remove after both" if ok else
               "remove_index no longer records every index entry before the InsertIndex command", b.where)
    # tombstone discipline of the open-addressing tables behind the index maps (shared rule, rules/maps_common.py)
    from rules import maps_common
    maps_common.slot_state_rule(ctx)
    maps_common.resize_rehash_rule(ctx)
    maps_common.hash_identity_rule(ctx)
    # the index update / undo command is chosen by what insert_or_replace reports (R09d, shared with C09)
    from rules import C09
    C09.insert_or_replace_contract_rule(ctx)
    return 0
