"""C12 — every stored value reads back bit-for-bit."""
from lib import cfg
from rules import common

EXPLANATION = (
    "Static analysis by table extraction from MIR (per-arm regions of the two dispatch matches, cross-read with the HIR "
    "match tables): (R12a) for each of the nine DbValue variants the 4-bit type tag written by DbValue::store_db_value "
    "equals the tag whose arm in DbValue::load_db_value constructs the same variant; tags are distinct, non-zero-extended "
    "values < 16; a variant written inline (set_value) is read inline (value()), a variant written out-of-line "
    "(set_index(storage.insert*(..))) is read out-of-line (storage.value*(StorageIndex(index()))) with the same payload "
    "type, and the two mixed variants (Bytes, String) go out-of-line exactly when set_value() refused / is_value() is "
    "false; the integer/float codecs of writer and reader are the same primitive type; (R12b) the DbValueIndex bit "
    "layout constants agree (inline limit 15 = 4-bit size mask, type in the upper nibble, set_index clears the size, "
    "is_value = size != 0 || index == 0); (R12c) the f64 path is to_f64 -> f64::to_le_bytes -> bytes -> "
    "f64::from_le_bytes -> DbF64::from with no arithmetic or numeric cast in between, DbF64::from/to_f64 are field "
    "moves and the Serialize impls of f64/DbF64 (used for Vec<DbF64>) are byte moves as well.")
DECIDED = ["R12a writer/reader tag, placement (inline / out-of-line / mixed) and payload codec agreement (TABLE, 9 rows)",
           "R12b DbValueIndex layout constants (TABLE)",
           "R12c f64 path is a bit move (no arithmetic)",
           "R23b cursor discipline of the file-only variant (shared with C23)",
           "R12d every other writer of a type tag encodes the payload like store_db_value (SIBLING)",
           "R09e DbF64 equality / order / hashes agree (shared with C09)"]
UNDECIDED = ["the round trip itself on concrete values (needs execution)",
             "String read inline goes through from_utf8_lossy: lossless only because a Rust String is valid UTF-8 "
             "and the inline bytes are the untruncated string (not decided structurally)",
             "that storage index 0 is never handed out by Storage::insert (is_value() relies on it)"]

DV = "agdb::db::db_value::DbValue"
VI = "agdb::db::db_value_index::DbValueIndex::"
ST = "agdb::storage::Storage::"
VARIANTS = ["Bytes", "I64", "U64", "F64", "String", "VecI64", "VecU64", "VecF64", "VecString"]
# documented placement of each variant (frozen; both sides are checked against it)
PLACEMENT = {"Bytes": "mixed", "I64": "inline", "U64": "inline", "F64": "inline", "String": "mixed",
             "VecI64": "out", "VecU64": "out", "VecF64": "out", "VecString": "out"}
ARITH = ("Add", "Sub", "Mul", "Div", "Rem", "Shl", "Shr", "BitAnd", "BitOr", "BitXor", "Neg", "Not")


def last(p):
    return (p or "").split("::")[-1]


def regions(b, sw_bb, t):
    """key(value) -> blocks reachable only through that switch target."""
    reach = {}
    for v, tb in t["ts"]:
        reach[v] = cfg.reachable(b, [tb], avoid=[sw_bb])[0]
    other = cfg.reachable(b, [t["else"]], avoid=[sw_bb])[0] if t.get("else") is not None else set()
    out = {}
    for v, r in reach.items():
        rest = set(other)
        for w, r2 in reach.items():
            if w != v:
                rest |= r2
        out[v] = r - rest
    return out


def target_of(t, v):
    for w, tb in t["ts"]:
        if w == v:
            return tb
    return None


def calls_in(b, region, name):
    return [(i, t) for i, t in cfg.calls(b) if i in region and (cfg.callee(t) or "") == name]


def generic_arg(full):
    """last generic argument list of a full callee path: `..::insert::<Vec<i64>>` -> `Vec<i64>`."""
    if not full or not full.endswith(">"):
        return None
    depth = 0
    for k in range(len(full) - 1, -1, -1):
        c = full[k]
        if c == ">":
            depth += 1
        elif c == "<":
            depth -= 1
            if depth == 0:
                return full[k + 1:-1] if full[k - 2:k] == "::" else None
    return None


def prim_of(full):
    """`core::num::<impl i64>::to_le_bytes` -> i64"""
    if full and "<impl " in full:
        return full.split("<impl ", 1)[1].split(">", 1)[0]
    return None


def arith_in(b, region):
    out = []
    for bi, s in cfg.assigns(b):
        if bi not in region:
            continue
        r = s["r"]
        if r["k"] in ("bin", "un") and any(r["op"].startswith(a) for a in ARITH):
            out.append("%s@bb%d" % (r["op"], bi))
        if r["k"] == "cast":
            ty = b.local_ty(s["l"][0]) or ""
            if not ty.startswith("&"):      # unsizing &[u8; 8] -> &[u8] is fine; numeric casts are not
                out.append("cast->%s@bb%d" % (ty, bi))
    return out


def writer_table(ctx, b):
    sw = None
    for i, blk in enumerate(b.blocks):
        t = blk["term"]
        if t["k"] != "switch":
            continue
        pl = cfg.op_place(t["d"])
        ds = cfg.defs(b).get(pl[0], []) if pl else []
        if ds and ds[0][0] == "assign" and ds[0][2]["k"] == "discr" and ds[0][2].get("enum") == DV \
                and cfg.origin(b, ds[0][2]["p"])[0] == 1:
            sw = (i, t, dict((v, n) for v, n in ds[0][2]["variants"]))
            break
    if not sw:
        return None
    i0, t0, names = sw
    regs = regions(b, i0, t0)
    tbl = {}
    for v, reg in regs.items():
        name = names.get(v, "?%s" % v)
        row = {"tags": [], "cnames": [], "region": reg, "start": target_of(t0, v)}
        for i, t in calls_in(b, reg, VI + "set_type"):
            c = cfg.op_const(t["a"][1]) if len(t["a"]) > 1 else None
            row["tags"].append(c.get("v") if c else None)
            row["cnames"].append(last(c.get("c")) if c else None)
        sv = calls_in(b, reg, VI + "set_value")
        si = calls_in(b, reg, VI + "set_index")
        ins = [(i, t) for i, t in cfg.calls(b) if i in reg and (cfg.callee(t) or "") in (ST + "insert", ST + "insert_bytes")]
        row["payload"] = None
        row["why"] = ""
        if sv and not si and not ins:
            row["place"] = "inline"
            enc = [(i, t) for i, t in cfg.calls(b) if i in reg and last(cfg.callee(t)) == "to_le_bytes"]
            if len(enc) == 1 and len(sv) == 1 and cfg.op_origin(b, sv[0][1]["a"][1]) and \
                    cfg.op_origin(b, sv[0][1]["a"][1])[0] == enc[0][1]["d"][0]:
                row["payload"] = prim_of(cfg.callee_full(enc[0][1]))
            else:
                row["why"] = "inline value is not exactly one to_le_bytes() result handed to set_value"
        elif si and ins and len(si) == 1 and len(ins) == 1:
            der = cfg.derived_locals(b, [ins[0][1]["d"][0]])
            o = cfg.op_origin(b, si[0][1]["a"][1])
            flows = o is not None and o[0] in der
            pay = "bytes" if last(cfg.callee(ins[0][1])) == "insert_bytes" else generic_arg(cfg.callee_full(ins[0][1]))
            # the inserted object is the variant payload itself
            oi = cfg.op_origin(b, ins[0][1]["a"][1]) if len(ins[0][1]["a"]) > 1 else None
            payload_is_field = oi is not None and oi[0] == 1 and oi[1][:1] == ["as " + name]
            if not flows:
                row["why"] = "set_index argument is not the index returned by storage.insert"
            elif not payload_is_field:
                row["why"] = "the object inserted into the storage is not the variant payload"
            row["payload"] = pay
            if not sv:
                row["place"] = "out" if flows and payload_is_field else "?"
            else:
                ok = len(sv) == 1
                edges = cfg.bool_switches(b, cfg.derived_locals(b, [sv[0][1]["d"][0]])) if ok else []
                ok = ok and len(edges) == 1
                if ok:
                    fe = edges[0]["false_edge"]
                    # out-of-line store only when set_value() returned false; and it is reachable at all
                    ok = (cfg.find_path(b, [row["start"]], [ins[0][0], si[0][0]], removed_edges=[fe], avoid=[i0]) is None
                          and cfg.find_path(b, [row["start"]], [si[0][0]], avoid=[i0]) is not None)
                    # the bytes offered inline are the payload (or its as_bytes())
                    ov = cfg.op_origin(b, sv[0][1]["a"][1])
                    if ov and not (ov[0] == 1 and ov[1][:1] == ["as " + name]):
                        dc = cfg.def_call(b, ov[0])
                        ov2 = cfg.op_origin(b, dc[1]["a"][0]) if dc and last(cfg.callee(dc[1])) in ("as_bytes", "as_slice") else None
                        ok = ok and ov2 is not None and ov2[0] == 1 and ov2[1][:1] == ["as " + name]
                row["place"] = "mixed" if ok and flows and payload_is_field else "?"
                if not ok:
                    row["why"] = "out-of-line store is not guarded by the false edge of set_value()"
        else:
            row["place"] = "?"
            row["why"] = "calls set_value x%d, set_index x%d, storage.insert x%d" % (len(sv), len(si), len(ins))
        tbl[name] = row
    return tbl


def reader_table(ctx, b):
    sw = None
    for i, blk in enumerate(b.blocks):
        t = blk["term"]
        if t["k"] != "switch":
            continue
        pl = cfg.op_place(t["d"])
        if not pl or len(pl) != 1:
            continue
        dc = cfg.def_call(b, pl[0])
        if dc and cfg.callee(dc[1]) == VI + "get_type" and cfg.op_origin(b, dc[1]["a"][0]) and \
                cfg.op_origin(b, dc[1]["a"][0])[0] == 1:
            sw = (i, t)
            break
    if not sw:
        return None, None
    i0, t0 = sw
    regs = regions(b, i0, t0)
    tbl = {}
    for v, reg in regs.items():
        row = {"region": reg, "start": target_of(t0, v), "payload": None, "why": ""}
        vs = sorted({s["r"]["variant"] for bi, s in cfg.assigns(b)
                     if bi in reg and s["r"]["k"] == "agg" and s["r"].get("adt") == DV})
        row["variants"] = vs
        iv = calls_in(b, reg, VI + "value")
        isv = calls_in(b, reg, VI + "is_value")
        st = [(i, t) for i, t in cfg.calls(b) if i in reg and (cfg.callee(t) or "") in (ST + "value", ST + "value_as_bytes")]
        idx_ok = True
        for i, t in st:
            # storage.value*(StorageIndex(value_index.index()))
            o = cfg.op_origin(b, t["a"][1]) if len(t["a"]) > 1 else None
            ds = [d for d in cfg.defs(b).get(o[0], []) if d[0] == "assign"] if o else []
            good = False
            if len(ds) == 1 and ds[0][2]["k"] == "agg" and last(ds[0][2].get("adt")) == "StorageIndex" and ds[0][2]["ops"]:
                oo = cfg.op_origin(b, ds[0][2]["ops"][0])
                dc = cfg.def_call(b, oo[0]) if oo else None
                good = bool(dc and cfg.callee(dc[1]) == VI + "index" and cfg.op_origin(b, dc[1]["a"][0])[0] == 1)
            idx_ok = idx_ok and good
        if st:
            pays = {("bytes" if last(cfg.callee(t)) == "value_as_bytes" else generic_arg(cfg.callee_full(t))) for i, t in st}
            row["payload"] = pays.pop() if len(pays) == 1 else None
        if iv and not st:
            row["place"] = "inline"
            dec = [(i, t) for i, t in cfg.calls(b) if i in reg and last(cfg.callee(t)) == "from_le_bytes"]
            row["payload"] = prim_of(cfg.callee_full(dec[0][1])) if len(dec) == 1 else None
            if len(dec) != 1:
                row["why"] = "inline value is not decoded by exactly one from_le_bytes()"
            else:
                # the decoded array is the one filled from value_index.value()
                cps = [(i, t) for i, t in cfg.calls(b) if i in reg and last(cfg.callee(t)) == "copy_from_slice"]
                arr = cfg.op_origin(b, dec[0][1]["a"][0])
                good = len(cps) == 1 and len(iv) == 1 and arr is not None
                if good:
                    dst = cfg.op_origin(b, cps[0][1]["a"][0])
                    src = cfg.op_origin(b, cps[0][1]["a"][1])
                    good = dst is not None and dst[0] == arr[0] and src is not None and src[0] == iv[0][1]["d"][0]
                if not good:
                    row["place"] = "?"
                    row["why"] = "from_le_bytes() does not decode the bytes copied from value_index.value()"
        elif st and not iv:
            row["place"] = "out" if idx_ok and len(st) == 1 else "?"
            if not idx_ok:
                row["why"] = "storage.value is not addressed by StorageIndex(value_index.index())"
        elif st and iv and len(isv) == 1:
            edges = cfg.bool_switches(b, cfg.derived_locals(b, [isv[0][1]["d"][0]]))
            ok = len(edges) == 1 and idx_ok
            if ok:
                te, fe = edges[0]["true_edge"], edges[0]["false_edge"]
                start = [row["start"]]
                ok = (cfg.find_path(b, start, [i for i, t in iv], removed_edges=[te], avoid=[i0]) is None and
                      cfg.find_path(b, start, [i for i, t in st], removed_edges=[fe], avoid=[i0]) is None and
                      cfg.find_path(b, start, [i for i, t in iv], avoid=[i0]) is not None and
                      cfg.find_path(b, start, [i for i, t in st], avoid=[i0]) is not None)
            row["place"] = "mixed" if ok else "?"
            if not ok:
                row["why"] = "inline/out-of-line reads are not selected by is_value()"
        else:
            row["place"] = "?"
            row["why"] = "calls value() x%d, is_value() x%d, storage.value x%d" % (len(iv), len(isv), len(st))
        tbl[v] = row
    # the default arm must not construct a value (unknown tags are rejected, not decoded)
    dflt = cfg.reachable(b, [t0["else"]], avoid=[i0])[0] if t0.get("else") is not None else set()
    dflt_only = set(dflt)
    for v, tb in t0["ts"]:
        dflt_only -= cfg.reachable(b, [tb], avoid=[i0])[0]
    dflt_aggs = [bi for bi, s in cfg.assigns(b) if bi in dflt_only and s["r"]["k"] == "agg" and s["r"].get("adt") == DV]
    return tbl, dflt_aggs


def hir_names(fa, b, scrut_pred):
    ms = [m for m in fa.matches(b.path) if scrut_pred(m)]
    return ms[0] if ms else None


def consts_of(b, kinds, ops):
    """constants (int) appearing as an operand of bin ops `ops` in body b"""
    out = []
    for bi, s in cfg.assigns(b):
        r = s["r"]
        if r["k"] == "bin" and r["op"] in ops:
            for o in (r["a"], r["b"]):
                c = cfg.op_const(o)
                if c and "v" in c:
                    out.append(c["v"])
    return out


def sibling_writers_rule(ctx, wt_main, rule="R12d"):
    """Every function that writes a type tag (DbValueIndex::set_type) next to an out-of-line store must encode the payload
    exactly as store_db_value does for that tag: raw bytes (insert_bytes / replace_with_bytes) for Bytes, the serialized
    form (insert::<T> / replace::<T>) for the others.  A second writer that re-uses a storage slot with the other encoder
    produces a value load_db_value cannot decode."""
    fa = ctx.facts
    main_by_tag = {}
    for name, row in (wt_main or {}).items():
        if len(row["tags"]) == 1 and row["tags"][0] is not None:
            main_by_tag[row["tags"][0]] = (name, row["payload"])
    RAW = ("insert_bytes", "replace_with_bytes")       # whole-record raw writers: record size == payload size
    RAW_PARTIAL = ("insert_bytes_at",)                    # writes into a record without setting its size
    SER = ("insert", "replace", "insert_at")
    n = 0
    for b in sorted(fa.bodies.values(), key=lambda x: x.path):
        if b.crate != "agdb" or common.norm(b.npath) == DV + "::store_db_value" or "::tests::" in b.path:
            continue
        st_calls = [(i, t) for i, t in cfg.calls(b) if common.norm(cfg.callee(t) or "") == VI + "set_type"]
        if not st_calls:
            continue
        if common.norm(b.npath).startswith(VI):
            continue        # the accessor itself and its unit-level helpers
        n += 1
        # regions: per arm of a `match` on a DbValue, else the whole body
        sw = None
        for i, blk in enumerate(b.blocks):
            t = blk["term"]
            if t["k"] != "switch":
                continue
            pl = cfg.op_place(t["d"])
            ds = cfg.defs(b).get(pl[0], []) if pl else []
            if ds and ds[0][0] == "assign" and ds[0][2]["k"] == "discr" and ds[0][2].get("enum") == DV:
                sw = (i, t)
                break
        regs = regions(b, sw[0], sw[1]) if sw else {None: set(range(len(b.blocks)))}
        for v, reg in regs.items():
            tags = []
            for i, t in st_calls:
                if i in reg:
                    c = cfg.op_const(t["a"][1]) if len(t["a"]) > 1 else None
                    tags.append(c.get("v") if c else None)
            if len(set(tags)) != 1 or tags[0] is None:
                continue
            only = set(reg)
            for v2, r2 in regs.items():
                if v2 != v:
                    only -= r2
            enc = set()
            for i, t in cfg.calls(b):
                if i not in only:
                    continue
                c = cfg.callee(t) or ""
                if c.startswith(ST) and last(c) in RAW:
                    enc.add("bytes")
                elif c.startswith(ST) and last(c) in RAW_PARTIAL:
                    enc.add("bytes written at an offset (the record keeps its old size; raw values are read back as the whole record)")
                elif c.startswith(ST) and last(c) in SER:
                    enc.add(generic_arg(cfg.callee_full(t)) or "serialized")
            if not enc:
                continue
            name, want = main_by_tag.get(tags[0], (None, None))
            ok = want is not None and enc == {want}
            ctx.ob(rule, "%s:tag%s" % (common.norm(b.npath).split("::")[-1], tags[0]), ok,
                   "tag %s (%s) payload encoded as %s, like store_db_value" % (tags[0], name, want) if ok else
                   "`%s` stores a value with type tag %s (%s in store_db_value, payload `%s`) through %s: load_db_value "
                   "decodes that tag with the other codec" % (common.norm(b.npath), tags[0], name, want, sorted(enc)),
                   b.loc(st_calls[0][0]))
    ctx.note("R12d: %d additional writer(s) of type tags next to store_db_value" % n)


def run(ctx):
    fa = ctx.facts
    w = ctx.anchor("R12a", DV + "::store_db_value")
    r = ctx.anchor("R12a", DV + "::load_db_value")
    wt = rt = None
    if w and r:
        wt = writer_table(ctx, w)
        rt, dflt_aggs = reader_table(ctx, r)
        if wt is None:
            ctx.ob("R12a", "writer:table", False, "`match self` over DbValue not found in store_db_value (idiom not recognised)", w.where)
        if rt is None:
            ctx.ob("R12a", "reader:table", False, "`match value_index.get_type()` not found in load_db_value (idiom not recognised)", r.where)
    if wt is not None and rt is not None:
        # variant inventory = the ADT's variants = the frozen nine
        adt = fa.adts.get(DV)
        adt_vs = [v["name"] for v in adt["variants"]] if adt else []
        ctx.ob("R12a", "variants", adt_vs == VARIANTS and sorted(wt) == sorted(VARIANTS),
               "DbValue has the nine variants %s and the writer has one arm for each" % VARIANTS
               if adt_vs == VARIANTS and sorted(wt) == sorted(VARIANTS) else
               "DbValue variants %s / writer arms %s differ from the frozen nine %s" % (adt_vs, sorted(wt), VARIANTS), w.where)
        by_variant = {}
        for tag, row in rt.items():
            for v in row["variants"]:
                by_variant.setdefault(v, []).append(tag)
        for name in sorted(set(VARIANTS) | set(wt)):
            wr = wt.get(name)
            if not wr:
                ctx.ob("R12a", "tag[%s]" % name, False, "store_db_value has no arm for DbValue::%s" % name, w.where)
                continue
            wtags = wr["tags"]
            rtags = by_variant.get(name, [])
            ok = len(wtags) == 1 and wtags[0] is not None and rtags == [wtags[0]] and rt[wtags[0]]["variants"] == [name]
            ctx.ob("R12a", "tag[%s]" % name, ok,
                   "written tag %s (%s) == tag of the reader arm that builds DbValue::%s" % (wtags[0], wr["cnames"][0], name) if ok else
                   "DbValue::%s is stored with type tag %s (%s) but load_db_value builds DbValue::%s for tag(s) %s and builds %s for tag %s: "
                   "a stored %s reads back as a different type" % (
                       name, wtags, wr["cnames"], name, rtags,
                       rt.get(wtags[0], {}).get("variants") if wtags else None, wtags[0] if wtags else None, name),
                   w.loc(wr["start"]) if wr["start"] is not None else w.where)
            rr = rt.get(wtags[0]) if len(wtags) == 1 else None
            want = PLACEMENT.get(name)
            okp = rr is not None and wr["place"] == rr["place"] == want
            ctx.ob("R12a", "placement[%s]" % name, okp,
                   "%s on both sides" % want if okp else
                   "DbValue::%s placement: writer %s%s, reader %s%s, documented %s" % (
                       name, wr["place"], " (%s)" % wr["why"] if wr["why"] else "", rr["place"] if rr else None,
                       " (%s)" % rr["why"] if rr and rr["why"] else "", want),
                   w.loc(wr["start"]) if wr["start"] is not None else w.where)
            if want in ("out", "inline") or name == "String":
                okc = rr is not None and wr["payload"] is not None and wr["payload"] == rr["payload"]
                ctx.ob("R12a", "codec[%s]" % name, okc,
                       "payload %s on both sides" % wr["payload"] if okc else
                       "DbValue::%s payload codec differs: written as %s, read as %s" % (
                           name, wr["payload"], rr["payload"] if rr else None),
                       w.loc(wr["start"]) if wr["start"] is not None else w.where)
            elif name == "Bytes":
                okc = rr is not None and wr["payload"] == rr["payload"] == "bytes"
                ctx.ob("R12a", "codec[Bytes]", okc, "insert_bytes / value_as_bytes" if okc else
                       "DbValue::Bytes out-of-line codec differs: written via %s, read via %s" % (wr["payload"], rr["payload"] if rr else None),
                       w.where)
        tags = [row["tags"][0] for row in wt.values() if len(row["tags"]) == 1 and row["tags"][0] is not None]
        ok = len(tags) == len(VARIANTS) and len(set(tags)) == len(tags) and all(0 <= t < 16 for t in tags)
        ctx.ob("R12a", "tags:distinct<16", ok, "tags %s distinct and below 16" % sorted(tags) if ok else
               "type tags %s are not nine distinct values below 16 (the type field is four bits wide)" % sorted(tags), w.where)
        ok = sorted(rt) == sorted(tags)
        ctx.ob("R12a", "tags:reader-domain", ok, "reader matches exactly the written tags" if ok else
               "load_db_value matches tags %s but store_db_value writes %s" % (sorted(rt), sorted(tags)), r.where)
        ctx.ob("R12a", "reader:default-arm", not dflt_aggs, "unknown tags construct no value" if not dflt_aggs else
               "the default arm of load_db_value constructs a DbValue (unknown tags are decoded as something)", r.where)
        # HIR cross-read: constant names of the writer arms == patterns of the reader arms building the same variant
        hm_w = hir_names(fa, w, lambda m: m["scrut_ty"].endswith("DbValue"))
        hm_r = hir_names(fa, r, lambda m: "get_type" in " ".join(m["scrut_sum"]["calls"]))
        if hm_w and hm_r:
            wn = {}
            for a in hm_w["arms"]:
                cs = [last(p) for p in a["body"]["paths"] if p.startswith("agdb::db::db_value::") and p.endswith("_META_VALUE")]
                wn[last(a["p"].get("path"))] = cs
            rn = {}
            for a in hm_r["arms"]:
                vs = sorted({last(p) for p in a["body"]["paths"] if p.startswith(DV + "::")})
                if a["p"].get("path"):
                    for v in vs:
                        rn.setdefault(v, []).append(last(a["p"]["path"]))
            ok = all(wn.get(v) == rn.get(v) and len(wn.get(v) or []) == 1 for v in VARIANTS)
            ctx.ob("R12a", "hir:constant-names", ok, "same named constant on both sides for all nine variants" if ok else
                   "HIR tables disagree: writer %s, reader %s" % (wn, rn), w.where)
        else:
            ctx.ob("R12a", "hir:constant-names", False, "HIR match tables of store_db_value/load_db_value not found", w.where)
        ctx.floor("R12a", "writer arms", len(wt), 9)
        ctx.floor("R12a", "reader arms", len(rt), 9)

    sibling_writers_rule(ctx, wt)

    # ---------------- R12b
    fn = {}
    for n in ("set_value", "size", "set_size", "get_type", "set_type", "is_value", "set_index", "value", "index"):
        fn[n] = ctx.anchor("R12b", VI + n)
    if all(fn.values()):
        b = fn["set_value"]
        lens = [t["d"][0] for i, t in cfg.calls(b) if last(cfg.callee(t)) == "len" and cfg.op_origin(b, t["a"][0])[0] == 2]
        lim = None
        guard = None
        for bi, s in cfg.assigns(b):
            rv = s["r"]
            if rv["k"] == "bin" and rv["op"] in ("Gt", "Ge", "Le", "Lt") and cfg.op_place(rv["a"]) and cfg.op_place(rv["a"])[0] in lens:
                c = cfg.op_const(rv["b"])
                if c and "v" in c:
                    # `len > 15` / `len >= 16` reject when true; `len <= 15` / `len < 16` accept when true
                    lim = c["v"] if rv["op"] in ("Gt", "Le") else c["v"] - 1
                    sws = cfg.bool_switches(b, cfg.derived_locals(b, [s["l"][0]]))
                    guard = sws[0] if len(sws) == 1 else None
                    if guard is not None and rv["op"] in ("Le", "Lt"):
                        guard = {"true_edge": guard["false_edge"], "false_edge": guard["true_edge"]}     # in reject-if terms
        ss = calls_in(b, set(range(len(b.blocks))), VI + "set_size")
        cp = [i for i, t in cfg.calls(b) if last(cfg.callee(t)) == "copy_from_slice"]
        ok = lim is not None and guard is not None and bool(ss) and bool(cp)
        if ok:
            # writes happen only when len <= limit
            ok = cfg.find_path(b, [0], [ss[0][0]] + cp, removed_edges=[guard["false_edge"]]) is None
            # the rejecting branch returns false, the accepting one true
            rets = {}
            for bi, s in cfg.assigns(b):
                if s["l"] == [0] and cfg.op_const(s["r"].get("o", {})):
                    rets[bi] = cfg.op_const(s["r"]["o"]).get("c")
            tb = guard["true_edge"][1]
            t_reg = cfg.reachable(b, [tb])[0] - cfg.reachable(b, [guard["false_edge"][1]])[0]
            f_reg = cfg.reachable(b, [guard["false_edge"][1]])[0] - cfg.reachable(b, [tb])[0]
            ok = ok and [rets[x] for x in rets if x in t_reg] == ["false"] and [rets[x] for x in rets if x in f_reg] == ["true"]
            # size argument is the slice length
            o = cfg.op_origin(b, ss[0][1]["a"][1])
            ok = ok and o is not None and (o[0] in lens or (cfg.def_call(b, o[0]) and last(cfg.callee(cfg.def_call(b, o[0])[1])) == "len"))
        ctx.ob("R12b", "set_value:limit", ok and lim == 15,
               "rejects len > 15 (returns false, writes nothing); otherwise set_size(len) + copy, returns true" if ok and lim == 15 else
               "DbValueIndex::set_value inline limit is %s / not guarding the write (expected: reject len > 15)" % lim, b.where)
        smask = consts_of(fn["size"], None, ("BitAnd",))
        ok = smask == [15]
        ctx.ob("R12b", "size:mask", ok, "size() = value[15] & 0x0f" if ok else "size() masks with %s, expected [15]" % smask, fn["size"].where)
        ok = smask == [15] and lim is not None and lim == smask[0]
        ctx.ob("R12b", "limit==mask", ok, "inline limit 15 == largest value of the 4-bit size field" if ok else
               "inline limit %s does not equal the size mask %s: a length can be accepted that the size field cannot hold" % (lim, smask), b.where)
        m = sorted(consts_of(fn["set_size"], None, ("BitAnd",)))
        ok = m == [15, 240]
        ctx.ob("R12b", "set_size:masks", ok, "set_size keeps the type nibble (0xf0) and stores size & 0x0f" if ok else
               "set_size masks %s, expected [15, 240]" % m, fn["set_size"].where)
        sh_g = consts_of(fn["get_type"], None, ("Shr",))
        sh_s = consts_of(fn["set_type"], None, ("Shl",))
        ok = sh_g == [4] and sh_s == [4] and bool(calls_in(fn["set_type"], set(range(len(fn["set_type"].blocks))), VI + "size"))
        ctx.ob("R12b", "type:nibble", ok, "set_type = (v << 4) | size(), get_type = value[15] >> 4" if ok else
               "type nibble shifts differ: get_type >> %s, set_type << %s" % (sh_g, sh_s), fn["get_type"].where)
        # all of them address byte 15
        idxs = {}
        for n in ("size", "set_size", "get_type", "set_type"):
            bb = fn[n]
            cs = set()
            for bi, s in cfg.assigns(bb):
                for pl in [s["l"]] + [cfg.op_place(o) for o in cfg.rvalue_operands(s["r"]) if cfg.op_place(o)]:
                    for e in pl[1:]:
                        if e.startswith("[_"):
                            loc = int(e[2:-1])
                            ds = cfg.defs(bb).get(loc, [])
                            if ds and ds[0][0] == "assign" and cfg.op_const(ds[0][2].get("o", {})):
                                cs.add(cfg.op_const(ds[0][2]["o"]).get("v"))
            idxs[n] = sorted(cs)
        ok = all(v == [15] for v in idxs.values())
        ctx.ob("R12b", "meta-byte", ok, "type and size live in byte 15" if ok else "meta byte index differs: %s" % idxs, fn["size"].where)
        b = fn["set_index"]
        ss = calls_in(b, set(range(len(b.blocks))), VI + "set_size")
        c = cfg.op_const(ss[0][1]["a"][1]) if len(ss) == 1 else None
        enc = [t for i, t in cfg.calls(b) if last(cfg.callee(t)) == "to_le_bytes" and cfg.op_origin(b, t["a"][0])[0] == 2]
        ok = bool(c and c.get("v") == 0 and enc)
        ctx.ob("R12b", "set_index", ok, "set_index clears the size and stores index.to_le_bytes()" if ok else
               "set_index no longer clears the inline size / stores the index little-endian", b.where)
        b = fn["index"]
        dec = [t for i, t in cfg.calls(b) if last(cfg.callee(t)) == "from_le_bytes" and prim_of(cfg.callee_full(t)) == "u64"]
        ctx.ob("R12b", "index", bool(dec), "index() = u64::from_le_bytes(value[0..8])" if dec else "index() no longer decodes a little-endian u64", b.where)
        b = fn["is_value"]
        sz = calls_in(b, set(range(len(b.blocks))), VI + "size")
        ix = calls_in(b, set(range(len(b.blocks))), VI + "index")
        ok = len(sz) == 1 and len(ix) == 1
        if ok:
            tests = {}
            for bi, s in cfg.assigns(b):
                rv = s["r"]
                if rv["k"] == "bin" and rv["op"] in ("Ne", "Eq") and cfg.op_place(rv["a"]) and cfg.op_const(rv["b"]):
                    tests[cfg.op_place(rv["a"])[0]] = (rv["op"], cfg.op_const(rv["b"]).get("v"))
            ok = tests.get(sz[0][1]["d"][0]) == ("Ne", 0) and tests.get(ix[0][1]["d"][0]) == ("Eq", 0)
        ctx.ob("R12b", "is_value", ok, "is_value() = size() != 0 || index() == 0" if ok else
               "is_value() is no longer `size() != 0 || index() == 0`", b.where)
        b = fn["value"]
        sz = calls_in(b, set(range(len(b.blocks))), VI + "size")
        ok = len(sz) == 1
        if ok:
            rng = [s["r"] for bi, s in cfg.assigns(b) if s["r"]["k"] == "agg" and last(s["r"].get("adt")) == "Range"]
            ok = len(rng) == 1 and (cfg.op_const(rng[0]["ops"][0]) or {}).get("v") == 0 and \
                cfg.op_origin(b, rng[0]["ops"][1]) is not None and \
                sz[0][1]["d"][0] in cfg.derived_locals(b, [sz[0][1]["d"][0]]) and \
                cfg.op_place(rng[0]["ops"][1])[0] in cfg.derived_locals(b, [sz[0][1]["d"][0]])
        ctx.ob("R12b", "value", ok, "value() = value[0..size()]" if ok else "value() no longer returns the first size() bytes", b.where)

    # ---------------- R12c
    if wt is not None and rt is not None and "F64" in wt:
        wr = wt["F64"]
        order = []
        cur = wr["start"]
        # straight-line arm: follow the unique successor chain inside the region
        seen = set()
        while cur is not None and cur in wr["region"] and cur not in seen:
            seen.add(cur)
            t = w.blocks[cur]["term"]
            if t["k"] == "call":
                order.append(last(cfg.callee(t)))
            ss = [x for x in cfg.succs(w, cur) if x in wr["region"]]
            cur = ss[0] if len(ss) == 1 else None
        ar = arith_in(w, wr["region"])
        want = ["set_type", "to_f64", "to_le_bytes", "set_value"]
        ok = order == want and not ar and wr["payload"] == "f64"
        ctx.ob("R12c", "writer:f64", ok, "set_type; to_f64 -> f64::to_le_bytes -> set_value, no arithmetic" if ok else
               "F64 writer path is %s (arithmetic/casts: %s), expected %s" % (order, ar, want), w.loc(wr["start"]))
        tag = wr["tags"][0] if len(wr["tags"]) == 1 else None
        rr = rt.get(tag)
        if rr:
            order = []
            cur = rr["start"]
            seen = set()
            while cur is not None and cur in rr["region"] and cur not in seen:
                seen.add(cur)
                t = r.blocks[cur]["term"]
                if t["k"] == "call":
                    order.append(last(cfg.callee(t)))
                ss = [x for x in cfg.succs(r, cur) if x in rr["region"]]
                cur = ss[0] if len(ss) == 1 else None
            ar = arith_in(r, rr["region"])
            want = ["value", "copy_from_slice", "from_le_bytes", "from"]
            froms = [cfg.callee(t) for i, t in cfg.calls(r) if i in rr["region"] and last(cfg.callee(t)) == "from"]
            # `DbF64::from(x)` or the equivalent `x.into()` (blanket Into: f64 -> DbF64)
            intos = [t for i, t in cfg.calls(r) if i in rr["region"] and last(cfg.callee(t)) == "into" and t["a"] and
                     cfg.op_place(t["a"][0]) and r.local_ty(cfg.op_place(t["a"][0])[0]) == "f64" and
                     r.local_ty(t["d"][0]).endswith("DbF64")]
            conv_ok = froms == ["<agdb::db::db_f64::DbF64 as std::convert::From<f64>>::from"] or (not froms and len(intos) == 1)
            ok = (order == want or order == want[:-1] + ["into"]) and not ar and rr["payload"] == "f64" and conv_ok
            ctx.ob("R12c", "reader:f64", ok, "value() -> copy_from_slice -> f64::from_le_bytes -> DbF64::from, no arithmetic" if ok else
                   "F64 reader path is %s via %s (arithmetic/casts: %s), expected %s" % (order, froms, ar, want), r.loc(rr["start"]))
        else:
            ctx.ob("R12c", "reader:f64", False, "no reader arm for the F64 tag %s" % tag, r.where)
    b = ctx.anchor("R12c", "<agdb::db::db_f64::DbF64 as std::convert::From<f64>>::from")
    if b:
        aggs = [s["r"] for bi, s in cfg.assigns(b) if s["r"]["k"] == "agg"]
        ok = len(aggs) == 1 and last(aggs[0].get("adt")) == "DbF64" and cfg.op_origin(b, aggs[0]["ops"][0])[0] == 1 and \
            not arith_in(b, set(range(len(b.blocks)))) and not cfg.calls(b)
        ctx.ob("R12c", "DbF64::from", ok, "DbF64(value): field move" if ok else "DbF64::from(f64) is no longer a plain field move", b.where)
    b = ctx.anchor("R12c", "agdb::db::db_f64::DbF64::to_f64")
    if b:
        ss = [s for bi, s in cfg.assigns(b)]
        ok = len(ss) == 1 and ss[0]["l"] == [0] and ss[0]["r"]["k"] == "use" and \
            cfg.op_place(ss[0]["r"]["o"]) == [1, "*", ".0"] and not cfg.calls(b)
        ctx.ob("R12c", "DbF64::to_f64", ok, "self.0: field move" if ok else "DbF64::to_f64 is no longer a plain field read", b.where)
    # the out-of-line f64 codec (Vec<DbF64> elements)
    S = "agdb::utilities::serialize::Serialize"
    for ty, fnn, want in (("f64", "serialize", ["to_le_bytes", "to_vec"]),
                          ("agdb::db::db_f64::DbF64", "serialize", ["serialize"]),
                          ("agdb::db::db_f64::DbF64", "deserialize", ["deserialize", "branch", "from"])):
        b = ctx.anchor("R12c", "<%s as %s>::%s" % (ty, S, fnn))
        if not b:
            continue
        names = [last(cfg.callee(t)) for i, t in cfg.calls(b) if last(cfg.callee(t)) not in ("from_residual",)]
        fulls = [cfg.callee_full(t) or "" for i, t in cfg.calls(b)]
        ar = arith_in(b, set(range(len(b.blocks))))
        ok = names == want and not ar
        if ty == "f64":
            ok = ok and prim_of(fulls[0]) == "f64"
        else:
            ok = ok and any(f.startswith("<f64 as " + S) for f in fulls)
        ctx.ob("R12c", "%s::%s" % (last(ty), fnn), ok, "calls %s, no arithmetic" % names if ok else
               "<%s as Serialize>::%s calls %s (arithmetic/casts %s), expected %s on f64" % (ty, fnn, names, ar, want), b.where)
    b = ctx.anchor("R12c", "<f64 as %s>::deserialize" % S)
    if b:
        dec = [t for i, t in cfg.calls(b) if last(cfg.callee(t)) == "from_le_bytes"]
        other = [last(cfg.callee(t)) for i, t in cfg.calls(b) if last(cfg.callee(t)) in ("from_bits", "to_bits", "from_be_bytes", "from_ne_bytes")]
        ar = [a for a in arith_in(b, set(range(len(b.blocks)))) if not a.startswith("cast")]
        ok = len(dec) == 1 and prim_of(cfg.callee_full(dec[0])) == "f64" and not other and not ar
        ctx.ob("R12c", "f64::deserialize", ok, "f64::from_le_bytes of the first 8 bytes, no arithmetic" if ok else
               "<f64 as Serialize>::deserialize no longer decodes with f64::from_le_bytes only (%s, %s)" % (other, ar), b.where)
    # "reads back identical from every database variant": the file-only variant reads through one shared OS handle and
    # returns bytes of the wrong offset unless the cursor discipline holds (R23b)
    from rules import C23
    C23.cursor_rule(ctx)
    # float keys / values: DbF64's equality must agree with its order and hashes (R09e, shared with C09)
    from rules import C09
    C09.float_key_rule(ctx)
    return 0
