"""C22 — user types stored with the derive macros read back unchanged."""
import re
from lib import cfg
from rules import common

EXPLANATION = (
    "Static analysis: (R22a) in agdb_derive/src/db_type.rs the three per-field generators impl_to_db_value, "
    "impl_from_db_element and impl_db_key are applied with filter_map over the same `data.fields.iter()`, each obtains the "
    "key only through field_name(f) (the only String interpolated into the generated tokens), each tests the field "
    "identifier against the same kind of constant first (db_id exclusion) and applies the frozen set of classification "
    "predicates (is_skip_type / is_flatten_type / is_option_type) to the same field; derive_impl empties db_keys exactly "
    "when a non-db_id field is an Option. (R22b) for every DbType impl of the workspace (derive-expanded: server and api "
    "types; hand-written: raft Log) the (key, field) pairs pushed by to_db_values, the key under which from_db_element "
    "looks each field up and the keys listed by db_keys agree; db_id is taken from element.id and never written as a value.")
DECIDED = ["R22a derive generators: same field sequence, key through field_name, same classification (SIBLING)",
           "R22b per-type key tables of to_db_values / from_db_element / db_keys agree (TABLE)",
           "R08c properties die with the element (shared with C08)",
           "R22c batch entries keyed by alias are looked up when they are applied (same loop nesting as the creation)",
           "R12a-d value storage codecs (re-evaluated, shared with C12)"]
UNDECIDED = ["arbitrary user programs outside the workspace (only the generators and the in-workspace expansions are analysed)",
             "value equality after the round trip (needs execution)",
             "the string the generated find_map closure compares with is a promoted constant that is not in the facts; the "
             "lookup key is read from the sibling message constants generated from the same `str_name` token (R22a checks "
             "that field_name(f) is the only string interpolated by the generator)"]

DT = "agdb_derive::db_type::"
TRAITS = ("agdb::DbType", "agdb::db::db_type::DbType")
GEN = {  # generator -> (identifier test, predicates applied to the field)
    "impl_to_db_value": ("ne", {"is_skip_type", "is_option_type", "is_flatten_type"}),
    "impl_from_db_element": ("eq", {"is_skip_type", "is_option_type", "is_flatten_type"}),
    "impl_db_key": ("ne", {"is_skip_type", "is_flatten_type"}),
}
DERIVED_FLOOR = 4


def last(p):
    return (p or "").split("::")[-1]


class Unrec(Exception):
    pass


def chase(b, op, depth=0, suffix=()):
    c = cfg.op_const(op)
    if c is not None:
        return ("const", c.get("c"), c.get("ty"))
    pl = cfg.op_place(op)
    if pl is None or depth > 16:
        return ("?",)
    proj = tuple(e for e in pl[1:] if e != "*") + tuple(suffix)
    if pl[0] <= b.d["argc"] and pl[0] != 0:
        return ("param", pl[0], proj)
    ds = cfg.defs(b).get(pl[0], [])
    if len(ds) != 1:
        return ("local", pl[0], proj)
    d = ds[0]
    if d[0] == "call":
        return ("call", d[1], d[2], proj)
    if d[0] == "assign":
        r = d[2]
        if r["k"] in ("use", "cast"):
            return chase(b, r["o"], depth + 1, proj)
        if r["k"] == "ref":
            return chase(b, {"cp": r["p"]}, depth + 1, proj)
        if r["k"] == "agg":
            return ("agg", r, proj)
    return ("local", pl[0], proj)


def str_const(c):
    """text of a `const "abc"` operand constant, else None"""
    if c and c.get("ty") in ("&str", "&'static str") and isinstance(c.get("c"), str) and c["c"].startswith('"') and c["c"].endswith('"'):
        return c["c"][1:-1]
    return None


# ------------------------------------------------------------------ R22a

def fields_source(b, t):
    """source of a `.filter_map(generator)` call: (root local/param of `X.fields`, adaptors, generator fn)"""
    names = [last(cfg.callee_decl(t))]
    root = None
    c = chase(b, t["a"][0])
    if c[0] == "call":
        names.insert(0, last(cfg.callee_decl(c[2])))
        o = cfg.op_origin(b, c[2]["a"][0]) if c[2]["a"] else None
        if o and o[1][-1:] == [".fields"]:
            root = (o[0],) + tuple(o[1])
    g = cfg.op_const(t["a"][1]) if len(t["a"]) > 1 else None
    return root, names, (g or {}).get("fn")


def r22a(ctx):
    fa = ctx.facts
    # the three generators are driven by filter_map over data.fields.iter()
    drivers = {"impl_to_db_value": "to_db_values", "impl_db_key": "db_keys", "impl_from_db_element": "derive_impl"}
    found = {}
    for gen, host in drivers.items():
        hb = ctx.anchor("R22a", DT + host)
        if not hb:
            continue
        for i, t in cfg.calls(hb):
            if last(cfg.callee_decl(t)) in ("filter_map", "map", "flat_map", "filter"):
                root, chain, g = fields_source(hb, t)
                if g == DT + gen:
                    found[gen] = (root, chain, hb)
    for gen in drivers:
        f = found.get(gen)
        ok = f is not None and f[1] == ["iter", "filter_map"] and f[0] is not None and f[0][-1:] == (".fields",)
        ctx.ob("R22a", gen + ":sequence", ok,
               "applied as data.fields.iter().filter_map(%s)" % gen if ok else
               "%s is not applied with filter_map directly over data.fields.iter(): %s" % (gen, f and (f[0], f[1])),
               f[2].where if f else "")
    # all three walk the fields of the same DataStruct: derive_impl hands its `data` to to_db_values / db_keys
    d0 = fa.body(DT + "derive_impl")
    if d0 is not None and "impl_from_db_element" in found and found["impl_from_db_element"][0]:
        data_local = found["impl_from_db_element"][0][0]
        same = []
        for host in ("to_db_values", "db_keys"):
            cs = [t for i, t in cfg.calls(d0) if cfg.callee(t) == DT + host]
            same.append(len(cs) == 1 and cfg.op_origin(d0, cs[0]["a"][0]) is not None and cfg.op_origin(d0, cs[0]["a"][0])[0] == data_local)
        inner = all(found.get(g) and found[g][0] and found[g][0][0] == 1 for g in ("impl_to_db_value", "impl_db_key"))
        ok = all(same) and inner
        ctx.ob("R22a", "same-struct", ok, "the three generators walk the fields of the same syn::DataStruct" if ok else
               "to_db_values/db_keys are not generated from the struct whose fields from_db_element walks", d0.where)
    # per generator: key through field_name(f); classification predicates on f; identifier test first
    for gen, (idtest, preds) in GEN.items():
        b = ctx.anchor("R22a", DT + gen)
        if not b:
            continue
        fn_calls = [(i, t) for i, t in cfg.calls(b) if cfg.callee(t) == DT + "field_name"]
        ok = len(fn_calls) == 1 and chase(b, fn_calls[0][1]["a"][0])[:2] == ("param", 1)
        key_local = fn_calls[0][1]["d"][0] if ok else None
        strs = [(i, t) for i, t in cfg.calls(b) if (cfg.callee_full(t) or "").startswith("<std::string::String as quote::ToTokens>")
                or (cfg.callee_full(t) or "").startswith("<&str as quote::ToTokens>") or
                (cfg.callee_full(t) or "").startswith("<str as quote::ToTokens>")]
        foreign = [i for i, t in strs if not (cfg.op_origin(b, t["a"][0]) and cfg.op_origin(b, t["a"][0])[0] == key_local)]
        other_names = [last(cfg.callee(t)) for i, t in cfg.calls(b) if last(cfg.callee(t)) in ("to_string", "format", "unraw")]
        ok = ok and bool(strs) and not foreign and not other_names
        ctx.ob("R22a", gen + ":key", ok,
               "key = field_name(f); it is the only string interpolated (%d uses)" % len(strs) if ok else
               "%s: key is not obtained only through field_name(f) (field_name calls %d, string tokens from elsewhere at %s, %s)" % (
                   gen, len(fn_calls), [b.loc(i) for i in foreign], other_names), b.where)
        used = {}
        for i, t in cfg.calls(b):
            n = cfg.callee(t) or ""
            if n.startswith(DT) and last(n).startswith("is_"):
                used.setdefault(last(n), []).append(chase(b, t["a"][0])[:2] == ("param", 1))
        okp = set(used) == preds and all(all(v) for v in used.values())
        ctx.ob("R22a", gen + ":classification", okp,
               "predicates %s applied to the field" % sorted(used) if okp else
               "%s applies %s to the field, expected %s" % (gen, {k: v for k, v in used.items()}, sorted(preds)), b.where)
        # identifier test: f.ident compared with a constant, dominating every predicate and field_name
        tests = [(i, t) for i, t in cfg.calls(b) if last(cfg.callee(t)) in ("eq", "ne") and "Ident" in (cfg.callee_full(t) or "")
                 and "PartialEq<&str>" in (cfg.callee_full(t) or "")]
        okt = len(tests) == 1
        if okt:
            # the compared identifier is the field's own (`&f.ident`, `f.ident.as_ref()?`, ...), the other side a constant
            pl0 = cfg.op_place(tests[0][1]["a"][0])
            reads0 = cfg.backward_slice(b, [pl0[0]])[2] if pl0 else set()
            okt = (1, ".ident") in reads0
            k = chase(b, tests[0][1]["a"][1])
            okt = okt and k[0] == "const"
            later = [i for i, t in cfg.calls(b) if (cfg.callee(t) or "").startswith(DT)]
            sws_ = cfg.bool_switches(b, cfg.derived_locals(b, [tests[0][1]["d"][0]]))
            is_ne = last(cfg.callee(tests[0][1])) == "ne"
            if idtest == "ne":
                # the generator works on the field only when it is NOT the id: every predicate / field_name call is cut
                # by the `ident != ID` edge (spelled `name != DB_ID` or `if name == DB_ID { return None }`)
                permit = [sw_["true_edge"] if is_ne else sw_["false_edge"] for sw_ in sws_]
                okt = okt and bool(permit) and all(cfg.find_path(b, [0], [i], removed_edges=permit) is None for i in later)
            else:
                okt = okt and bool(sws_)
        ctx.ob("R22a", gen + ":db_id-test", okt,
               "f.ident %s <constant> decides first whether the field is the id" % ("!=" if idtest == "ne" else "==") if okt else
               "%s: the identifier test against the id constant is missing or not first" % gen, b.where)
    # has_option empties db_keys: closure of derive_impl uses is_option_type with the id excluded
    d = ctx.anchor("R22a", DT + "derive_impl")
    if d:
        anys = [(i, t) for i, t in cfg.calls(d) if last(cfg.callee_decl(t)) == "any"]
        ok = False
        if len(anys) == 1:
            cbs = common.closure_bodies_passed(fa, d, anys[0][1])
            if len(cbs) == 1:
                cb = cbs[0]
                opt = [t for i, t in cfg.calls(cb) if cfg.callee(t) == DT + "is_option_type" and chase(cb, t["a"][0])[:2] == ("param", 2)]
                ne = [t for i, t in cfg.calls(cb) if last(cfg.callee(t)) == "ne" and "Ident" in (cfg.callee_full(t) or "")]
                src = chase(d, anys[0][1]["a"][0])
                ok = len(opt) == 1 and len(ne) == 1
            # db_keys() is called only on the !has_option branch
            sws = cfg.bool_switches(d, cfg.derived_locals(d, [anys[0][1]["d"][0]]))
            dk = [i for i, t in cfg.calls(d) if cfg.callee(t) == DT + "db_keys"]
            ok = ok and len(sws) == 1 and bool(dk) and cfg.find_path(d, [0], dk, removed_edges=[sws[0]["false_edge"]]) is None
        ctx.ob("R22a", "derive_impl:has_option", ok,
               "db_keys() is generated only when no non-id field is an Option (otherwise the key list is empty)" if ok else
               "derive_impl: the has_option test (is_option_type on non-id fields) no longer guards the db_keys() generator", d.where)


# ------------------------------------------------------------------ R22b

def dbtype_impls(fa):
    out = []
    for i in fa.impls:
        tr = i.get("trait") or ""
        if tr in TRAITS or last(tr) == "DbType":
            if i["self"].startswith("&"):
                continue        # blanket `impl DbType for &T` forwards to T
            out.append({"self": i["self"], "adt": i.get("self_adt"), "file": i.get("file"), "line": i.get("line"),
                        "derived": "DbType" in (i.get("x") or "") or "DbElement" in (i.get("x") or ""),
                        "items": dict((n, p) for n, p in i["items"]), "crate": i.get("crate")})
    return out


def into_source(b, op):
    """look through `.into()` / clone: the operand that was converted"""
    c = chase(b, op)
    guard = 0
    while c[0] == "call" and last(cfg.callee_decl(c[2])) in ("into", "clone", "from") and guard < 6:
        guard += 1
        c = chase(b, c[2]["a"][0])
    return c


def pushed_items(b):
    """operands appended to the returned Vec, in order: push(x) / vec![a, b, c] / extend(x)"""
    rets = [d for d in cfg.defs(b).get(0, [])]
    items = []
    if len(rets) == 1 and rets[0][0] == "assign" and rets[0][2]["k"] == "use" and cfg.op_place(rets[0][2]["o"]):
        buf = cfg.op_place(rets[0][2]["o"])[0]
        dom = cfg.dominators(b)
        steps = [(i, t) for i, t in cfg.calls(b) if last(cfg.callee(t)) in ("push", "extend") and t["a"] and
                 cfg.op_origin(b, t["a"][0]) and cfg.op_origin(b, t["a"][0])[0] == buf]
        steps.sort(key=lambda x: len(dom.get(x[0], ())))
        for i, t in steps:
            items.append((last(cfg.callee(t)), t["a"][1], i))
        return items
    if len(rets) == 1 and rets[0][0] == "call" and last(cfg.callee(rets[0][2])) in ("box_assume_init_into_vec_unsafe", "into_vec"):
        arrs = [s["r"] for bi, s in cfg.assigns(b) if s["r"]["k"] == "agg" and s["r"].get("what") == "array"]
        if len(arrs) == 1:
            return [("push", op, None) for op in arrs[0]["ops"]]
    if len(rets) == 1 and rets[0][0] == "call" and last(cfg.callee(rets[0][2])) == "new" and not cfg.calls(b)[1:]:
        return []
    raise Unrec("returned vector is neither filled by push/extend nor a vec![..] literal")


def to_table(b):
    """[(key, field key | None, kind)] written by to_db_values"""
    out = []
    for how, op, bb in pushed_items(b):
        if how == "extend":
            c = chase(b, op)
            if c[0] == "call" and last(cfg.callee_decl(c[2])) == "to_db_values":
                f = chase(b, c[2]["a"][0])
                out.append((None, f[2] if f[0] == "param" else None, "flatten"))
                continue
            raise Unrec("extend() of something that is not a nested to_db_values()")
        c = into_source(b, op)
        if c[0] != "agg" or c[1].get("what") != "tuple" or len(c[1]["ops"]) != 2:
            raise Unrec("pushed value is not `(key, value).into()`")
        k = str_const(cfg.op_const(c[1]["ops"][0]))
        if k is None:
            kk = chase(b, c[1]["ops"][0])
            k = kk[1][1:-1] if kk[0] == "const" and isinstance(kk[1], str) and kk[1].startswith('"') else None
        v = into_source(b, c[1]["ops"][1])
        field = None
        while v[0] == "call" and v[2]["a"]:
            # value computed from a field (e.g. self.data.serialize())
            v = chase(b, v[2]["a"][0])
        if v[0] == "param" and v[1] == 1:
            field = tuple(e for e in v[2] if e.startswith(".") and not e[1:].isdigit())
        out.append((k, field, "value"))
    return out


def keys_table(b):
    out = []
    for how, op, bb in pushed_items(b):
        if how == "extend":
            out.append(("flatten", None))
            continue
        c = into_source(b, op)
        k = c[1][1:-1] if c[0] == "const" and isinstance(c[1], str) and c[1].startswith('"') else None
        out.append(("key", k))
    return out


KEY_RX = re.compile(r"(?:Key |value of )'([^']*)'")


def quoted_keys(text):
    t = (text or "").replace("\\'", "'")
    return KEY_RX.findall(t)


def consts_in(body, blocks=None):
    out = []
    for bi, blk in enumerate(body.blocks):
        if blocks is not None and bi not in blocks:
            continue
        for s in blk["s"]:
            if "l" in s:
                for o in cfg.rvalue_operands(s["r"]):
                    c = cfg.op_const(o)
                    if c and isinstance(c.get("c"), str) and ("str" in c.get("ty", "") or "[u8" in c.get("ty", "")):
                        out.append(c["c"])
        t = blk["term"]
        if t["k"] == "call":
            for a in t["a"]:
                c = cfg.op_const(a)
                if c and isinstance(c.get("c"), str) and ("str" in c.get("ty", "") or "[u8" in c.get("ty", "")):
                    out.append(c["c"])
    return out


def from_table(fa, b, adt):
    """field name -> ('id',) | ('lookup', key, positional index) | ('flatten',) | ('default',) | ('?', why)"""
    aggs = [(bi, s["r"]) for bi, s in cfg.assigns(b) if s["r"]["k"] == "agg" and s["r"].get("what") == "adt" and s["r"].get("adt") == adt]
    if len(aggs) != 1:
        raise Unrec("from_db_element constructs %d values of %s" % (len(aggs), adt))
    agg = aggs[0][1]
    dom = cfg.dominators(b)
    finds = sorted([(i, t) for i, t in cfg.calls(b) if last(cfg.callee_decl(t)) == "find_map"], key=lambda x: len(dom.get(x[0], ())))
    # region of each lookup: blocks dominated by it and not by the next one
    regions = []
    for k, (i, t) in enumerate(finds):
        nxt = finds[k + 1][0] if k + 1 < len(finds) else None
        reg = {x for x in range(len(b.blocks)) if i in dom.get(x, ()) and (nxt is None or nxt not in dom.get(x, ()))}
        regions.append(reg)
    ders = [cfg.derived_locals(b, [t["d"][0]], extra_through=(
        "std::option::Option::ok_or", "std::option::Option::ok_or_else", "std::result::Result::map_err",
        "std::option::Option::map_or_else", "std::option::Option::map_or")) for i, t in finds]
    out = {}
    for fname, op in zip(agg["fields"], agg["ops"]):
        pl = cfg.op_place(op)
        if pl is None:
            out[fname] = ("default",)
            continue
        root = cfg.origin(b, pl)[0]
        js = [j for j, d in enumerate(ders) if root in d]
        c = chase(b, op)
        if len(js) == 1:
            j = js[0]
            i, t = finds[j]
            # the lookup walks element.values
            src = chase(b, t["a"][0])
            guard = 0
            while src[0] == "call" and guard < 5:
                guard += 1
                src = chase(b, src[2]["a"][0])
            over_values = src[0] == "param" and src[1] == 1 and src[2][:1] == (".values",)
            texts = consts_in(b, regions[j])
            for k, tt in cfg.calls(b):
                if k in regions[j] or k == i:
                    for cb in common.closure_bodies_passed(fa, b, tt):
                        texts += consts_in(cb)
            keys = sorted({q for tx in texts for q in quoted_keys(tx)})
            if not over_values:
                out[fname] = ("?", "lookup does not iterate element.values")
            elif len(keys) != 1:
                out[fname] = ("?", "lookup key witnesses %s" % keys)
            else:
                out[fname] = ("lookup", keys[0])
            continue
        # element.id
        cc = into_source(b, op)
        if cc[0] == "agg" and cc[1].get("variant") == "Some" and cc[1]["ops"]:
            cc = into_source(b, cc[1]["ops"][0])
        if cc[0] == "param" and cc[1] == 1 and cc[2] == (".id",):
            out[fname] = ("id",)
            continue
        # positional: element.values[k].value.<conv>()?
        cu = c
        guard = 0
        while cu[0] == "call" and guard < 6:
            guard += 1
            n = last(cfg.callee_decl(cu[2]))
            if n == "from_db_element":
                break
            cu = chase(b, cu[2]["a"][0])
        if cu[0] == "call" and last(cfg.callee_decl(cu[2])) == "from_db_element":
            out[fname] = ("flatten",)
            continue
        if cu[0] == "call" and last(cfg.callee_decl(cu[2])) == "default":
            out[fname] = ("default",)
            continue
        out[fname] = ("?", "source of the field not recognised (%s)" % (cu[0],))
    return out


def positional_table(b, adt):
    """hand-written positional decoders: field -> index k of element.values[k]"""
    aggs = [(bi, s["r"]) for bi, s in cfg.assigns(b) if s["r"]["k"] == "agg" and s["r"].get("what") == "adt" and s["r"].get("adt") == adt]
    if len(aggs) != 1:
        raise Unrec("from_db_element constructs %d values of %s" % (len(aggs), adt))
    agg = aggs[0][1]
    # index calls on element.values with a constant index
    idx_calls = {}
    for i, t in cfg.calls(b):
        if last(cfg.callee_decl(t)) == "index" and len(t["a"]) == 2:
            src = chase(b, t["a"][0])
            k = cfg.op_const(t["a"][1])
            if src[0] == "param" and src[1] == 1 and src[2][:1] == (".values",) and k and "v" in k:
                idx_calls[i] = (k["v"], cfg.derived_locals(b, [t["d"][0]], extra_through=(
                    "agdb::DbValue::to_u64", "agdb::DbValue::bytes", "agdb::DbValue::string", "agdb::DbValue::to_i64",
                    "agdb::DbValue::to_f64", "agdb::DbValue::vec_u64", "agdb::DbValue::to_bool")))
    out = {}
    for fname, op in zip(agg["fields"], agg["ops"]):
        pl = cfg.op_place(op)
        root = cfg.origin(b, pl)[0] if pl else None
        hits = []
        for i, (k, der) in idx_calls.items():
            if root in der:
                hits.append(k)
            else:
                # value computed from the element (e.g. deserialize(data)?)
                c = chase(b, op)
                guard = 0
                while c[0] == "call" and guard < 6:
                    guard += 1
                    a0 = cfg.op_place(c[2]["a"][0]) if c[2]["a"] else None
                    if a0 and cfg.origin(b, a0)[0] in der:
                        hits.append(k)
                        break
                    c = chase(b, c[2]["a"][0]) if c[2]["a"] else ("?",)
        cc = into_source(b, op)
        if cc[0] == "agg" and cc[1].get("variant") == "Some" and cc[1]["ops"]:
            cc = into_source(b, cc[1]["ops"][0])
        if cc[0] == "param" and cc[1] == 1 and cc[2] == (".id",):
            out[fname] = ("id",)
        elif len(set(hits)) == 1:
            out[fname] = ("pos", hits[0])
        else:
            out[fname] = ("?", "positions %s" % hits)
    return out


def r22b(ctx):
    fa = ctx.facts
    imps = dbtype_impls(fa)
    n_derived = 0
    for imp in sorted(imps, key=lambda x: x["self"]):
        name = imp["self"]
        where = "%s:%s" % (imp["file"], imp["line"])
        bodies = {}
        for m in ("to_db_values", "from_db_element", "db_keys"):
            bodies[m] = fa.body(imp["items"].get(m) or "")
        if not all(bodies.values()):
            ctx.ob("R22b", name, False, "DbType impl for %s lacks a body for %s" % (
                name, [m for m, v in bodies.items() if not v]), where)
            continue
        adt = fa.adts.get(imp["adt"] or "")
        if not adt or adt["kind"] != "struct":
            ctx.ob("R22b", name, False, "DbType impl for %s: not a struct in the ADT table" % name, where)
            continue
        fields = [(f["name"], f["ty"]) for f in adt["variants"][0]["fields"]]
        if imp["derived"]:
            n_derived += 1
        try:
            to = to_table(bodies["to_db_values"])
            keys = keys_table(bodies["db_keys"])
            if imp["derived"]:
                fr = from_table(fa, bodies["from_db_element"], imp["adt"])
            else:
                fr = positional_table(bodies["from_db_element"], imp["adt"])
        except Unrec as e:
            ctx.ob("R22b", name, False, "DbType impl for %s: idiom not recognised: %s" % (name, e), where)
            continue
        except (KeyError, IndexError, TypeError, AttributeError) as e:
            ctx.ob("R22b", name, False, "DbType impl for %s: idiom not recognised (%s: %s)" % (name, type(e).__name__, e), where)
            continue
        written = {}
        problems = []
        for k, f, kind in to:
            if kind == "flatten":
                continue
            if k is None or not f:
                problems.append("to_db_values pushes an unrecognised (key, field) pair (%s, %s)" % (k, f))
                continue
            written[f[0][1:]] = k
        wkeys = [k for k, f, kind in to if kind == "value"]
        if len(set(wkeys)) != len(wkeys):
            problems.append("to_db_values writes a key twice: %s" % wkeys)
        # write <-> read
        for fname, fty in fields:
            r = fr.get(fname, ("?", "field missing from the constructed value"))
            w = written.get(fname)
            if r[0] == "id":
                if w is not None:
                    problems.append("the id field `%s` is also written as value `%s`" % (fname, w))
            elif r[0] == "lookup":
                if w != r[1]:
                    problems.append("field `%s` is written under key %r but read from key %r" % (fname, w, r[1]))
            elif r[0] == "pos":
                order = [k for k, f, kind in to if kind == "value"]
                if w is None or r[1] >= len(order) or order[r[1]] != w:
                    problems.append("field `%s` is written under key %r (position %s) but read from position %d" % (
                        fname, w, order.index(w) if w in order else None, r[1]))
            elif r[0] == "default":
                if w is not None:
                    problems.append("field `%s` is written (key %r) but never read back (skipped)" % (fname, w))
            elif r[0] == "flatten":
                if not any(kind == "flatten" and f and f[0][1:] == fname for k, f, kind in to):
                    problems.append("flattened field `%s` is read but not written" % fname)
            else:
                problems.append("field `%s`: %s" % (fname, r[1]))
        extra = sorted(set(written) - {f for f, t in fields})
        if extra:
            problems.append("to_db_values writes unknown fields %s" % extra)
        ctx.ob("R22b", name + ":write=read", not problems,
               "%d value fields %s: each is read back from the key it is written under; id from element.id" % (
                   len(written), sorted(written.items())) if not problems else "; ".join(problems), where)
        # db_keys
        has_option = any(t.startswith("std::option::Option<") and n != "db_id" for n, t in fields)
        klist = [k for kind, k in keys if kind == "key"]
        if imp["derived"] and has_option:
            okk = keys == []
            why = "an Option field makes the key set value-dependent: db_keys() is empty"
        else:
            okk = klist == wkeys and all(kind == "key" for kind, k in keys) == all(kind == "value" for k, f, kind in to)
            why = "db_keys() lists %s = the keys written, in the same order" % klist
        ctx.ob("R22b", name + ":db_keys", okk, why if okk else
               "db_keys() lists %s but to_db_values writes %s%s" % (keys, wkeys, " (type has an Option field: expected empty)" if has_option else ""),
               where)
    ctx.floor("R22b", "derive-expanded DbType impls", n_derived, DERIVED_FLOOR)
    ctx.floor("R22b", "DbType impls analysed", len(imps), 5)


def upsert_rule(ctx, rule="R22c"):
    """A batch of elements keyed by alias is applied entry by entry: whether an entry creates a new element or updates an
    existing one is decided by an alias look-up made *when that entry is applied* (the same loop iteration / helper call
    as the creation).  Resolving all ids up front classifies two entries with the same new alias both as "new": the second
    one creates another node and rebinds the alias instead of updating the element the first one created."""
    fa = ctx.facts
    DBI = "agdb::db::DbImpl::"
    n = 0
    FILES = ("query/insert_values_query.rs", "query/insert_nodes_query.rs")

    def sites_ok(b, sites, depth=0):
        """every block of `sites` in body b is preceded by a db_id look-up of the same loop nesting; a body without any
        look-up is judged at its call sites (the creating helper is called by the function that looked the alias up)"""
        lookups = [i for i, t in cfg.calls(b) if common.norm(cfg.callee(t) or "") == DBI + "db_id"]
        loops = cfg.sccs(b)
        bad = []
        for c in sites:
            # (the look-up need not dominate: an entry without an alias is created without one)
            ok = any(all((l in comp) == (c in comp) for comp in loops) and cfg.find_path(b, [l], [c], leave_start=True) is not None
                     for l in lookups)
            if not ok and depth < 2:
                ups = [(ub, j) for ub, j, tj in common.callers_of(fa, common.norm(b.npath), "agdb") if "::tests::" not in ub.path]
                # inside the caller the call must not sit in a loop of its own between look-up and creation
                ok = bool(ups) and not any(c in comp for comp in loops) and all(not sites_ok(ub, [j], depth + 1) for ub, j in ups)
            if not ok:
                bad.append(b.loc(c))
        return bad
    for b in sorted(fa.bodies.values(), key=lambda x: x.path):
        if b.crate != "agdb" or not b.file.endswith(FILES):
            continue
        creates = [i for i, t in cfg.calls(b) if common.norm(cfg.callee(t) or "") == DBI + "insert_node"]
        aliases = [i for i, t in cfg.calls(b) if common.norm(cfg.callee(t) or "") in (DBI + "insert_new_alias", DBI + "insert_alias")]
        if not creates or not aliases:
            continue            # no creation, or creation without an alias (plain `insert().nodes().count(n)`)
        n += 1
        bad = sites_ok(b, creates)
        name = common.norm(b.root or b.npath).split("::")[-1] + "@" + b.file.split("/")[-1]
        ctx.ob(rule, "%s:create-after-lookup" % name, not bad,
               "every insert_node of an aliased entry follows an alias look-up of the same iteration (here or in the caller)" if not bad else
               "`%s` creates a node for an aliased entry (%s) without an alias look-up made in the same iteration, here or in "
               "its callers: entries of one batch that name the same new alias create two nodes" % (
                   common.norm(b.root or b.npath), bad), b.where)
    ctx.floor(rule, "alias-keyed creation sites (insert values / insert nodes)", n, 2)


def run(ctx):
    r22a(ctx)
    r22b(ctx)
    # a typed element read back after its id was re-used must not see the removed element's values (R08c)
    from rules import C08
    C08.r08c(ctx)
    upsert_rule(ctx)
    # the properties of a user type are DbValues: their storage codecs are part of the round trip (C12, re-evaluated)
    from rules import C12
    C12.run(ctx)
    return 0
