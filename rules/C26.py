"""C26 — database files stay inside their owner's directory and never collide."""
from lib import cfg
from rules import common
from rules import C24

EXPLANATION = (
    "Static analysis of crate agdb_server: (R26a) every Path::join of the db_pool module is in one of the six path helpers "
    "or in one of seven frozen inline sites, and the chain of joined components of every site (re-derived from MIR: base, "
    "then each component as parameter / literal / format of a parameter) equals the frozen table: every chain starts at "
    "config.data_dir (directly or through db_backup_dir / db_audit_dir) and joins the owner before the database name; "
    "(R26b) for every handler->action chain that introduces a new name into the file system (DbAdd.db, DbCopy.new_db, "
    "DbRename.new_db, UserAdd.user) a recognised validator must be applied to the name on every path: in the handler "
    "before ClusterImpl::exec, or in the action's exec before the sink (DbPool::add_db / copy_db / rename_db, "
    "ServerDb::insert_user), or inside the sink before the name reaches any other call.  A validator is a function of "
    "the frozen list VALIDATORS (empty today) or a function recognised by the idiom: it returns Result, has an Err and an "
    "Ok return, and calls str::contains / starts_with / ends_with / find / split / chars / bytes or Path::components / "
    "file_name on its name parameter; the guard is the Ok edge of `?` on its result.  There is no validator in the tree "
    "today: every chain is reported (finding F16, reproduced in findings/server/F16_demo.rs).")
DECIDED = ["R26a one place builds paths; chain shapes equal the frozen table (WHO + TABLE)",
           "R26b names are validated before they name files (DOM over handler, action and sink)",
           "R26c rename / copy never target an existing file (DOM on the existence test of db_file(new_owner, new_db))",
           "R26d the recovery log name is derived by splitting at the last `/` (DOM)"]
UNDECIDED = ["file-system state (symlinks, case-insensitive file systems, pre-existing files)",
             "that a recognised validator rejects exactly the dangerous names (separators, `..`, leading dot, reserved "
             "names `backups`/`audit`, suffix collisions such as `x.bak`): the idiom only establishes that the name is "
             "inspected and can be rejected",
             "names of databases that already exist in a server database created by an older version"]

POOL = C24.POOL
SDB = C24.SDB
R = C24.R
ACT = C24.ACT
CEXEC = C24.CEXEC
who = C24.who
flow = C24.flow
ok_edges = C24.ok_edges
cut = C24.cut
last = C24.last
MOD = "agdb_server::db_pool::"

HELPERS = {"db_file", "db_backup_file", "db_backup_dir", "db_backup_audit_file", "db_audit_dir", "db_audit_file"}
# function (module-relative) -> chains of its maximal join sites; appendix of the design ("7 inline sites today")
CHAINS = {
    "db_file": ["data_dir/owner/db"],
    "db_backup_dir": ["data_dir/owner/'backups'"],
    "db_audit_dir": ["data_dir/owner/'audit'"],
    "db_backup_file": ["db_backup_dir(owner)/fmt(db)"],
    "db_backup_audit_file": ["db_backup_dir(owner)/fmt(db)"],
    "db_audit_file": ["db_audit_dir(owner)/fmt(db)"],
    "DbPool::add_db": ["data_dir/owner/db"],
    "DbPool::do_clear_db": ["data_dir/owner/db"],
    "DbPool::copy_db": ["data_dir/new_owner"],
    "DbPool::rename_db": ["data_dir/new_owner"],
    "DbPool::remove_user_dbs": ["data_dir/username"],
    "DbPool::do_rollback": ["db_backup_dir(owner)/db"],
    "DbPool::swap_audit_with_backup": ["db_backup_dir(owner)/fmt(db)"],
}
JOIN_FLOOR = 18      # 9 in the six helpers + 9 in the seven inline functions
FMT = ("Argument::new_display", "Arguments::new", "fmt::format", "hint::must_use", "Arguments::<'a>::new")

# ---- R26b tables
# action -> (field holding the NEW name, sink callee, source of the name inside the sink's body)
ACTIONS = {
    "db_add::DbAdd": ("db", POOL + "add_db", (1, (".2",))),
    "db_copy::DbCopy": ("new_db", POOL + "copy_db", (1, (".4",))),
    "db_rename::DbRename": ("new_db", POOL + "rename_db", (1, (".4",))),
    "user_add::UserAdd": ("user", SDB + "insert_user", (1, (".1", ".username"))),
}
# frozen validators: def path -> "result" (guard = Ok edge of `?`).  Empty today.
VALIDATORS = {}
INSPECT = ("::contains", "::starts_with", "::ends_with", "::find", "::split", "::chars", "::bytes", "::matches",
           "Path::components", "Path::file_name", "Path::is_absolute", "Path::parent")
CHAIN_FLOOR = 7
_DB = ("db name `..%2F..%2Fx` escapes the data directory, `..%2F<other user>%2F<db>` opens another owner's file, `.x` is "
       "the write-ahead log of db `x`, `backups` / `backups%2Fx.bak` / `x.bak` collide with backup dir and files")
EXAMPLE = {
    "DbAdd": _DB, "DbCopy": _DB, "DbRename": _DB,
    "UserAdd": "the user name becomes the owner directory data_dir/<user> of every later database (validate_username only "
               "checks len >= 3): a user named `..%2Fx` or `a%2F..%2F..` places all its databases outside its directory",
}


def fn_of(b):
    return common.norm(b.root or b.npath)


def params(body):
    """Named parameter sources of a body: who-tuple -> debug name (async fns keep parameters in `_1.<k>`)."""
    out = {}
    for i in range(1, body.d["argc"] + 1):
        if body.local_name(i):
            out[(i, ())] = body.local_name(i)
    if body.blocks:
        for s in body.blocks[0]["s"]:
            if "l" in s and len(s["l"]) == 1 and s["r"]["k"] == "use":
                pl = cfg.op_place(s["r"]["o"])
                if pl and pl[0] == 1 and len(pl) == 2 and body.local_name(s["l"][0]) and body.parent:
                    out[(1, (pl[1],))] = body.local_name(s["l"][0])
    return out


def component(body, op, pm, pflows):
    k = cfg.op_const(op)
    if k:
        return "'%s'" % (k.get("c") or "").strip('"')
    w = who(body, op)
    if w is None:
        return "?"
    ds = cfg.defs(body).get(w[0], [])
    if len(ds) == 1 and ds[0][0] == "assign" and ds[0][2]["k"] == "use" and cfg.op_const(ds[0][2]["o"]):
        return "'%s'" % (cfg.op_const(ds[0][2]["o"]).get("c") or "").strip('"')
    if w in pm:
        return pm[w]
    srcs = sorted(n for n, fl in pflows.items() if w[0] in fl)
    return "fmt(%s)" % ",".join(srcs) if srcs else "?"


_FA = [None]


def join_chains(body):
    """[(bb, chain string)] for the maximal Path::join sites of a body."""
    pm = params(body)
    pflows = {}
    for w, n in pm.items():
        seeds = [w[0]] if w[1] == () else [s["l"][0] for s in body.blocks[0]["s"] if "l" in s and s["r"]["k"] == "use" and
                                            cfg.op_place(s["r"]["o"]) == [1, w[1][0]]]
        pflows[n] = flow(body, seeds, extra=FMT)
    joins = [(i, t) for i, t in cfg.calls(body) if common.norm(cfg.callee(t) or "") == "std::path::Path::join"]
    dest = {t["d"][0]: (i, t) for i, t in joins}
    used_as_recv = set()

    def base(op):
        w = who(body, op)
        if w is None:
            return "?"
        if w[0] in dest and not w[1]:
            used_as_recv.add(dest[w[0]][0])
            i, t = dest[w[0]]
            return base(t["a"][0]) + "/" + component(body, t["a"][1], pm, pflows)
        ds = cfg.defs(body).get(w[0], [])
        if len(ds) == 1 and ds[0][0] == "call":
            n = common.norm(cfg.callee(ds[0][2]) or "")
            if n == "std::path::Path::new":
                ww = who(body, ds[0][2]["a"][0])
                return "data_dir" if ww and ww[1][-1:] == (".data_dir",) else "Path::new(?)"
            if n.startswith(MOD) and (last(n) in HELPERS or str((_FA[0].fns.get(n) or {}).get("output", "")).endswith("PathBuf")):
                return "%s(%s)" % (last(n), component(body, ds[0][2]["a"][0], pm, pflows))
        return "?"
    out = []
    full = {i: base(t["a"][0]) + "/" + component(body, t["a"][1], pm, pflows) for i, t in joins}
    for i, t in joins:
        if i not in used_as_recv:
            out.append((i, full[i]))
    return out, len(joins)


OWNER_NAMES = ("owner", "new_owner", "username", "user")
DB_NAMES = ("db", "new_db")
SHAPES = {      # canonical expanded chain -> what it is
    "data_dir/O": "the owner's directory",
    "data_dir/O/D": "the database file",
    "data_dir/O/'backups'": "the owner's backup directory",
    "data_dir/O/'audit'": "the owner's audit directory",
    "data_dir/O/'backups'/fmt(D)": "backup / backup-audit file (<db>.bak, <db>.log)",
    "data_dir/O/'backups'/D": "backup directory entry addressed by the plain name (rollback)",
    "data_dir/O/'audit'/fmt(D)": "audit file (<db>.log)",
}
REQUIRED_SHAPES = ("data_dir/O/D", "data_dir/O/'backups'", "data_dir/O/'audit'", "data_dir/O/'backups'/fmt(D)", "data_dir/O/'audit'/fmt(D)")


def _canon(chain):
    parts = chain.split("/")
    out = []
    for k, p_ in enumerate(parts):
        if p_ in OWNER_NAMES and k == 1:
            out.append("O")
        elif p_ in DB_NAMES:
            out.append("D")
        elif p_.startswith("fmt(") and p_[4:-1] in DB_NAMES:
            out.append("fmt(D)")
        else:
            out.append(p_)
    return "/".join(out)


def r26a(ctx):
    """Every path the database pool builds has one of the canonical shapes under config.data_dir: the owner is joined
    first, then the database name or one of the two reserved directories.  Chains are read off the Path::join calls and
    expanded through the module's own path helpers (whatever they are called), so the verdict does not depend on how the
    joins are distributed over helper functions."""
    fa = ctx.facts
    _FA[0] = fa
    total = 0
    per_fn = {}
    bodies = {}
    for b in sorted(fa.bodies.values(), key=lambda x: x.path):
        if b.crate != "agdb_server" or not fn_of(b).startswith(MOD):
            continue
        chains, n = join_chains(b)
        if not n:
            continue
        total += n
        f = fn_of(b)[len(MOD):]
        per_fn.setdefault(f, []).extend(c for i, c in chains)
        bodies.setdefault(f, (b, chains))
    # summaries of path-returning helpers: name -> (chain, first parameter name)
    summ = {}
    for f, cs in per_fn.items():
        b = bodies[f][0]
        out_ty = str((fa.fns.get(MOD + f) or {}).get("output", ""))
        if out_ty.endswith("PathBuf") and len(cs) == 1 and "::" not in f:
            summ[f] = (cs[0], b.local_name(1))

    def expand(c, depth=0):
        import re as _re
        m = _re.match(r"^([a-z_][a-z0-9_]*)\(([^)]*)\)(.*)$", c)
        if m and m.group(1) in summ and depth < 5:
            inner, pname = summ[m.group(1)]
            inner = expand(inner, depth + 1)
            if pname:
                inner = "/".join(m.group(2) if x == pname else x for x in inner.split("/"))
            return inner + m.group(3)
        return c
    seen_shapes = {}
    for f, cs in sorted(per_fn.items()):
        b, chains = bodies[f]
        for c in cs:
            e = expand(c)
            k = _canon(e)
            ok = k in SHAPES
            seen_shapes.setdefault(k, []).append(f)
            ctx.ob("R26a", "chain:%s:%s" % (f, c), ok,
                   "%s = %s" % (e, SHAPES.get(k, "")) if ok else
                   "`%s` builds the path `%s` (expanded: %s), which is none of the canonical shapes under config.data_dir "
                   "(owner first, then the database name or 'backups' / 'audit'): %s" % (f, c, e, sorted(SHAPES)),
                   b.loc(chains[0][0]) if chains else b.where)
    for k in REQUIRED_SHAPES:
        ctx.ob("R26a", "shape-present:%s" % k, k in seen_shapes,
               "built by %s" % sorted(set(seen_shapes.get(k, []))) if k in seen_shapes else
               "no function of db_pool builds %s (%s) any more: the path analysis lost its anchors" % (k, SHAPES[k]), "",
               key="%s|R26a|missing-anchor|%s" % (ctx.pid, k))
    tmp_users = sorted(set(seen_shapes.get("data_dir/O/'backups'/D", [])))
    ctx.ob("R26a", "plain-name-in-backups", len(tmp_users) <= 1,
           "only %s addresses the backup directory by the plain database name (rollback temporary)" % tmp_users if len(tmp_users) <= 1 else
           "%s build `backups/<db>` without a suffix: the name collides with the rollback temporary of the same database" % tmp_users, "")
    # a path is final once joined: replacing its extension / file name afterwards maps different database names to one
    # file (`shop.eu` and `shop.us` -> `shop.bak`)
    edits = []
    for b in fa.bodies.values():
        if b.crate == "agdb_server" and fn_of(b).startswith(MOD):
            for i, t in cfg.calls(b):
                if last(cfg.callee(t) or "") in ("with_extension", "set_extension", "with_file_name", "set_file_name", "pop") and \
                        "path::Path" in (cfg.callee(t) or ""):
                    edits.append("%s@%s" % (last(cfg.callee(t)), b.loc(i)))
    ctx.ob("R26a", "no-path-surgery", not edits,
           "no with_extension / set_extension / with_file_name / set_file_name / pop on a database path in db_pool" if not edits else
           "db_pool edits a joined path (%s): names that differ only after the last dot then share one file" % edits, "")
    ctx.floor("R26a", "Path::join sites in db_pool", total, 6)
    other = sorted({fn_of(b) for b in fa.bodies.values() if b.crate == "agdb_server" and not fn_of(b).startswith(MOD) and
                    any(common.norm(cfg.callee(t) or "") == "std::path::Path::join" for i, t in cfg.calls(b))})
    if other:
        ctx.note("Path::join outside db_pool (not database files): %s" % other)


# ---------------------------------------------------------------- R26b

def is_validator(fa, path, cache={}):
    """Frozen list, or the idiom: Result-returning fn with Ok and Err returns that inspects its string parameter."""
    key = (id(fa), path)
    if key in cache:
        return cache[key]
    res = False
    if path in VALIDATORS:
        res = True
    else:
        sig = fa.fns.get(path)
        b = fa.body(path)
        if sig and b and b.crate == "agdb_server" and "Result<" in sig["output"]:
            body = C24.coro(fa, path) if sig.get("async") else b
            if body is not None:
                okb, errb, unk = cfg.ret_class_blocks(body)
                strs = [k for k, ty in enumerate(sig["inputs"]) if ty in ("&str", "&std::string::String", "std::string::String",
                                                                           "&std::path::Path")]
                hits = 0
                for i, t in cfg.calls(body):
                    n = cfg.callee(t) or ""
                    if n.endswith(INSPECT) and t["a"]:
                        w = who(body, t["a"][0])
                        if w and (((0 < w[0] <= body.d["argc"]) and (w[0] - 1) in strs and not sig.get("async")) or
                                  (sig.get("async") and w[0] == 1 and w[1] and w[1][0] in [".%d" % k for k in strs])):
                            hits += 1
                res = bool(okb and errb and hits)
    cache[key] = res
    return res


def validations(fa, body, src):
    """Ok edges of `?` on validator calls in `body` applied to the value whose source is `src`."""
    out = []
    for i, t in cfg.calls(body):
        n = common.norm(cfg.callee(t) or "")
        if not n.startswith("agdb_server::") or not is_validator(fa, n):
            continue
        if any(who(body, a) == src for a in t["a"]):
            for e in ok_edges(body, t["d"][0]):
                out.append((n, e))
    return out


def r26b(ctx):
    fa = ctx.facts
    chains = []
    for a, (field, sink, sink_src) in sorted(ACTIONS.items()):
        short = last(a)
        adt = ACT + a
        # (2) action side / (3) sink side: shared by every handler of the action
        eb = ctx.anchor("R26b", "<%s as agdb_server::action::Action>::exec::{closure#0}" % adt)
        sb = ctx.anchor("R26b", sink + "::{closure#0}")
        if not (eb and sb):
            continue
        sinks = [(i, t) for i, t in cfg.calls(eb) if cfg.callee(t) == sink]
        ctx.ob("R26b", "%s:sink" % short, bool(sinks),
               "%s::exec hands the name to %s" % (short, "::".join(sink.split("::")[-2:])) if sinks else
               "action %s no longer calls its frozen sink `%s` (re-read the action and update ACTIONS)" % (short, sink), eb.where)
        v = validations(fa, eb, (1, (".0", "." + field)))
        action_ok = bool(v and sinks) and all(cut(eb, i, [e for n, e in v]) is None for i, t in sinks)
        v3 = validations(fa, sb, sink_src)
        uses = []
        for i, t in cfg.calls(sb):
            n = common.norm(cfg.callee(t) or "")
            if cfg.is_transparent(cfg.callee(t)) or (n.startswith("agdb_server::") and is_validator(fa, n)):
                continue
            ws = [who(sb, x) for x in t["a"]]
            if any(w is not None and w[0] == sink_src[0] and w[1][:len(sink_src[1])] == sink_src[1] for w in ws):
                uses.append(i)
        sink_ok = bool(v3 and uses) and all(cut(sb, i, [e for n, e in v3]) is None for i in uses)
        # (1) handler side
        for ob in sorted(fa.bodies.values(), key=lambda x: x.path):
            if ob.crate != "agdb_server" or (ACT in fn_of(ob) and not fn_of(ob).startswith(R)):
                continue
            ags = [s["r"] for bi, s in cfg.assigns(ob) if s["r"]["k"] == "agg" and s["r"].get("adt") == adt]
            if not ags:
                continue
            h = fn_of(ob)
            handler_ok = True
            for ag in ags:
                src = who(ob, ag["ops"][ag["fields"].index(field)])
                v1 = validations(fa, ob, src)
                ex = [i for i, t in cfg.calls(ob) if cfg.callee(t) == CEXEC and adt in (cfg.callee_full(t) or "")]
                handler_ok = handler_ok and bool(v1 and ex) and all(cut(ob, i, [e for n, e in v1]) is None for i in ex)
            ok = handler_ok or action_ok or sink_ok
            where = "handler" if handler_ok else "action" if action_ok else "sink"
            chains.append((h, short))
            ctx.ob("R26b", "%s->%s" % (h, short), ok,
                   "the new name `%s.%s` is validated in the %s before it names a file" % (short, field, where) if ok else
                   "`%s` builds %s{%s: <request value>} and neither the handler, nor %s::exec, nor %s applies a validator "
                   "(separators / `..` / leading dot / reserved names) before the name reaches Path::join: %s (F16)" % (
                       h, short, field, short, "::".join(sink.split("::")[-2:]), EXAMPLE[short]),
                   ob.where, key="%s|R26b|%s->%s|unvalidated-name" % (ctx.pid, h, short))
    ctx.floor("R26b", "handler->action chains introducing names", len(chains), CHAIN_FLOOR)
    ctx.note("name-introducing chains: %s" % ["%s->%s" % c for c in chains])
    # the sinks are reached only from their actions (no other way to introduce a name)
    for a, (field, sink, sink_src) in sorted(ACTIONS.items()):
        callers = {fn_of(cb) for cb, j, t in common.callers_of(fa, sink, "agdb_server")}
        allowed = {"<%s%s as agdb_server::action::Action>::exec" % (ACT, a)}
        if sink == SDB + "insert_user":
            allowed |= {"agdb_server::server_db::new"}       # creates the configured admin account at start-up
        ctx.ob("R26b", "who:%s" % "::".join(sink.split("::")[-2:]), bool(callers) and callers <= allowed,
               "called only from %s" % sorted(callers) if callers and callers <= allowed else
               "name-introducing sink `%s` is also called from %s" % (sink, sorted(callers - allowed)), "")


def r26c(ctx, rule="R26c"):
    """A database file is never moved or copied ONTO an existing file: in DbPool::rename_db and DbPool::copy_db the step
    that hands the target path to the storage layer (UserDb::rename via do_rename / Db::copy) is reachable only through
    the `does not exist` edge of an existence test of that very path, db_file(new_owner, new_db).  (The target may be
    a file no registered database owns: another database's `.name` recovery log, a left-over of a removed database.)"""
    fa = ctx.facts
    for fn in ("rename_db", "copy_db"):
        b = ctx.anchor(rule, POOL + fn + "::{closure#0}")
        if not b:
            continue
        tgt = [(i, t) for i, t in cfg.calls(b) if cfg.callee(t) == "agdb_server::db_pool::db_file" and len(t["a"]) >= 2 and
               who(b, t["a"][0]) == (1, (".3",)) and who(b, t["a"][1]) == (1, (".4",))]
        ok = len(tgt) == 1
        detail = "target path db_file(new_owner, new_db) not found" if not ok else ""
        if ok:
            tl = C24.flow(b, [tgt[0][1]["d"][0]], extra=("::to_string_lossy", "Cow::as_ref", "::as_ref", "::as_path"))
            tests = [(i, t) for i, t in cfg.calls(b) if (cfg.callee(t) or "") in ("std::path::Path::exists", "std::fs::exists")
                     and t["a"] and (who(b, t["a"][0]) or (None,))[0] in tl]
            edges = []
            for i, t in tests:
                for sw in cfg.bool_switches(b, C24.flow(b, [t["d"][0]], extra=("Result::map_err",))):
                    edges.append(sw["false_edge"])
            uses = [i for i, t in cfg.calls(b) if i not in [x for x, _ in tests] and i != tgt[0][0] and not cfg.is_transparent(cfg.callee(t) or "")
                    and not (cfg.callee(t) or "").endswith(("::to_string_lossy", "::as_ref", "::deref", "::exists"))
                    and any((who(b, a) or (None,))[0] in tl for a in t["a"])]
            ok = bool(tests and edges and uses) and all(cut(b, i, edges) is None for i in uses)
            detail = "tests %d, uses of the target path %s" % (len(tests), [b.loc(i) for i in uses])
        ctx.ob(rule, "%s:target-must-not-exist" % fn, ok,
               "the target path is used only after `exists()` was false (%s)" % detail if ok else
               "DbPool::%s can hand the target path to the storage layer without having found it absent (%s): an existing "
               "file (another database's recovery log / a left-over file) is silently replaced" % (fn, detail), b.where)


def r26d(ctx, rule="R26d"):
    """The recovery log of `<dir>/<name>` is `<dir>/.<name>`: the dot goes in front of the file-name component, i.e. behind
    the last `/` whenever the path has one (a `\\` is an ordinary file-name character on the server's platform and reaches
    database names as `%5C`).  Treating the last separator "of either kind" as the split point puts the log of `a\\b` at
    `a\\.b` - the data file of the database with that name."""
    fa = ctx.facts
    b = ctx.anchor(rule, "agdb::storage::write_ahead_log::WriteAheadLog::wal_filename")
    if not b:
        return
    finds = [(i, t) for i, t in cfg.calls(b) if last(cfg.callee(t) or "") in ("rfind", "rsplit_once", "rsplit", "file_name", "parent")]
    slash = [(i, t) for i, t in finds if any((cfg.op_const(a) or {}).get("c") in ("'/'", '"/"') for a in t["a"])]
    path_api = [(i, t) for i, t in finds if last(cfg.callee(t) or "") in ("file_name", "parent") and "path::Path" in (cfg.callee(t) or "")]
    other = [(i, t) for i, t in finds if (i, t) not in slash and (i, t) not in path_api]
    # searches inside closures: allowed only as the fallback of the slash search (`rfind('/').or_else(|| ..)`)
    clos_other = []
    for cb in fa.closures_of(b.path):
        for i, t in cfg.calls(cb):
            if last(cfg.callee(t) or "") in ("rfind", "rsplit_once", "rsplit", "find") and \
                    not any((cfg.op_const(a) or {}).get("c") in ("'/'", '"/"') for a in t["a"]):
                clos_other.append((cb, i))
    fallback_closures = set()
    for i, t in slash:
        der = cfg.derived_locals(b, [t["d"][0]])
        for j, u in cfg.calls(b):
            if last(cfg.callee(u) or "") in ("or_else", "unwrap_or_else") and u["a"] and cfg.op_place(u["a"][0]) and \
                    cfg.op_place(u["a"][0])[0] in der:
                for a in u["a"][1:]:
                    pl = cfg.op_place(a)
                    for d in (cfg.defs(b).get(cfg.origin(b, pl)[0], []) if pl else []):
                        if d[0] == "assign" and d[2]["k"] == "agg" and d[2].get("what") == "closure":
                            fallback_closures.add(fa.body(d[2]["def"]).path)
    ok = False
    detail = "neither `rfind('/')` nor Path::file_name / parent decides where the dot is inserted"
    if path_api and not other and not clos_other:
        ok, detail = True, "split with the platform's Path API"
    elif slash:
        # any other separator search happens only when the path has no `/`
        none_edges = []
        for i, t in slash:
            for te in cfg.result_edges(b, [t["d"][0]]):
                none_edges.append(te["err_edge"])
        ok = (not other or (bool(none_edges) and all(cfg.find_path(b, [0], [i], removed_edges=none_edges) is None for i, t in other))) \
            and all(cb.path in fallback_closures for cb, i in clos_other)
        detail = "the position behind the last `/` is used whenever there is one" if ok else \
            "another separator search (%s) is not confined to paths without `/`" % (
                [b.loc(i) for i, t in other] + [cb.loc(i) for cb, i in clos_other])
    ctx.ob(rule, "wal_filename:split-at-last-slash", ok, detail if ok else
           "WriteAheadLog::wal_filename: %s: a backslash inside a database name moves the dot, and the recovery log lands on "
           "another database's data file" % detail, b.where)


def run(ctx):
    r26a(ctx)
    r26b(ctx)
    r26c(ctx)
    r26d(ctx)
    return 0
