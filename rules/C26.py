"""C26 — database files stay inside their owner's directory and never collide."""
from lib import cfg
from rules import common
from rules import C24

EXPLANATION = (
    "Static analysis of crate agdb_server: (R26a) every Path::join of the db_pool module is in one of the six path helpers "
    "or in one of seven frozen inline sites, and the chain of joined components of every site (re-derived from MIR: base, "
    "then each component as parameter / literal / format of a parameter) equals the frozen table: every chain starts at "
    "config.data_dir (directly or through db_backup_dir / db_audit_dir) and joins the owner before the database name; "
    "(R26b) for every handler->action chain that introduces a new name into the file system (DbAdd.db, DbCopy.new_db, "
    "DbRename.new_db, UserAdd.user) a recognised validator must be applied to the name on every path: in the handler "
    "before ClusterImpl::exec, or in the action's exec before the sink (DbPool::add_db / copy_db / rename_db, "
    "ServerDb::insert_user), or inside the sink before the name reaches any other call.  A validator is a function of "
    "the frozen list VALIDATORS (empty today) or a function recognised by the idiom: it returns Result, has an Err and an "
    "Ok return, and calls str::contains / starts_with / ends_with / find / split / chars / bytes or Path::components / "
    "file_name on its name parameter; the guard is the Ok edge of `?` on its result.  There is no validator in the tree "
    "today: every chain is reported (finding F16, reproduced in findings/server/F16_demo.rs).")
DECIDED = ["R26a one place builds paths; chain shapes equal the frozen table (WHO + TABLE)",
           "R26b names are validated before they name files (DOM over handler, action and sink)",
           "R26c rename / copy never target an existing file (DOM on the existence test of db_file(new_owner, new_db))"]
UNDECIDED = ["file-system state (symlinks, case-insensitive file systems, pre-existing files)",
             "that a recognised validator rejects exactly the dangerous names (separators, `..`, leading dot, reserved "
             "names `backups`/`audit`, suffix collisions such as `x.bak`): the idiom only establishes that the name is "
             "inspected and can be rejected",
             "names of databases that already exist in a server database created by an older version"]

POOL = C24.POOL
SDB = C24.SDB
R = C24.R
ACT = C24.ACT
CEXEC = C24.CEXEC
who = C24.who
flow = C24.flow
ok_edges = C24.ok_edges
cut = C24.cut
last = C24.last
MOD = "agdb_server::db_pool::"

HELPERS = {"db_file", "db_backup_file", "db_backup_dir", "db_backup_audit_file", "db_audit_dir", "db_audit_file"}
# function (module-relative) -> chains of its maximal join sites; appendix of the design ("7 inline sites today")
CHAINS = {
    "db_file": ["data_dir/owner/db"],
    "db_backup_dir": ["data_dir/owner/'backups'"],
    "db_audit_dir": ["data_dir/owner/'audit'"],
    "db_backup_file": ["db_backup_dir(owner)/fmt(db)"],
    "db_backup_audit_file": ["db_backup_dir(owner)/fmt(db)"],
    "db_audit_file": ["db_audit_dir(owner)/fmt(db)"],
    "DbPool::add_db": ["data_dir/owner/db"],
    "DbPool::do_clear_db": ["data_dir/owner/db"],
    "DbPool::copy_db": ["data_dir/new_owner"],
    "DbPool::rename_db": ["data_dir/new_owner"],
    "DbPool::remove_user_dbs": ["data_dir/username"],
    "DbPool::do_rollback": ["db_backup_dir(owner)/db"],
    "DbPool::swap_audit_with_backup": ["db_backup_dir(owner)/fmt(db)"],
}
JOIN_FLOOR = 18      # 9 in the six helpers + 9 in the seven inline functions
FMT = ("Argument::new_display", "Arguments::new", "fmt::format", "hint::must_use", "Arguments::<'a>::new")

# ---- R26b tables
# action -> (field holding the NEW name, sink callee, source of the name inside the sink's body)
ACTIONS = {
    "db_add::DbAdd": ("db", POOL + "add_db", (1, (".2",))),
    "db_copy::DbCopy": ("new_db", POOL + "copy_db", (1, (".4",))),
    "db_rename::DbRename": ("new_db", POOL + "rename_db", (1, (".4",))),
    "user_add::UserAdd": ("user", SDB + "insert_user", (1, (".1", ".username"))),
}
# frozen validators: def path -> "result" (guard = Ok edge of `?`).  Empty today.
VALIDATORS = {}
INSPECT = ("::contains", "::starts_with", "::ends_with", "::find", "::split", "::chars", "::bytes", "::matches",
           "Path::components", "Path::file_name", "Path::is_absolute", "Path::parent")
CHAIN_FLOOR = 7
_DB = ("db name `..%2F..%2Fx` escapes the data directory, `..%2F<other user>%2F<db>` opens another owner's file, `.x` is "
       "the write-ahead log of db `x`, `backups` / `backups%2Fx.bak` / `x.bak` collide with backup dir and files")
EXAMPLE = {
    "DbAdd": _DB, "DbCopy": _DB, "DbRename": _DB,
    "UserAdd": "the user name becomes the owner directory data_dir/<user> of every later database (validate_username only "
               "checks len >= 3): a user named `..%2Fx` or `a%2F..%2F..` places all its databases outside its directory",
}


def fn_of(b):
    return common.norm(b.root or b.npath)


def params(body):
    """Named parameter sources of a body: who-tuple -> debug name (async fns keep parameters in `_1.<k>`)."""
    out = {}
    for i in range(1, body.d["argc"] + 1):
        if body.local_name(i):
            out[(i, ())] = body.local_name(i)
    if body.blocks:
        for s in body.blocks[0]["s"]:
            if "l" in s and len(s["l"]) == 1 and s["r"]["k"] == "use":
                pl = cfg.op_place(s["r"]["o"])
                if pl and pl[0] == 1 and len(pl) == 2 and body.local_name(s["l"][0]) and body.parent:
                    out[(1, (pl[1],))] = body.local_name(s["l"][0])
    return out


def component(body, op, pm, pflows):
    k = cfg.op_const(op)
    if k:
        return "'%s'" % (k.get("c") or "").strip('"')
    w = who(body, op)
    if w is None:
        return "?"
    ds = cfg.defs(body).get(w[0], [])
    if len(ds) == 1 and ds[0][0] == "assign" and ds[0][2]["k"] == "use" and cfg.op_const(ds[0][2]["o"]):
        return "'%s'" % (cfg.op_const(ds[0][2]["o"]).get("c") or "").strip('"')
    if w in pm:
        return pm[w]
    srcs = sorted(n for n, fl in pflows.items() if w[0] in fl)
    return "fmt(%s)" % ",".join(srcs) if srcs else "?"


def join_chains(body):
    """[(bb, chain string)] for the maximal Path::join sites of a body."""
    pm = params(body)
    pflows = {}
    for w, n in pm.items():
        seeds = [w[0]] if w[1] == () else [s["l"][0] for s in body.blocks[0]["s"] if "l" in s and s["r"]["k"] == "use" and
                                            cfg.op_place(s["r"]["o"]) == [1, w[1][0]]]
        pflows[n] = flow(body, seeds, extra=FMT)
    joins = [(i, t) for i, t in cfg.calls(body) if common.norm(cfg.callee(t) or "") == "std::path::Path::join"]
    dest = {t["d"][0]: (i, t) for i, t in joins}
    used_as_recv = set()

    def base(op):
        w = who(body, op)
        if w is None:
            return "?"
        if w[0] in dest and not w[1]:
            used_as_recv.add(dest[w[0]][0])
            i, t = dest[w[0]]
            return base(t["a"][0]) + "/" + component(body, t["a"][1], pm, pflows)
        ds = cfg.defs(body).get(w[0], [])
        if len(ds) == 1 and ds[0][0] == "call":
            n = common.norm(cfg.callee(ds[0][2]) or "")
            if n == "std::path::Path::new":
                ww = who(body, ds[0][2]["a"][0])
                return "data_dir" if ww and ww[1][-1:] == (".data_dir",) else "Path::new(?)"
            if n.startswith(MOD) and last(n) in HELPERS:
                return "%s(%s)" % (last(n), component(body, ds[0][2]["a"][0], pm, pflows))
        return "?"
    out = []
    full = {i: base(t["a"][0]) + "/" + component(body, t["a"][1], pm, pflows) for i, t in joins}
    for i, t in joins:
        if i not in used_as_recv:
            out.append((i, full[i]))
    return out, len(joins)


def r26a(ctx):
    fa = ctx.facts
    total = 0
    seen = {}
    for b in sorted(fa.bodies.values(), key=lambda x: x.path):
        if b.crate != "agdb_server" or not fn_of(b).startswith(MOD):
            continue
        chains, n = join_chains(b)
        if not n:
            continue
        total += n
        f = fn_of(b)[len(MOD):]
        seen.setdefault(f, []).extend(c for i, c in chains)
        if f not in CHAINS:
            ctx.ob("R26a", "who:%s" % f, False,
                   "`%s` builds a path with Path::join but is neither a path helper nor one of the frozen inline sites "
                   "(chains: %s)" % (fn_of(b), [c for i, c in chains]), b.loc(chains[0][0]) if chains else b.where)
    for f, want in sorted(CHAINS.items()):
        got = sorted(seen.get(f, []))
        if f not in seen:
            ctx.ob("R26a", "chain:%s" % f, False, "path-building function `%s%s` not found / no longer joins paths" % (MOD, f), "",
                   key="%s|R26a|missing-anchor|%s" % (ctx.pid, f))
            continue
        b = fa.body(MOD + f) or fa.body(MOD + f + "::{closure#0}")
        ctx.ob("R26a", "chain:%s" % f, got == sorted(want),
               "joins %s" % ", ".join(got) if got == sorted(want) else
               "`%s` joins %s, frozen %s (every chain must start at config.data_dir and join the owner before the "
               "database name)" % (f, got, sorted(want)), b.where if b else "")
    for f, cs in sorted(seen.items()):
        for c in cs:
            ok = c.startswith(("data_dir/", "db_backup_dir(", "db_audit_dir(")) and "?" not in c
            if not ok:
                ctx.ob("R26a", "base:%s" % f, False, "chain `%s` in `%s` does not start at config.data_dir" % (c, f), "")
    ctx.floor("R26a", "Path::join sites in db_pool", total, JOIN_FLOOR)
    other = sorted({fn_of(b) for b in fa.bodies.values() if b.crate == "agdb_server" and not fn_of(b).startswith(MOD) and
                    any(common.norm(cfg.callee(t) or "") == "std::path::Path::join" for i, t in cfg.calls(b))})
    if other:
        ctx.note("Path::join outside db_pool (not database files): %s" % other)


# ---------------------------------------------------------------- R26b

def is_validator(fa, path, cache={}):
    """Frozen list, or the idiom: Result-returning fn with Ok and Err returns that inspects its string parameter."""
    key = (id(fa), path)
    if key in cache:
        return cache[key]
    res = False
    if path in VALIDATORS:
        res = True
    else:
        sig = fa.fns.get(path)
        b = fa.body(path)
        if sig and b and b.crate == "agdb_server" and "Result<" in sig["output"]:
            body = C24.coro(fa, path) if sig.get("async") else b
            if body is not None:
                okb, errb, unk = cfg.ret_class_blocks(body)
                strs = [k for k, ty in enumerate(sig["inputs"]) if ty in ("&str", "&std::string::String", "std::string::String",
                                                                           "&std::path::Path")]
                hits = 0
                for i, t in cfg.calls(body):
                    n = cfg.callee(t) or ""
                    if n.endswith(INSPECT) and t["a"]:
                        w = who(body, t["a"][0])
                        if w and (((0 < w[0] <= body.d["argc"]) and (w[0] - 1) in strs and not sig.get("async")) or
                                  (sig.get("async") and w[0] == 1 and w[1] and w[1][0] in [".%d" % k for k in strs])):
                            hits += 1
                res = bool(okb and errb and hits)
    cache[key] = res
    return res


def validations(fa, body, src):
    """Ok edges of `?` on validator calls in `body` applied to the value whose source is `src`."""
    out = []
    for i, t in cfg.calls(body):
        n = common.norm(cfg.callee(t) or "")
        if not n.startswith("agdb_server::") or not is_validator(fa, n):
            continue
        if any(who(body, a) == src for a in t["a"]):
            for e in ok_edges(body, t["d"][0]):
                out.append((n, e))
    return out


def r26b(ctx):
    fa = ctx.facts
    chains = []
    for a, (field, sink, sink_src) in sorted(ACTIONS.items()):
        short = last(a)
        adt = ACT + a
        # (2) action side / (3) sink side: shared by every handler of the action
        eb = ctx.anchor("R26b", "<%s as agdb_server::action::Action>::exec::{closure#0}" % adt)
        sb = ctx.anchor("R26b", sink + "::{closure#0}")
        if not (eb and sb):
            continue
        sinks = [(i, t) for i, t in cfg.calls(eb) if cfg.callee(t) == sink]
        ctx.ob("R26b", "%s:sink" % short, bool(sinks),
               "%s::exec hands the name to %s" % (short, "::".join(sink.split("::")[-2:])) if sinks else
               "action %s no longer calls its frozen sink `%s` (re-read the action and update ACTIONS)" % (short, sink), eb.where)
        v = validations(fa, eb, (1, (".0", "." + field)))
        action_ok = bool(v and sinks) and all(cut(eb, i, [e for n, e in v]) is None for i, t in sinks)
        v3 = validations(fa, sb, sink_src)
        uses = []
        for i, t in cfg.calls(sb):
            n = common.norm(cfg.callee(t) or "")
            if cfg.is_transparent(cfg.callee(t)) or (n.startswith("agdb_server::") and is_validator(fa, n)):
                continue
            ws = [who(sb, x) for x in t["a"]]
            if any(w is not None and w[0] == sink_src[0] and w[1][:len(sink_src[1])] == sink_src[1] for w in ws):
                uses.append(i)
        sink_ok = bool(v3 and uses) and all(cut(sb, i, [e for n, e in v3]) is None for i in uses)
        # (1) handler side
        for ob in sorted(fa.bodies.values(), key=lambda x: x.path):
            if ob.crate != "agdb_server" or (ACT in fn_of(ob) and not fn_of(ob).startswith(R)):
                continue
            ags = [s["r"] for bi, s in cfg.assigns(ob) if s["r"]["k"] == "agg" and s["r"].get("adt") == adt]
            if not ags:
                continue
            h = fn_of(ob)
            handler_ok = True
            for ag in ags:
                src = who(ob, ag["ops"][ag["fields"].index(field)])
                v1 = validations(fa, ob, src)
                ex = [i for i, t in cfg.calls(ob) if cfg.callee(t) == CEXEC and adt in (cfg.callee_full(t) or "")]
                handler_ok = handler_ok and bool(v1 and ex) and all(cut(ob, i, [e for n, e in v1]) is None for i in ex)
            ok = handler_ok or action_ok or sink_ok
            where = "handler" if handler_ok else "action" if action_ok else "sink"
            chains.append((h, short))
            ctx.ob("R26b", "%s->%s" % (h, short), ok,
                   "the new name `%s.%s` is validated in the %s before it names a file" % (short, field, where) if ok else
                   "`%s` builds %s{%s: <request value>} and neither the handler, nor %s::exec, nor %s applies a validator "
                   "(separators / `..` / leading dot / reserved names) before the name reaches Path::join: %s (F16)" % (
                       h, short, field, short, "::".join(sink.split("::")[-2:]), EXAMPLE[short]),
                   ob.where, key="%s|R26b|%s->%s|unvalidated-name" % (ctx.pid, h, short))
    ctx.floor("R26b", "handler->action chains introducing names", len(chains), CHAIN_FLOOR)
    ctx.note("name-introducing chains: %s" % ["%s->%s" % c for c in chains])
    # the sinks are reached only from their actions (no other way to introduce a name)
    for a, (field, sink, sink_src) in sorted(ACTIONS.items()):
        callers = {fn_of(cb) for cb, j, t in common.callers_of(fa, sink, "agdb_server")}
        allowed = {"<%s%s as agdb_server::action::Action>::exec" % (ACT, a)}
        if sink == SDB + "insert_user":
            allowed |= {"agdb_server::server_db::new"}       # creates the configured admin account at start-up
        ctx.ob("R26b", "who:%s" % "::".join(sink.split("::")[-2:]), bool(callers) and callers <= allowed,
               "called only from %s" % sorted(callers) if callers and callers <= allowed else
               "name-introducing sink `%s` is also called from %s" % (sink, sorted(callers - allowed)), "")


def r26c(ctx, rule="R26c"):
    """A database file is never moved or copied ONTO an existing file: in DbPool::rename_db and DbPool::copy_db the step
    that hands the target path to the storage layer (UserDb::rename via do_rename / Db::copy) is reachable only through
    the `does not exist` edge of an existence test of that very path, db_file(new_owner, new_db).  (The target may be
    a file no registered database owns: another database's `.name` recovery log, a left-over of a removed database.)"""
    fa = ctx.facts
    for fn in ("rename_db", "copy_db"):
        b = ctx.anchor(rule, POOL + fn + "::{closure#0}")
        if not b:
            continue
        tgt = [(i, t) for i, t in cfg.calls(b) if cfg.callee(t) == "agdb_server::db_pool::db_file" and len(t["a"]) >= 2 and
               who(b, t["a"][0]) == (1, (".3",)) and who(b, t["a"][1]) == (1, (".4",))]
        ok = len(tgt) == 1
        detail = "target path db_file(new_owner, new_db) not found" if not ok else ""
        if ok:
            tl = C24.flow(b, [tgt[0][1]["d"][0]], extra=("::to_string_lossy", "Cow::as_ref", "::as_ref", "::as_path"))
            tests = [(i, t) for i, t in cfg.calls(b) if (cfg.callee(t) or "") in ("std::path::Path::exists", "std::fs::exists")
                     and t["a"] and (who(b, t["a"][0]) or (None,))[0] in tl]
            edges = []
            for i, t in tests:
                for sw in cfg.bool_switches(b, C24.flow(b, [t["d"][0]], extra=("Result::map_err",))):
                    edges.append(sw["false_edge"])
            uses = [i for i, t in cfg.calls(b) if i not in [x for x, _ in tests] and i != tgt[0][0] and not cfg.is_transparent(cfg.callee(t) or "")
                    and not (cfg.callee(t) or "").endswith(("::to_string_lossy", "::as_ref", "::deref", "::exists"))
                    and any((who(b, a) or (None,))[0] in tl for a in t["a"])]
            ok = bool(tests and edges and uses) and all(cut(b, i, edges) is None for i in uses)
            detail = "tests %d, uses of the target path %s" % (len(tests), [b.loc(i) for i in uses])
        ctx.ob(rule, "%s:target-must-not-exist" % fn, ok,
               "the target path is used only after `exists()` was false (%s)" % detail if ok else
               "DbPool::%s can hand the target path to the storage layer without having found it absent (%s): an existing "
               "file (another database's recovery log / a left-over file) is silently replaced" % (fn, detail), b.where)


def run(ctx):
    r26a(ctx)
    r26b(ctx)
    r26c(ctx)
    return 0
