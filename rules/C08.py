"""C08 — graph mutations behave like an abstract multigraph."""
from lib import cfg
from rules import common

CRATES = ("agdb",)
EXPLANATION = (
    "Static analysis: (R08a) GraphImpl::insert_edge validates both endpoints before its first effect (cut on the Ok edge of "
    "each validate_node); (R08b) DbImpl::remove_node cascades: for every edge of node_edges (which collects both incoming "
    "and outgoing iterators) it removes the edge and its values, then removes the node; (R08c) no element slot is freed "
    "while its properties stay alive: every graph.remove_edge/remove_node outside rollback is followed by "
    "remove_all_values in the function or in every caller (ids are reused); (R08d) sign discipline: graph_index accepts a "
    "negative id only via graph.edge and a positive id only via graph.node; insert_edge negates the free index, "
    "insert_node does not.")
DECIDED = ["R08a insert_edge fails without effect on a missing endpoint (DOM)",
           "R08b node removal cascades to all incident edges and their values (MUST)",
           "R08c properties die with the element (post-dominance, inter-procedural one level)",
           "R08d sign discipline of ids (TABLE)",
           "R08b (cont.) node_edges filters nothing but self-loops",
           "R08e a freed graph slot is fully reset",
           "R08f from/to sibling functions of the graph module are mirror images (SIBLING over calls and field accesses)",
           "R08g every removal releases its slot through free_index (MUST)"]
UNDECIDED = ["adjacency-list unlinking and free-slot stack correctness over histories (pointer arithmetic; only the mirror "
             "agreement of the outgoing and the incoming variant is decided)",
             "counts matching the abstract graph (needs execution)"]

G = "agdb::graph::GraphImpl::"
DB = "agdb::db::DbImpl::"


def r08c(ctx):
    fa = ctx.facts
    # R08c
    n = 0
    for b in fa.find(r"^agdb::db::DbImpl::[a-z_]+$"):
        name = common.norm(b.npath)
        if name == DB + "rollback":
            continue
        for i, t in cfg.calls(b):
            c = common.norm(cfg.callee(t) or "")
            if c not in (G + "remove_edge", G + "remove_node"):
                continue
            n += 1
            okb, errb, unk = cfg.ret_class_blocks(b)
            targets = (okb + unk) or cfg.return_blocks(b)
            rav = [j for j, tj in cfg.calls(b) if common.norm(cfg.callee(tj) or "") == DB + "remove_all_values"]
            local = bool(rav) and cfg.find_path(b, [i], targets, avoid=rav, leave_start=True) is None
            how = "followed by remove_all_values in the same function"
            ok = local
            if not local:
                ups = common.callers_of(fa, name, "agdb")
                ok = bool(ups)
                for ub, k, tk in ups:
                    uokb, uerrb, uunk = cfg.ret_class_blocks(ub)
                    utargets = (uokb + uunk) or cfg.return_blocks(ub)
                    urav = [j for j, tj in cfg.calls(ub) if common.norm(cfg.callee(tj) or "") == DB + "remove_all_values"]
                    if not urav or cfg.find_path(ub, [k], utargets, avoid=urav, leave_start=True) is not None:
                        ok = False
                how = "followed by remove_all_values in every caller (%d)" % len(ups)
            ctx.ob("R08c", "%s:%s" % (name, c.split("::")[-1]), ok, how if ok else
                   "`%s` frees a graph slot via %s but a success path neither here nor in every caller removes the "
                   "element's values: a later element reusing the id would inherit them" % (name, c.split("::")[-1]), b.loc(i))
    ctx.floor("R08c", "graph slot removals in DbImpl outside rollback", n, 3)



def _sigma(name):
    return "_".join({"from": "to", "to": "from"}.get(x, x) for x in name.split("_"))


def _mirror_events(b):
    """multiset of (graph-module callee | self.<field> access) of a body, from<->to renamed on request"""
    import collections
    ev = collections.Counter()
    for i, t in cfg.calls(b):
        n = common.norm(cfg.callee(t) or cfg.callee_decl(t) or "?")
        conv = (cfg.callee_decl(t) or "").endswith(("convert::From::from", "convert::Into::into"))
        if not conv and (n.startswith("agdb::graph::") or n.startswith("<agdb::graph::")):
            ev[("call", n.split("::")[-1])] += 1
        else:
            ev[("ext", n)] += 1
    for bi, blk in enumerate(b.blocks):
        if blk.get("cleanup"):
            continue
        for s_ in blk["s"]:
            r = s_.get("r")
            if not r:
                continue
            for o in cfg.rvalue_operands(r):
                pl = cfg.op_place(o)
                if pl and pl[0] == 1:
                    f = [e for e in pl[1:] if isinstance(e, str) and e.startswith(".")]
                    if f:
                        ev[("field", f[0][1:])] += 1
    return ev


def mirror_rule(ctx, rule="R08f"):
    """SIBLING rule over the graph module: every pair of functions whose names differ by from<->to (outgoing vs incoming
    adjacency: accessors, list heads, list walks, unlinking, counters) must be mirror images: the same multiset of
    graph-module calls and self-field accesses after renaming from<->to.  A successor read from the other list while
    unlinking (`to_meta` in remove_from_edge) splices one node's outgoing list into another node's incoming list."""
    import collections
    fa = ctx.facts
    bodies = {}
    for b in fa.bodies.values():
        if b.crate == "agdb" and b.file.startswith("agdb/src/graph") and not b.root and "::tests::" not in b.path:
            bodies.setdefault(common.norm(b.npath), b)
    n = 0
    for name, b in sorted(bodies.items()):
        last = name.split("::")[-1]
        if "from" not in last.split("_"):
            continue
        twin = "::".join(name.split("::")[:-1] + [_sigma(last)])
        tb = bodies.get(twin)
        if tb is None or twin == name:
            continue
        n += 1
        ef = _mirror_events(b)
        et = _mirror_events(tb)
        efs = collections.Counter()
        for (k, v), c in ef.items():
            efs[(k, _sigma(v) if k in ("call", "field") else v)] += c
        ok = efs == et
        ctx.ob(rule, "%s~%s" % (name.split("::", 2)[-1], _sigma(last)), ok, "mirror images under from<->to" if ok else
               "`%s` and `%s` are not mirror images under from<->to: only in the first (renamed): %s; only in the second: %s" % (
                   name, twin, sorted(dict(efs - et).items()), sorted(dict(et - efs).items())), b.where)
    ctx.floor(rule, "from/to sibling pairs of the graph module", n, 14)


def slot_release_rule(ctx, rule="R08g"):
    """Every removed element returns its slot to the free list (free_index) - also the last slot of the graph.  The undo
    commands of a removal (InsertNode / InsertEdge) carry no id: rollback re-creates the elements by taking slots from the
    free list in reverse order of the removals, which restores the original ids only if every removal pushed its slot."""
    fa = ctx.facts
    for fn in ("remove_edge", "remove_node"):
        b = ctx.anchor(rule, G + fn)
        if not b:
            continue
        fr = common.call_blocks_reaching(fa, b, [G + "free_index"])
        okb, errb, unk = cfg.ret_class_blocks(b)
        targets = (okb + unk) or cfg.return_blocks(b)
        # a success path that removes nothing (element not found) need not release anything: only paths that unlink
        unlink = common.call_blocks_reaching(fa, b, [G + "remove_from_edge", G + "remove_to_edge", G + "remove_from_edges",
                                                     G + "remove_to_edges", G + "set_node_count", G + "set_edge_count"])
        starts = unlink or [0]
        p = None
        for u in starts:
            p = p or cfg.find_path(b, [u], targets, avoid=fr, leave_start=True)
        ok = bool(fr) and p is None
        ctx.ob(rule, "%s:slot-released" % fn, ok,
               "every removing path passes free_index" if ok else
               "GraphImpl::%s can remove an element without pushing its slot onto the free list (%s): rollback re-creates "
               "removed elements from the free list in reverse order and would hand out other ids" % (
                   fn, cfg.path_str(b, p) if p else "free_index not called"), b.where)


def run(ctx):
    fa = ctx.facts
    b = ctx.anchor("R08a", G + "insert_edge")
    if b:
        vals = [(i, t) for i, t in cfg.calls(b) if common.norm(cfg.callee(t) or "") == G + "validate_node"]
        effects = [i for i, t in cfg.calls(b) if common.norm(cfg.callee(t) or "") in (G + "set_edge", G + "get_free_index")
                   or cfg.callee_decl(t) in common.OPEN_DECLS]
        params = set()
        for i, t in vals:
            o = cfg.op_origin(b, t["a"][2]) if len(t["a"]) > 2 else None
            if o:
                params.add(o[0])
            cut = [te["ok_edge"] for te in cfg.try_edges(b, cfg.derived_locals(b, [t["d"][0]])) if te["ok_edge"]]
            p = cfg.find_path(b, [0], effects, removed_edges=cut) if cut else [0]
            ctx.ob("R08a", "insert_edge:validate(%s)" % (b.local_name(o[0]) if o else "?"), bool(effects) and p is None,
                   "every effect is reachable only through validate_node(..)? of this endpoint" if (effects and p is None) else
                   "insert_edge can take effect without validating this endpoint", b.loc(i))
        ctx.ob("R08a", "insert_edge:both-endpoints", params == {3, 4},
               "validate_node applied to `from` and `to`" if params == {3, 4} else
               "validate_node is not applied to both endpoint parameters (validated params: %s)" % sorted(params), b.where)

    b = ctx.anchor("R08b", DB + "remove_node")
    if b:
        ne = [i for i, t in cfg.calls(b) if common.norm(cfg.callee(t) or "") == DB + "node_edges"]
        re_ = [i for i, t in cfg.calls(b) if common.norm(cfg.callee(t) or "") == G + "remove_edge"]
        rav = [i for i, t in cfg.calls(b) if common.norm(cfg.callee(t) or "") == DB + "remove_all_values"]
        rn = [i for i, t in cfg.calls(b) if common.norm(cfg.callee(t) or "") == G + "remove_node"]
        loops = cfg.sccs(b)
        ok = bool(ne and re_ and rav and rn)
        if ok:
            lp = [c for c in loops if re_[0] in c and rav[0] in c]
            okb, errb, unk = cfg.ret_class_blocks(b)
            ok = (bool(lp) and cfg.find_path(b, [0], re_, avoid=ne) is None and
                  cfg.find_path(b, [0], okb + unk, avoid=rn) is None and rn[0] not in lp[0])
        ctx.ob("R08b", "remove_node:cascade", ok,
               "loop over node_edges: graph.remove_edge + remove_all_values(edge); then graph.remove_node" if ok else
               "remove_node no longer removes every incident edge with its values before removing the node", b.where)
    b = ctx.anchor("R08b", DB + "node_edges")
    if b:
        names = {common.norm(cfg.callee(t) or "").split("::")[-1] for i, t in cfg.calls(b)}
        ok = {"edge_iter_from", "edge_iter_to"} <= names
        ctx.ob("R08b", "node_edges:both-directions", ok,
               "collects outgoing and incoming edges" if ok else "node_edges no longer collects both edge directions", b.where)

    r08c(ctx)

    # R08b (cont.): every incoming edge except a self-loop is collected: the push of the second loop is guarded by
    # nothing but the iterator and a comparison of the edge's origin with the node itself
    b = fa.body(DB + "node_edges")
    if b:
        pushes = [i for i, t in cfg.calls(b) if cfg.callee(t) == "std::vec::Vec::push"]
        bad = []
        for i_sw, blk in enumerate(b.blocks):
            t = blk["term"]
            if blk.get("cleanup") or t["k"] != "switch" or t.get("x") in ("desugar:ForLoop", "desugar:QuestionMark"):
                continue
            pl = cfg.op_place(t["d"])
            if not pl:
                continue
            # does this switch decide whether some push happens?
            decides = False
            for tgt in cfg.succs(b, i_sw):
                for p in pushes:
                    if cfg.find_path(b, [0], [p], removed_edges=[(i_sw, tgt)]) is None:
                        decides = True
            if not decides:
                continue
            dc = cfg.def_call(b, pl[0])
            okg = False
            if dc and (cfg.callee_decl(dc[1]) or "").endswith(("PartialEq::ne", "PartialEq::eq")):
                roots = {(cfg.op_origin(b, a) or (None,))[0] for a in dc[1]["a"]}
                okg = 2 in roots       # compared with the node's own index (parameter `graph_index`)
            ds = cfg.defs(b).get(pl[0], [])
            if ds and ds[0][0] == "assign" and ds[0][2]["k"] == "discr":
                okg = True             # Option / Result plumbing (`?`, ok_or)
            if not okg:
                bad.append(b.loc(i_sw))
        ctx.ob("R08b", "node_edges:no-extra-filter", not bad,
               "incoming edges are skipped only when their origin is the node itself (self-loop already collected)" if not bad
               else "node_edges filters edges by an additional condition at %s: some incident edges (and their values) would "
               "survive the removal of the node" % bad, b.where)

    slot_reset_rule(ctx)

    # R08d
    r08d(ctx)
    return 0


def slot_reset_rule(ctx):
    """R08e: a freed slot is fully reset, so an element reusing the id inherits nothing: every per-slot setter of
    GraphData is applied to the freed index (also evaluated by C14: traversals read these links)."""
    fa = ctx.facts
    setters = sorted(f["name"] for p, f in fa.fns.items() if f.get("trait_decl") == "agdb::graph::GraphData" and
                     f["name"].startswith("set_") and len(f["inputs"]) == 4 and "GraphIndex" in f["inputs"][2])
    fb, gb = fa.body(G + "free_index"), fa.body(G + "get_free_index")
    if fb and gb:
        called = set()
        for body, pidx in ((fb, 3),):
            for i, t in cfg.calls(body):
                nme = (cfg.callee_decl(t) or "").split("::")[-1]
                if nme in setters and len(t["a"]) > 2:
                    o = cfg.op_origin(body, t["a"][2])
                    if o and o[0] == pidx:
                        called.add(nme)
        missing = [s for s in setters if s not in called]
        ctx.ob("R08e", "free_index:slot-fully-reset", bool(setters) and not missing,
               "free_index resets %s of the freed slot" % setters if setters and not missing else
               "free_index does not reset %s of the freed slot: a node or edge reusing the id inherits stale links / counts" % missing,
               fb.where)
        ctx.floor("R08e", "per-slot setters of GraphData", len(setters), 4)


def r08d(ctx):
    fa = ctx.facts
    b = ctx.anchor("R08d", DB + "graph_index")
    if b:
        # whatever the idiom (match on id.cmp(&0), if / else if on id < 0 / id > 0): graph.edge is consulted only for a
        # negative id, graph.node only for a positive one, and Ok is returned only after one of them said `is_some`
        se = common.sign_edges(b, 2)
        ec = [(i, t) for i, t in cfg.calls(b) if common.norm(cfg.callee(t) or "") == G + "edge"]
        nc = [(i, t) for i, t in cfg.calls(b) if common.norm(cfg.callee(t) or "") == G + "node"]
        okb, errb, unk = cfg.ret_class_blocks(b)
        exists_edges = []
        for i, t in ec + nc:
            for te in cfg.result_edges(b, [t["d"][0]]):
                exists_edges.append(te["ok_edge"])
        ok_e = bool(ec and se["neg"]) and all(cfg.find_path(b, [0], [i], removed_edges=se["neg"]) is None for i, t in ec)
        ok_n = bool(nc and se["pos"]) and all(cfg.find_path(b, [0], [i], removed_edges=se["pos"]) is None for i, t in nc)
        ok_x = bool(exists_edges and okb) and cfg.find_path(b, [0], okb + unk, removed_edges=exists_edges) is None
        ok = ok_e and ok_n and ok_x
        detail = ("graph.edge only for id < 0, graph.node only for id > 0, Ok only after one of them found the element" if ok else
                  "sign discipline broken in graph_index (graph.edge only under id < 0: %s; graph.node only under id > 0: %s; "
                  "Ok only after an existence test: %s): a negative id must resolve only through graph.edge and a positive "
                  "one only through graph.node, because the validators look at the slot |id| alone" % (ok_e, ok_n, ok_x))
        ctx.ob("R08d", "graph_index:sign-table", ok, detail, b.where)
    for fn, want_neg in (("insert_edge", True), ("insert_node", False)):
        b = ctx.anchor("R08d", G + fn)
        if b:
            gf = [(i, t) for i, t in cfg.calls(b) if common.norm(cfg.callee(t) or "") == G + "get_free_index"]
            neg = False
            if gf:
                der = cfg.derived_locals(b, [gf[0][1]["d"][0]])
                for bi, s in cfg.assigns(b):
                    r = s["r"]
                    if r["k"] == "un" and r["op"] == "Neg":
                        pl = cfg.op_place(r["a"])
                        if pl and pl[0] in der:
                            neg = True
            ok = bool(gf) and neg == want_neg
            ctx.ob("R08d", "%s:index-sign" % fn, ok,
                   ("edge index = -(free index)" if want_neg else "node index = free index (positive)") if ok else
                   "%s builds its returned index with the wrong sign (negated: %s)" % (fn, neg), b.where)
    mirror_rule(ctx)
    slot_release_rule(ctx)
    return 0
