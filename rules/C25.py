"""C25 — a server query batch is all-or-nothing and audited exactly."""
from lib import cfg
from rules import common
from rules import C24

EXPLANATION = (
    "Static analysis of crate agdb_server: (R25a) UserDb::exec_mut takes the write lock and returns the result of exactly "
    "one DbImpl::transaction_mut; the only caller of t_exec_mut is the closure passed to it, every t_exec_mut call runs "
    "on that closure's transaction, its result goes through `?` (after a call the Ok return is reachable only through the "
    "Ok edge), so the first failing query makes the closure return Err and transaction_mut rolls back (then C13); the "
    "audit vector is created inside the closure and leaves it only inside the Ok value; (R25b) in DbPool::exec_mut every "
    "file-writing call is reachable only through the Ok edge of `UserDb::exec_mut(..).await?` and through the false edge "
    "of `audit.is_empty()`, what is written is that audit vector, the file is db_audit_file(owner, db) of the request and "
    "the returned results are the closure's results; (R25c) the audited set of QueryType variants equals the mutating set "
    "(same tables as R24d), audit_query records its user argument and query, and the user name travels unchanged from the "
    "handlers (the caller's user_name / the configured admin) through DbExec, DbPool::exec_mut, UserDb::exec_mut and "
    "t_exec_mut into audit_query.")
DECIDED = ["R25a batch runs inside one mutable transaction, no swallowed error (MUST/WHO)",
           "R25b audit written only after success and only if non-empty (DOM cut-sets)",
           "R25c audited set = mutating set; audit entries carry the submitting user (TABLE + value flow, on every path)",
           "R31b committed entries are executed once and in log order, marked executed whatever the outcome (shared with C31)"]
UNDECIDED = ["file-append atomicity of the audit log: an I/O error while appending makes DbPool::exec_mut return Err after "
             "the batch has been committed (audit and database then disagree)",
             "rollback correctness of DbImpl::transaction_mut itself (C13)",
             "order of audit entries across concurrent batches (serialised by the per-database write lock and by raft "
             "log order; not decided here)"]

UDB = C24.UDB
POOL = C24.POOL
SDB = C24.SDB
R = C24.R
ACT = C24.ACT
who = C24.who
flow = C24.flow
ok_edges = C24.ok_edges
cut = C24.cut
last = C24.last

# appendix A.5: calls that create / modify files
WRITERS = ("std::fs::OpenOptions::open", "serde_json::to_writer", "std::io::Write::write_all", "std::io::Write::write",
           "std::fs::File::set_len", "std::fs::File::create", "std::fs::write", "std::fs::copy", "std::fs::rename",
           "std::fs::remove_file", "std::fs::create_dir_all")


def is_writer(t):
    n = common.norm(cfg.callee(t) or "")
    d = common.norm(cfg.callee_decl(t) or "")
    return n in WRITERS or d in WRITERS or n.endswith(("Write>::write_all", "Write>::write"))


def r25a(ctx):
    fa = ctx.facts
    outer = ctx.anchor("R25a", UDB + "UserDb::exec_mut::{closure#0}")
    if not outer:
        return
    trs = [(i, t) for i, t in cfg.calls(outer) if common.norm(cfg.callee(t) or "").startswith("agdb::DbImpl::transaction")]
    one = len(trs) == 1 and common.norm(cfg.callee(trs[0][1])) == "agdb::DbImpl::transaction_mut"
    ctx.ob("R25a", "exec_mut:one-transaction", one and trs[0][1]["d"] == [0],
           "exactly one DbImpl::transaction_mut whose result is returned unchanged" if one and trs[0][1]["d"] == [0] else
           "UserDb::exec_mut no longer wraps the batch in a single transaction_mut whose result it returns (found %s)" % [
               common.norm(cfg.callee(t)) for i, t in trs], outer.where)
    if not one:
        return
    t0 = trs[0][1]
    locks = [t for i, t in cfg.calls(outer) if common.norm(cfg.callee(t) or "").startswith("tokio::sync::RwLock::")]
    wl = [t for t in locks if last(common.norm(cfg.callee(t))) == "write"]
    recv = who(outer, t0["a"][0])
    ok = len(locks) == 1 and len(wl) == 1 and recv is not None and recv[0] in flow(outer, [wl[0]["d"][0]])
    ctx.ob("R25a", "exec_mut:write-lock", ok, "the transaction runs on the database behind the pool's write lock" if ok else
           "transaction_mut's receiver does not come from RwLock::write", outer.where)
    cls = common.closure_bodies_passed(fa, outer, t0)
    if len(cls) != 1:
        ctx.ob("R25a", "exec_mut:closure", False, "transaction_mut does not receive exactly one closure (idiom not recognised)", outer.where)
        return
    cl = cls[0]
    sites = common.callers_of(fa, UDB + "t_exec_mut", "agdb_server")
    strangers = sorted({cb.path for cb, j, t in sites if cb.path != cl.path})
    ctx.ob("R25a", "who:t_exec_mut", bool(sites) and not strangers,
           "t_exec_mut is called only inside the closure passed to transaction_mut (%d site(s))" % len(sites) if sites and not strangers
           else "t_exec_mut is called outside the single transaction closure: %s" % (strangers or "no call found"), cl.where)
    okb = C24.ok_blocks(cl)
    n = 0
    audit_locals = set()
    for cb, j, t in sites:
        if cb.path != cl.path:
            continue
        n += 1
        inst = "t_exec_mut#%d" % n
        w = who(cl, t["a"][0])
        ctx.ob("R25a", inst + ":on-transaction", w is not None and w[0] == 2 and not w[1],
               "runs on the closure's transaction parameter" if w and w[0] == 2 else
               "t_exec_mut does not run on the transaction of the enclosing transaction_mut (source %s)" % (w,), cl.loc(j))
        edges = ok_edges(cl, t["d"][0])
        p = cfg.find_path(cl, [j], okb, removed_edges=edges, leave_start=True) if okb else None
        ok = bool(edges and okb) and p is None
        ctx.ob("R25a", inst + ":error-propagates", ok,
               "after the call the Ok return is reachable only through the Ok edge of `?` (first failure => Err => rollback)" if ok
               else "the result of t_exec_mut is not propagated with `?`: the closure can still return Ok after a failed "
                    "query (%s)" % (cfg.path_str(cl, p) if p else "no `?` on the result"), cl.loc(j),
               key="%s|R25a|UserDb::exec_mut|swallowed-error" % ctx.pid)
        wa = who(cl, t["a"][3])
        if wa:
            audit_locals.add(wa[0])
    # the audit vector: created in the closure, returned only inside Ok
    fresh = all(any(d[0] == "call" and common.norm(cfg.callee(d[2]) or "").endswith("Vec::new") for d in cfg.defs(cl).get(a, []))
                for a in audit_locals)
    ret_ok = False
    for bi, s in cfg.assigns(cl):
        r = s["r"]
        if s["l"] == [0] and r["k"] == "agg" and r.get("variant") == "Ok" and r["ops"]:
            w = who(cl, r["ops"][0])
            ds = cfg.defs(cl).get(w[0], []) if w else []
            tup = [d[2] for d in ds if d[0] == "assign" and d[2]["k"] == "agg" and d[2].get("what") == "tuple"]
            if tup and len(tup[0]["ops"]) == 2:
                wa = who(cl, tup[0]["ops"][1])
                ret_ok = wa is not None and wa[0] in audit_locals
    ok = len(audit_locals) == 1 and fresh and ret_ok
    ctx.ob("R25a", "closure:audit-vector", ok,
           "the audit vector filled by t_exec_mut is created inside the closure and returned as `.1` of its Ok value "
           "(an Err return drops it)" if ok else
           "the audit vector is not local to the transaction closure / not the one returned in Ok (locals %s, fresh %s, returned %s)" % (
               sorted(audit_locals), fresh, ret_ok), cl.where)
    ctx.floor("R25a", "t_exec_mut call sites", n, 1)


def r25b(ctx):
    fa = ctx.facts
    b = ctx.anchor("R25b", POOL + "exec_mut::{closure#0}")
    if not b:
        return
    sig = fa.fns.get(POOL + "exec_mut")
    ex = [(i, t) for i, t in cfg.calls(b) if cfg.callee(t) == UDB + "UserDb::exec_mut"]
    if len(ex) != 1:
        ctx.ob("R25b", "exec_mut:call", False, "DbPool::exec_mut does not call UserDb::exec_mut exactly once (%d)" % len(ex), b.where)
        return
    j, t = ex[0]
    res = flow(b, [t["d"][0]])
    # parameters: self, owner, db, username, queries  -> coroutine state fields .0 .. .4
    names = {"owner": (1, (".1",)), "db": (1, (".2",)), "username": (1, (".3",)), "queries": (1, (".4",))}
    ok = who(b, t["a"][1]) == names["queries"] and who(b, t["a"][2]) == names["username"]
    ctx.ob("R25b", "exec_mut:arguments", ok, "passes the request's queries and user name to UserDb::exec_mut" if ok else
           "UserDb::exec_mut receives %s / %s instead of the queries and username parameters" % (who(b, t["a"][1]), who(b, t["a"][2])),
           b.loc(j))
    succ = ok_edges(b, t["d"][0])
    nonempty = []
    for i, tt in cfg.calls(b):
        if common.norm(cfg.callee(tt) or "") == "std::vec::Vec::is_empty" and tt["a"]:
            w = who(b, tt["a"][0])
            if w and w[0] in res:
                for sw in cfg.bool_switches(b, flow(b, [tt["d"][0]])):
                    nonempty.append(sw["false_edge"])
    writers = [(i, tt) for i, tt in cfg.calls(b) if is_writer(tt)]
    for k, (i, tt) in enumerate(writers):
        nm = last(common.norm(cfg.callee(tt)))
        p1 = cut(b, i, succ) if succ else [0]
        p2 = cut(b, i, nonempty) if nonempty else [0]
        ctx.ob("R25b", "write#%d:%s:after-success" % (k, nm), p1 is None,
               "reachable only through the Ok edge of UserDb::exec_mut(..).await?" if p1 is None else
               "audit file operation `%s` is reachable without the batch having succeeded: %s" % (
                   nm, cfg.path_str(b, p1) if succ else "no `?` on UserDb::exec_mut's result found"), b.loc(i),
               key="%s|R25b|DbPool::exec_mut|%s|write-before-success" % (ctx.pid, nm))
        ctx.ob("R25b", "write#%d:%s:non-empty" % (k, nm), p2 is None,
               "reachable only when the audit vector is non-empty" if p2 is None else
               "audit file operation `%s` is reachable with an empty audit vector: %s" % (
                   nm, cfg.path_str(b, p2) if nonempty else "no `audit.is_empty()` test found"), b.loc(i),
               key="%s|R25b|DbPool::exec_mut|%s|write-when-empty" % (ctx.pid, nm))
    ctx.floor("R25b", "file-writing calls in DbPool::exec_mut", len(writers), 3)
    # what is written / where / what is returned
    payload = []
    for i, tt in cfg.calls(b):
        n = common.norm(cfg.callee(tt) or "")
        if n in ("serde_json::to_writer", "serde_json::to_vec"):
            w = who(b, tt["a"][-1])
            payload.append(w is not None and w[0] in res)
    ok = bool(payload) and all(payload)
    ctx.ob("R25b", "written-data", ok, "the serialised value is the audit vector returned by the transaction" if ok else
           "the data written to the audit file does not derive from UserDb::exec_mut's audit vector", b.where)
    opens = [(i, tt) for i, tt in cfg.calls(b) if common.norm(cfg.callee(tt) or "") == "std::fs::OpenOptions::open"]
    ok = bool(opens)
    for i, tt in opens:
        dc = cfg.def_call(b, cfg.op_place(tt["a"][1])[0]) if cfg.op_place(tt["a"][1]) else None
        ok = ok and dc is not None and cfg.callee(dc[1]) == "agdb_server::db_pool::db_audit_file" and \
            who(b, dc[1]["a"][0]) == names["owner"] and who(b, dc[1]["a"][1]) == names["db"]
    ctx.ob("R25b", "audit-file", ok, "the file is db_audit_file(owner, db) of the request" if ok else
           "the audit file is not db_audit_file(owner, db) of the database the batch ran on", b.where)
    rets = [s for bi, s in cfg.assigns(b) if s["l"] == [0] and s["r"]["k"] == "agg" and s["r"].get("variant") == "Ok"]
    ok = bool(rets) and all((who(b, s["r"]["ops"][0]) or (None,))[0] in res for s in rets)
    ctx.ob("R25b", "returned-results", ok, "Ok carries the results of the transaction" if ok else
           "DbPool::exec_mut returns something else than the transaction's results", b.where)
    if sig:
        ctx.note("DbPool::exec_mut inputs: %s" % sig["inputs"])


def r25c(ctx):
    fa = ctx.facts
    C24.r24d(ctx, rule="R25c")
    # audit_query records its arguments
    b = ctx.anchor("R25c", UDB + "audit_query")
    if b:
        ag = [s["r"] for bi, s in cfg.assigns(b) if s["r"]["k"] == "agg" and s["r"].get("adt") == "agdb_api::QueryAudit"]
        ok = len(ag) == 1
        if ok:
            f = dict(zip(ag[0]["fields"], ag[0]["ops"]))
            ok = who(b, f.get("username", {})) == (1, ()) and who(b, f.get("query", {})) == (3, ())
        push = [t for i, t in cfg.calls(b) if common.norm(cfg.callee(t) or "") == "std::vec::Vec::push"]
        ok = ok and len(push) == 1 and who(b, push[0]["a"][0]) == (2, ())
        ctx.ob("R25c", "audit_query:records", ok, "pushes QueryAudit{username: user, query} onto the audit vector" if ok else
               "audit_query does not record its user / query arguments on the audit vector", b.where)
    # the user name travels unchanged
    hops = []
    bm = ctx.anchor("R25c", UDB + "t_exec_mut")
    if bm:
        aq = [t for i, t in cfg.calls(bm) if cfg.callee(t) == UDB + "audit_query"]
        hops.append(("t_exec_mut->audit_query", bool(aq) and all(
            who(bm, t["a"][0]) == (5, ()) and who(bm, t["a"][1]) == (4, ()) and who(bm, t["a"][2]) == (2, ()) for t in aq), bm.where))
    outer = ctx.anchor("R25c", UDB + "UserDb::exec_mut::{closure#0}")
    if outer:
        ok = False
        where = outer.where
        for i, t in cfg.calls(outer):
            if common.norm(cfg.callee(t) or "") == "agdb::DbImpl::transaction_mut":
                for cl in common.closure_bodies_passed(fa, outer, t):
                    w = who(outer, t["a"][1])
                    ags = [d[2] for d in cfg.defs(outer).get(w[0], []) if d[0] == "assign" and d[2]["k"] == "agg"] if w else []
                    ups = [k for k, o in enumerate(ags[0]["ops"]) if who(outer, o) == (1, (".2",))] if ags else []
                    calls = [tt for j, tt in cfg.calls(cl) if cfg.callee(tt) == UDB + "t_exec_mut"]
                    ok = bool(ups and calls) and all(who(cl, tt["a"][4]) == (1, (".%d" % ups[0],)) for tt in calls)
        hops.append(("UserDb::exec_mut->t_exec_mut", ok, where))
    act = ctx.anchor("R25c", "<%sdb_exec::DbExec as agdb_server::action::Action>::exec::{closure#0}" % ACT)
    if act:
        calls = [t for i, t in cfg.calls(act) if cfg.callee(t) == POOL + "exec_mut"]
        ok = bool(calls) and all(who(act, t["a"][3]) == (1, (".0", ".user")) and who(act, t["a"][1]) == (1, (".0", ".owner")) and
                                 who(act, t["a"][2]) == (1, (".0", ".db")) and who(act, t["a"][4]) == (1, (".0", ".queries")) for t in calls)
        hops.append(("DbExec::exec->DbPool::exec_mut", ok, act.where))
    for name, ok, where in hops:
        ctx.ob("R25c", "username:" + name, ok, "owner/db/user/queries are passed through unchanged" if ok else
               "the submitting user's name (or the batch) is not passed through unchanged at %s" % name, where)
    # handlers: DbExec.user is the caller
    h = C24.H(fa, R + "db::exec_mut")
    if h.err:
        ctx.ob("R25c", "username:db::exec_mut", False, h.err, "")
    else:
        sites, bad = h.e_action("db_exec::DbExec", dict(user=C24.USERNAME, owner="owner", db="db", queries="queries"))
        ctx.ob("R25c", "username:db::exec_mut", bool(sites) and not bad,
               "DbExec.user = user_name(<authenticated user id>)" if sites and not bad else "; ".join(bad) or "DbExec not constructed",
               h.b.where)
    hb = C24.coro(fa, R + "admin::db::exec_mut")
    if hb is None:
        ctx.ob("R25c", "username:admin::db::exec_mut", False, "handler not found", "")
    else:
        ags = [s["r"] for bi, s in cfg.assigns(hb) if s["r"]["k"] == "agg" and s["r"].get("adt") == ACT + "db_exec::DbExec"]
        ok = bool(ags)
        for ag in ags:
            w = who(hb, dict(zip(ag["fields"], ag["ops"]))["user"])
            ok = ok and w is not None and w[1][-1:] == (".admin",)
        ctx.ob("R25c", "username:admin::db::exec_mut", ok,
               "DbExec.user = config.admin (the only account that passes AdminId)" if ok else
               "the admin endpoint does not attribute the batch to the configured admin account", hb.where)


def run(ctx):
    r25a(ctx)
    r25b(ctx)
    r25c(ctx)
    # a batch travels to the database as a cluster log entry: "applied all-or-nothing" and "audited exactly the applied
    # batches, in order" also need every committed entry to be executed once, in log order, whatever its outcome (a
    # failed batch that stays marked unexecuted runs again at the next start).  R31b, shared with C31.
    from rules import C31
    C31.rule_ordered(ctx)
    return 0
