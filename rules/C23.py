"""C23 — concurrent reads see the same results as sequential reads."""
import os
import re
import subprocess
from lib import cfg
from rules import common

CRATES = ("agdb",)
EXPLANATION = (
    "Static analysis close to a proof by the type system plus one lock rule: (R23a) the field-type closure of "
    "DbImpl<Store> over every storage type contains no interior mutability (non-Freeze leaf) other than "
    "FileStorage::lock: Mutex<()>, and crate agdb contains no user `unsafe` block, so `&self` queries cannot race on "
    "memory (Sync witness compiled in witness/); (R23b) the only shared mutable state left is the OS cursor of "
    "FileStorage::file: in every `&self` method of FileStorage each use of self.file is reachable only through the Ok "
    "edge of try_lock/lock on self.lock and no drop of the MutexGuard lies between the acquisition and the use (checked on "
    "MIR drop points, so `let _ = lock` instead of `let _guard = lock` is caught); reads outside the guard use a handle "
    "obtained from open_file in the same function; (R23c) exec/transaction take &self and no Query::process receives "
    "&mut DbImpl.")
DECIDED = ["R23a inventory of interior-mutable fields and unsafe blocks (TYPES)", "R23b file-cursor lock discipline (DOM on drop points)",
           "R23c read-only signatures of the read path (TABLE)", "E3 Send/Sync witness of the database types (thorough tier)"]
UNDECIDED = ["OS-level semantics of concurrent reads through separate handles"]

FS = "agdb::storage::file_storage::FileStorage"
ROOTS = ["agdb::db::DbImpl", FS, "agdb::storage::memory_storage::MemoryStorage",
         "agdb::storage::file_storage_memory_mapped::FileStorageMemoryMapped", "agdb::storage::any_storage::AnyStorage"]
ALLOWED_NONFREEZE = {(FS, "lock"): "Mutex<()> serialising the shared file cursor"}
ALLOWED_TYPES = {(FS, "lock"): ("Mutex<()>",)}


def cursor_rule(ctx):
    """R23b: the shared OS cursor of FileStorage::file is only used under the guard of FileStorage::lock (also
    evaluated by C06: the file-only variant must not diverge from the others under concurrent readers)."""
    fa = ctx.facts
    # ---- R23b
    n_uses = 0
    for b in fa.bodies.values():
        if b.crate != "agdb" or b.d.get("impl_self") != FS or b.d["argc"] < 1:
            continue
        if not b.local_ty(1).startswith("&" + FS) and not b.local_ty(1).startswith("&'"):
            continue
        if b.local_ty(1).startswith("&mut"):
            continue
        uses = [(i, t) for i, t in cfg.calls(b) if not (cfg.callee_decl(t) or "").startswith(("std::fmt::", "core::fmt::")) and any(
            (cfg.op_origin(b, a) or (0, []))[0] == 1 and (cfg.op_origin(b, a) or (0, []))[1][:1] == [".file"] for a in t["a"])]
        if not uses:
            continue
        locks = [(i, t) for i, t in cfg.calls(b) if (cfg.callee(t) or "") in ("std::sync::Mutex::try_lock", "std::sync::Mutex::lock")
                 and cfg.is_self_field(b, t["a"][0], "lock")]
        ok_edges = []
        for i, t in locks:
            der = cfg.derived_locals(b, [t["d"][0]])
            for j, blk in enumerate(b.blocks):
                tt = blk["term"]
                if tt["k"] != "switch":
                    continue
                pl = cfg.op_place(tt["d"])
                ds = cfg.defs(b).get(pl[0], []) if pl else []
                if ds and ds[0][0] == "assign" and ds[0][2]["k"] == "discr" and ds[0][2]["p"][0] in der:
                    names = dict((v, nme) for v, nme in ds[0][2].get("variants", []))
                    for v, tb in tt["ts"]:
                        if names.get(v) == "Ok":
                            ok_edges.append((j, tb))
        guard_drops = [i for i, blk in enumerate(b.blocks) if not blk.get("cleanup") and blk["term"]["k"] == "drop" and
                       ("MutexGuard" in b.local_ty(blk["term"]["p"][0]) or "TryLockResult" in b.local_ty(blk["term"]["p"][0])
                        or "LockResult" in b.local_ty(blk["term"]["p"][0]))]
        # a private helper (module-restricted, not a trait method) whose every caller is a `&mut self` method of
        # FileStorage passing its own receiver runs with exclusive access to the storage: no second reader can exist
        exclusive = False
        if str(b.d.get("vis", "")).startswith("Restricted") and not b.d.get("impl_trait"):
            ups = common.callers_of(fa, common.norm(b.npath), "agdb")
            exclusive = bool(ups) and all(
                ub.d.get("impl_self") == FS and ub.d["argc"] >= 1 and ub.local_ty(1).startswith("&mut") and
                tj["a"] and (cfg.op_origin(ub, tj["a"][0]) or (0, []))[0] == 1 and not (cfg.op_origin(ub, tj["a"][0]) or (0, [1]))[1]
                for ub, j, tj in ups)
        for i, t in uses:
            n_uses += 1
            if exclusive:
                ctx.ob("R23b", "%s:use-of-self.file@%s" % (common.norm(b.npath), (cfg.callee(t) or "?").split("::")[-1]), True,
                       "private helper called only from `&mut self` methods on their own receiver (exclusive access)", b.loc(i))
                continue
            under = bool(ok_edges) and cfg.find_path(b, [0], [i], removed_edges=ok_edges) is None
            early = under and any(cfg.find_path(b, [e[1]], [i], avoid=[]) is not None and
                                  cfg.find_path(b, [e[1]], [i], avoid=guard_drops) is None for e in ok_edges)
            ok = under and not early
            ctx.ob("R23b", "%s:use-of-self.file@%s" % (common.norm(b.npath), (cfg.callee(t) or "?").split("::")[-1]), ok,
                   "self.file is used only under the guard of self.lock (guard alive until after the use)" if ok else
                   ("the MutexGuard is dropped before self.file is used (e.g. `let _ = self.lock.try_lock()`)" if early else
                    "self.file (shared OS cursor) is used in a `&self` method without holding self.lock"), b.loc(i))
    ctx.floor("R23b", "uses of self.file in &self methods of FileStorage", n_uses, 1)
    b = ctx.anchor("R23b", "<%s as agdb::storage::StorageData>::read" % FS)
    if b:
        of = cfg.call_blocks(b, [FS + "::open_file"])
        ctx.ob("R23b", "read:fallback-handle", bool(of), "contended reads open a private handle (open_file)" if of else
               "FileStorage::read no longer falls back to a private file handle when the lock is taken", b.where)



def interior_mutability_rule(ctx):
    fa = ctx.facts
    # ---- R23a
    MODS = ("agdb::db", "agdb::graph", "agdb::collections", "agdb::storage", "agdb::graph_search", "agdb::transaction",
            "agdb::command")
    seen = [p for p in fa.adts if p.startswith(MODS) and "test_utilities" not in p]
    leaves = []
    for p in seen:
        for v in fa.adts[p]["variants"]:
            for f in v["fields"]:
                if f["freeze"]:
                    continue
                ty = f["ty"]
                if re.fullmatch(r"[A-Za-z_][A-Za-z0-9_]*", ty):
                    continue      # a bare type parameter: decided at the instantiating type
                local = [a for a in f["adts"] if a in fa.adts]
                local_nonfreeze = [a for a in local if any(not ff["freeze"] for vv in fa.adts[a]["variants"] for ff in vv["fields"])]
                if not local_nonfreeze:
                    leaves.append((p, f["name"], ty))
    for r in ROOTS:
        ctx.ob("R23a", "anchor:" + r, r in fa.adts, "type found" if r in fa.adts else "type `%s` not found" % r,
               key="%s|R23a|missing-anchor|%s" % (ctx.pid, r), nontrivial=False)
    for p, name, ty in sorted(set(leaves)):
        ok = (p, name) in ALLOWED_NONFREEZE and ty.replace("std::sync::", "").replace("poison::mutex::", "").replace(
            "mutex::", "") in ALLOWED_TYPES.get((p, name), ())
        ctx.ob("R23a", "%s.%s" % (p, name), ok,
               "allowed interior mutability: " + ALLOWED_NONFREEZE.get((p, name), "") if ok else
               ("field `%s.%s` is now `%s`: the mutex that only serialised the shared file cursor guards data, i.e. state "
                "that `&self` reads of the file-backed variant change (a cache, a remembered position): the variants can "
                "diverge and concurrent readers depend on each other" % (p, name, ty)) if (p, name) in ALLOWED_NONFREEZE else
               "field `%s.%s: %s` introduces interior mutability into a database data structure: `&self` queries on "
               "a shared database may now race" % (p, name, ty))
    ctx.ob("R23a", "inventory", {(p, n) for p, n, t in leaves} >= set(ALLOWED_NONFREEZE),
           "%d ADTs inspected; non-Freeze leaves: %s" % (len(seen), sorted({(p.split("::")[-1], n) for p, n, t in leaves})),
           nontrivial=False)
    ctx.floor("R23a", "database ADTs inspected for interior mutability", len(seen), 40)
    unsafe = [(p, h["unsafe_blocks"]) for p, h in fa.hir.items() if h.get("unsafe_blocks") and
              fa.body(p) is not None and fa.body(p).crate == "agdb" and "test_utilities" not in p]
    ctx.ob("R23a", "no-unsafe-in-agdb", not unsafe, "crate agdb has no user-written unsafe block" if not unsafe else
           "unsafe blocks in crate agdb: %s" % unsafe[:5])



def run(ctx):
    fa = ctx.facts
    interior_mutability_rule(ctx)
    cursor_rule(ctx)

    # ---- R23c
    n = 0
    for p, f in fa.fns.items():
        if f.get("impl_trait") == "agdb::query::Query" and f["name"] == "process":
            n += 1
            ok = len(f["inputs"]) >= 2 and f["inputs"][1].startswith("&") and not f["inputs"][1].startswith("&mut")
            ctx.ob("R23c", "Query::process:" + common.norm(f.get("impl_self", p)), ok,
                   "receives &DbImpl" if ok else "a read query receives `%s`" % f["inputs"][1], "%s:%d" % (f["file"], f["line"]))
    ctx.floor("R23c", "impl Query::process", n, 18)
    for name in ("exec", "transaction"):
        f = fa.fns.get("agdb::db::DbImpl::<Store>::" + name)
        ok = bool(f) and f["inputs"][0].startswith("&") and not f["inputs"][0].startswith("&mut")
        ctx.ob("R23c", "DbImpl::" + name, ok, "takes &self" if ok else "DbImpl::%s no longer takes &self" % name,
               "%s:%d" % (f["file"], f["line"]) if f else "")
    witness(ctx, "C23")
    return 0


def witness(ctx, which):
    """E3: compile-time witnesses (doc-tests of witness/) with nightly so that error codes are checked."""
    verif = os.path.dirname(os.path.dirname(os.path.abspath(__file__)))
    wdir = os.path.join(verif, "witness")
    repo = getattr(ctx, "repo", "/repo")
    env = dict(os.environ, CARGO_NET_OFFLINE="true", AGDB_WITNESS_REPO=repo,
               CARGO_TARGET_DIR=os.path.join(verif, ".cache", "target-witness"))
    try:
        import shutil
        shutil.copy(os.path.join(repo, "Cargo.lock"), os.path.join(wdir, "Cargo.lock"))
    except OSError:
        pass
    r = subprocess.run(["cargo", "+nightly", "test", "--doc", "--offline", "--", which], cwd=wdir, env=env,
                       stdout=subprocess.PIPE, stderr=subprocess.STDOUT, text=True)
    out = r.stdout
    passed = out.count("... ok")
    failed = out.count("... FAILED")
    ctx.ob("E3", "witness:" + which, r.returncode == 0 and passed > 0 and failed == 0,
           "%d compile-time witnesses hold (compile_fail with error code + compiling twins)" % passed if r.returncode == 0 else
           "compile-time witness failed:\n" + out[-1500:])
