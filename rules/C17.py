"""C17 — path search returns a minimum-cost path."""
from lib import cfg
from rules import common

CRATES = ("agdb",)
EXPLANATION = (
    "Static analysis of the table and guard parts of the A*-style path search: (R17a) PathHandler::process maps "
    "Continue(add) to cost 1 + !add and Finish|Stop to cost 0 with flag = add (HIR match table + MIR arithmetic); (R17b) "
    "GraphSearch::path runs the search only if from != to and both endpoints are valid nodes, otherwise returns an empty "
    "result; (R17c) sort_paths orders by cost descending (comparator ends in reverse) and process_last_path takes from "
    "the end (pop), i.e. the cheapest path is expanded first; zero-cost (stopped) elements are never pushed; the result "
    "lists only elements whose flag is set.")
DECIDED = ["R17a cost table of PathHandler::process (TABLE)", "R17b preconditions of GraphSearch::path (DOM)",
           "R17e extensions are pruned only by cost 0 or `visited` (slice of the pruning guards)",
           "R17d the result is written only when a path is taken from the queue, never during expansion (WHO)",
           "R15g evaluate_conditions folds every condition with the documented step (shared with C15)",
           "R17c cheapest-first expansion: descending sort + pop; stopped elements unusable; result filtered by flag"]
UNDECIDED = ["optimality of the returned path and the visited-set logic (algorithmic, needs execution or proof)"]

PH = "<agdb::db::db_search_handlers::PathHandler<'_, Store> as agdb::graph_search::path_search::PathSearchHandler>::process"
PS = "agdb::graph_search::path_search::PathSearch::"


def result_writer_rule(ctx, rule="R17d"):
    """A path becomes the result only when it is TAKEN from the cost-ordered queue (then no cheaper candidate is left), never
    at the moment an expansion first reaches the destination: the functions that write `PathSearch.result` are not
    reachable from the expansion functions (expand / expand_node / expand_edge), and some function on the
    process_last_path chain writes it.  (WHO rule on the field's writers over the call graph.)"""
    from lib.callgraph import CallGraph
    fa = ctx.facts
    cg = CallGraph(fa)
    writers = {}
    n = 0
    for b in fa.bodies.values():
        if b.crate != "agdb" or not (b.root or b.path).startswith(PS[:-2]):
            continue
        n += 1
        for bi, st in cfg.assigns(b):
            hit = False
            if ".result" in [e for e in st["l"][1:] if isinstance(e, str)] and b.local_ty(st["l"][0]).replace("&mut ", "").startswith(PS[:-2]):
                hit = True
            r = st["r"]
            if r["k"] == "ref" and r.get("mut") and ".result" in [e for e in r["p"][1:] if isinstance(e, str)] and \
                    b.local_ty(r["p"][0]).replace("&mut ", "").startswith(PS[:-2]):
                hit = True
            if hit:
                writers.setdefault(b.path, (b, b.loc(bi)))
    exp = [fa.body(PS + f) for f in ("expand", "expand_node", "expand_edge")]
    exp = [e for e in exp if e is not None]
    if not exp:
        ctx.ob(rule, "anchor:expand", False, "mechanism PathSearch::expand / expand_node / expand_edge not found",
               key="%s|%s|missing-anchor|expand" % (ctx.pid, rule))
        return
    reach = cg.closure(exp)
    ctor = {PS + "new"}
    bad = [(p, w) for p, w in writers.items() if p in reach and common.norm(p) not in ctor]
    chain = cg.closure([fa.body(PS + "process_last_path")]) if fa.body(PS + "process_last_path") else {}
    taken = [p for p in writers if p in chain and p not in reach]
    ok = not bad and bool(taken)
    ctx.ob(rule, "PathSearch.result:written-when-taken-from-queue", ok,
           "result is written by %s only (not reachable from the expansion functions)" % sorted(common.norm(p).split("::")[-1] for p in taken)
           if ok else
           ("`%s` (%s) writes PathSearch.result during expansion: the first path that reaches the destination becomes the result "
            "while a queued candidate of equal or lower total cost has not been taken yet" % (common.norm(bad[0][0]), bad[0][1][1]))
           if bad else "no function on the process_last_path chain writes PathSearch.result (idiom not recognised)",
           (bad[0][1][0].where if bad else ""))
    ctx.floor(rule, "PathSearch bodies scanned for writers of `result`", n, 8)


def pruning_guard_rule(ctx, rule="R17e"):
    """An extended path is discarded only because its last element costs 0 (the search stopped there) or because its end
    node has already been EXPANDED (`visited`, set when a node is taken from the cost-ordered queue).  Decided on the
    guards themselves: every branch of expand_edge / expand_node that can keep an extension out of the queue computes
    its condition (backward data slice) from the handler's cost, the current path and `self.visited` only - not from
    any other state of the search (e.g. a set of nodes that were merely *reached*: the first path to reach a node is
    not the cheapest when two prefixes tie)."""
    allowed = {".visited", ".handler", ".current_path", ".graph", ".storage", ".destination", None}
    n = 0
    for fn in ("expand_edge", "expand_node"):
        b = ctx.anchor(rule, PS + fn)
        if not b:
            continue
        targets = [i for i, t in cfg.calls(b) if cfg.callee(t) == "std::vec::Vec::push"] + cfg.call_blocks(b, [PS + "expand_node"])
        if not targets:
            ctx.ob(rule, fn + ":queues-extension", False, "%s no longer queues the extended path (idiom not recognised)" % fn, b.where)
            continue
        bad = []
        for i, blk in enumerate(b.blocks):
            t = blk["term"]
            if blk.get("cleanup") or t["k"] != "switch" or t.get("x"):
                continue
            if cfg.find_path(b, [i], targets) is None:
                continue
            if not any(cfg.find_path(b, [sx], targets) is None for sx in cfg.succs(b, i)):
                continue            # does not decide whether the extension is queued
            pl = cfg.op_place(t["d"])
            if not pl:
                continue
            n += 1
            # value slice of the condition: assignments and call results only (what the condition is computed FROM;
            # effects of `&mut self.x` calls elsewhere in the function are not inputs of the test)
            seen, work, reads = set(), [pl[0]], set()
            while work:
                l = work.pop()
                if l in seen:
                    continue
                seen.add(l)
                for d in cfg.defs(b).get(l, []):
                    ops = cfg.rvalue_operands(d[2]) if d[0] in ("assign", "partial") else (d[2]["a"] if d[0] == "call" else [])
                    places = [cfg.op_place(o) for o in ops]
                    if d[0] in ("assign", "partial") and d[2]["k"] in ("ref", "discr"):
                        places.append(d[2]["p"])
                    for q in places:
                        if not q:
                            continue
                        work.append(q[0])
                        r0, f0 = cfg.origin(b, q)
                        if r0 == 1:
                            reads.add(f0[0] if f0 else None)
                        elif r0 != q[0]:
                            work.append(r0)
            for f in sorted(x for x in reads if x not in allowed):
                bad.append((b.loc(i), f))
        ctx.ob(rule, fn + ":pruned-by-cost-or-visited-only", not bad,
               "the guards that keep an extension out of the queue read only the cost, the current path and `visited`" if not bad else
               "PathSearch::%s decides at %s whether an extended path is queued from `self%s`: paths are pruned by state other "
               "than `visited` (nodes already taken from the queue), so a cheaper path found later through an equal-cost "
               "prefix is dropped" % (fn, bad[0][0], bad[0][1]), b.where)
    ctx.floor(rule, "pruning guards of expand_edge / expand_node", n, 2)


def run(ctx):
    fa = ctx.facts
    b = ctx.anchor("R17a", PH)
    if b:
        # decision table by abstract interpretation: evaluate_conditions(..)? yields SearchControl::<V>(add); the handler
        # returns (cost, add) with cost = 1 for a selected element, 2 for a skipped one, 0 (= unusable) for Stop / Finish
        from lib import absint
        tbl = {}
        problems = []
        for vname in ("Continue", "Stop", "Finish"):
            for add in (True, False):
                def hook(it, env, t, _v=vname, _a=add):
                    if common.norm(cfg.callee(t) or "") == "agdb::db::DbImpl::evaluate_conditions":
                        return ("enum", "Ok", [("enum", _v, [("bool", _a)])])
                    return None
                try:
                    v = absint.Interp(b, call_hook=hook).run({1: ("ref", ("struct", {"db": ("sym", "db"), "conditions": ("sym", "conditions")})),
                                                               2: ("sym", "index"), 3: ("sym", "distance")})
                    if v[0] == "enum" and v[1] == "Ok" and v[2] and v[2][0][0] == "tuple":
                        tbl[(vname, add)] = tuple(x[1] for x in v[2][0][1])
                    else:
                        tbl[(vname, add)] = absint.show(v)
                except absint.Unknown as e:
                    tbl[(vname, add)] = None
                    problems.append(str(e))
        want = {("Continue", True): (1, True), ("Continue", False): (2, False), ("Stop", True): (0, True), ("Stop", False): (0, False),
                ("Finish", True): (0, True), ("Finish", False): (0, False)}
        okc = tbl == want
        okz = True
        ctx.ob("R17a", "PathHandler::process:cost-table", okc and okz,
               "Continue(add) -> (1 + !add, add); Finish|Stop -> (0, add)" if okc and okz else
               "path cost table changed: %s (expected %s)%s" % (tbl, want, ("; idiom not recognised: %s" % problems[0]) if problems else ""), b.where)
        # the flag returned is the matched `add`
        ev = [i for i, t in cfg.calls(b) if common.norm(cfg.callee(t) or "") == "agdb::db::DbImpl::evaluate_conditions"]
        ctx.ob("R17a", "PathHandler::process:conditions", bool(ev), "costs derive from evaluate_conditions" if ev else
               "path handler no longer evaluates the conditions", b.where)

    b = ctx.anchor("R17b", "agdb::graph_search::GraphSearch::path")
    if b:
        srch = [i for i, t in cfg.calls(b) if common.norm(cfg.callee(t) or "") in (PS + "search", PS + "new")]
        ne = [(i, t) for i, t in cfg.calls(b) if (cfg.callee_decl(t) or "").endswith(("PartialEq::ne", "PartialEq::eq"))]
        vn = [(i, t) for i, t in cfg.calls(b) if common.norm(cfg.callee(t) or "") == "agdb::graph_search::GraphSearch::is_valid_node"]
        guards = []
        for i, t in ne:
            is_ne = (cfg.callee_decl(t) or "").endswith("::ne")
            for sw in cfg.bool_switches(b, cfg.derived_locals(b, [t["d"][0]])):
                guards.append(("from != to", sw["true_edge"] if is_ne else sw["false_edge"]))
        vparams = set()
        for i, t in vn:
            o = cfg.op_origin(b, t["a"][1])
            if o:
                vparams.add(o[0])
            for sw in cfg.bool_switches(b, cfg.derived_locals(b, [t["d"][0]])):
                guards.append(("is_valid_node(%s)" % (b.local_name(o[0]) if o else "?"), sw["true_edge"]))
        names = {g for g, e in guards}
        cut_ok = {g for g, e in guards if srch and cfg.find_path(b, [0], srch, removed_edges=[e]) is None}
        ok = bool(srch) and len(cut_ok) >= 3 and vparams == {2, 3} and "from != to" in cut_ok
        ctx.ob("R17b", "GraphSearch::path:preconditions", ok,
               "search runs only if %s" % sorted(cut_ok) if ok else
               "path search can start although origin == destination or an endpoint is not a valid node "
               "(guards that cut the search: %s of %s)" % (sorted(cut_ok), sorted(names)), b.where)
        # otherwise an empty Ok result
        okb, errb, unk = cfg.ret_class_blocks(b)
        ctx.ob("R17b", "GraphSearch::path:empty-otherwise", bool(okb), "the else branch returns Ok(vec![])" if okb else
               "no constant Ok result branch found", b.where)

    b = ctx.anchor("R17c", PS + "sort_paths")
    if b:
        cl = fa.closures_of(b.path)
        ok = False
        detail = "sort_paths comparator closure not found"
        if cl:
            cb = cl[0]
            cmps = [(i, t) for i, t in cfg.calls(cb) if (cfg.callee_decl(t) or "").endswith("Ord::cmp")]
            revs = [i for i, t in cfg.calls(cb) if (cfg.callee(t) or "").endswith("Ordering::reverse")]
            rets = cfg.return_blocks(cb)
            # effective direction of every comparison: `left.cmp(right)` reversed on all its paths, or `right.cmp(left)`
            # reversed on none of them, is descending (closure parameters: _2 = left, _3 = right)
            dirs = []
            for i, t in cmps:
                def side(op, depth=0):
                    o = cfg.op_origin(cb, op)
                    if o and o[0] not in (2, 3) and depth < 4:
                        dc = cfg.def_call(cb, o[0])
                        if dc and dc[1]["a"]:
                            return side(dc[1]["a"][0], depth + 1)       # e.g. left.elements.len()
                    return o
                o0, o1 = side(t["a"][0]), side(t["a"][1])
                if not (o0 and o1) or {o0[0], o1[0]} != {2, 3}:
                    dirs.append("?")
                    continue
                asc = o0[0] == 2
                always = cfg.find_path(cb, [i], rets, avoid=revs, leave_start=True) is None and bool(revs)
                never = not revs or all(cfg.find_path(cb, [i], [r], leave_start=True) is None for r in revs)
                if not (always or never):
                    dirs.append("mixed")
                else:
                    dirs.append("desc" if asc == always else "asc")
            okr = bool(cmps) and all(d == "desc" for d in dirs)
            # first comparison is on the cost field
            first_cost = False
            if cmps:
                o = cfg.op_origin(cb, cmps[0][1]["a"][0])
                first_cost = bool(o and o[1] and o[1][-1] == ".cost")
            ok = okr and first_cost
            detail = ("comparator: cost (then length), every comparison effectively descending => cheapest last"
                      if ok else "sort_paths comparator no longer sorts by cost descending (directions of the comparisons: %s, "
                      "primary key cost: %s)" % (dirs, first_cost))
        ctx.ob("R17c", "sort_paths:descending-by-cost", ok, detail, b.where)
    b = ctx.anchor("R17c", PS + "process_last_path")
    if b:
        pop = [i for i, t in cfg.calls(b) if cfg.callee(t) == "std::vec::Vec::pop" and cfg.is_self_field(b, t["a"][0], "paths")]
        ctx.ob("R17c", "process_last_path:pop", bool(pop), "takes the last (cheapest) path" if pop else
               "process_last_path no longer pops the last path", b.where)
    b = ctx.anchor("R17c", PS + "search")
    if b:
        sp = cfg.call_blocks(b, [PS + "sort_paths"])
        pl = cfg.call_blocks(b, [PS + "process_last_path"])
        ok = bool(sp and pl) and cfg.find_path(b, [0], pl, avoid=sp) is None
        ctx.ob("R17c", "search:sort-before-pop", ok, "paths are sorted before every expansion step" if ok else
               "a path can be expanded without sorting first", b.where)
        flt = [i for i, t in cfg.calls(b) if (cfg.callee_decl(t) or "").endswith("Iterator::filter")]
        ctx.ob("R17c", "search:result-filter", bool(flt), "result lists only flagged elements (filter on .1)" if flt else
               "the result is no longer filtered by the per-element flag", b.where)
    result_writer_rule(ctx)
    pruning_guard_rule(ctx)
    # the cost of an element is decided by evaluate_conditions: its folding step is part of C17 (R15g, shared with C15)
    from rules import C15
    C15.conditions_fold_rule(ctx)
    for fn in ("expand_edge", "expand_node"):
        b = ctx.anchor("R17c", PS + fn)
        if b:
            pushes = [i for i, t in cfg.calls(b) if cfg.callee(t) == "std::vec::Vec::push"] + \
                cfg.call_blocks(b, [PS + "expand_node"])
            guards = []
            for bi, s in cfg.assigns(b):
                r = s["r"]
                if r["k"] == "bin" and r["op"] in ("Ne", "Eq") and len(s["l"]) == 1:
                    c = cfg.op_const(r["b"]) or cfg.op_const(r["a"])
                    if c and c.get("v") == 0:
                        for sw in cfg.bool_switches(b, cfg.derived_locals(b, [s["l"][0]])):
                            guards.append(sw["true_edge"] if r["op"] == "Ne" else sw["false_edge"])
            ok = bool(pushes) and bool(guards) and all(
                any(cfg.find_path(b, [0], [p], removed_edges=[g]) is None for g in guards) for p in pushes)
            ctx.ob("R17c", fn + ":zero-cost-unusable", ok,
                   "elements with cost 0 (search stopped there) are never added to a path" if ok else
                   "%s can extend a path through an element whose cost is 0 (stopped)" % fn, b.where)
    return 0
