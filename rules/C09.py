"""C09 — element properties behave as a per-element key-value map."""
from lib import cfg
from rules import common, C08

CRATES = ("agdb",)
EXPLANATION = (
    "Static analysis: (R08c) properties die with their element (shared with C08: ids are reused, so a slot freed with "
    "values alive would leak them to the next element); (R09a) in SelectValuesQuery::process the NotFound error for a "
    "missing key is reachable only on the explicit-ids branch (flag false), db.values is used iff no keys were requested "
    "and values_by_keys otherwise; (R09b) DbKeyValues::insert_or_replace replaces in place through DbVec::replace on the "
    "found position and pushes otherwise; the found branch never pushes.")
DECIDED = ["R08c properties are removed with the element",
           "R09a missing-key error only for explicitly named elements; keys select values_by_keys (DOM)",
           "R09b insert_or_replace: replace-in-place on found key, append otherwise (MUST)",
           "R09c remove_value removes exactly the found pair in place (no swap)",
           "R09d insert_or_replace reports None only after an insertion and Some(old) only after a replacement (DOM)",
           "R09e DbF64 equality / order / hashes agree (total_cmp and to_bits, no IEEE comparison of the raw floats)",
           "R09f stable hashes are computed only by the hash-map implementation (WHO; identity is equality)",
           "R09g no loop advances its index after removing the element at it",
           "R09h values_by_keys sorts by requested position on every path (MUST)"]
UNDECIDED = ["order and content of returned pairs over histories (needs execution)"]

KV = "agdb::db::db_key_value::DbKeyValues::"
DB = "agdb::db::DbImpl::"
SV = "<agdb::query::select_values_query::SelectValuesQuery as agdb::query::Query>::process"


def insert_or_replace_contract_rule(ctx, rule="R09d"):
    """DbKeyValues::insert_or_replace tells its caller what happened: `Ok(Some(old))` = an existing pair was replaced,
    `Ok(None)` = the pair was newly inserted.  DbImpl::insert_or_replace_key_value chooses the index update and the undo
    command by it.  So every `Ok(None)` return must lie behind an insertion (insert_value / push) and every `Ok(Some(_))`
    behind `replace`: a `None` without an insertion (e.g. "same value, nothing to do") makes the caller index the pair
    twice and record RemoveKeyValue instead of ReplaceKeyValue."""
    b = ctx.anchor(rule, KV + "insert_or_replace")
    if not b:
        return
    ins = [i for i, t in cfg.calls(b) if common.norm(cfg.callee(t) or "") in (KV + "insert_value",) or
           common.norm(cfg.callee(t) or "").endswith(("VecImpl::push", "DbVec::push"))]
    rep = [i for i, t in cfg.calls(b) if common.norm(cfg.callee(t) or "").endswith(("VecImpl::replace", "DbVec::replace"))]
    nones, somes = [], []
    for bi, st in cfg.assigns(b):
        r = st["r"]
        if st["l"] == [0] and r["k"] == "agg" and r.get("variant") == "Ok" and r["ops"]:
            pl = cfg.op_place(r["ops"][0])
            ds = [d for d in cfg.defs(b).get(pl[0], []) if d[0] == "assign" and d[2]["k"] == "agg"] if pl else []
            vs = {d[2].get("variant") for d in ds}
            if vs == {"None"}:
                nones.append(bi)
            elif vs == {"Some"}:
                somes.append(bi)
            else:
                nones.append(bi)
                somes.append(bi)
    ok_n = bool(nones and ins) and all(cfg.find_path(b, [0], [x], avoid=ins) is None for x in nones)
    ok_s = bool(somes and rep) and all(cfg.find_path(b, [0], [x], avoid=rep) is None for x in somes)
    ctx.ob(rule, "insert_or_replace:None=>inserted", ok_n,
           "every Ok(None) lies behind insert_value / push" if ok_n else
           "DbKeyValues::insert_or_replace can return Ok(None) without having inserted the pair (returns at %s): the "
           "caller treats None as `newly inserted` (second index entry, RemoveKeyValue undo)" % [b.loc(x) for x in nones
                                                                                              if cfg.find_path(b, [0], [x], avoid=ins) is not None], b.where)
    ctx.ob(rule, "insert_or_replace:Some=>replaced", ok_s,
           "every Ok(Some(old)) lies behind replace" if ok_s else
           "DbKeyValues::insert_or_replace can return Ok(Some(_)) without replacing the stored pair", b.where)


def float_key_rule(ctx, rule="R09e"):
    """Keys (and indexed values) are DbValues; a float key is a DbF64, which is `Eq + Ord + Hash`: the three must agree, or a
    key stored under NaN can never be found again and 0.0 / -0.0 share one slot in a map that hashes them differently.
    Equality and order both go through f64::total_cmp (never the IEEE `==` / `<` on the raw floats), the hashes through
    to_bits."""
    fa = ctx.facts
    F64 = "agdb::db::db_f64::DbF64"
    want = {
        "<%s as std::cmp::PartialEq>::eq" % F64: ("total_cmp", "cmp"),
        "<%s as std::cmp::Ord>::cmp" % F64: ("total_cmp",),
        "<%s as std::cmp::PartialOrd>::partial_cmp" % F64: ("total_cmp", "cmp"),
        "<%s as std::hash::Hash>::hash" % F64: ("to_bits",),
        "<%s as agdb::utilities::stable_hash::StableHash>::stable_hash" % F64: ("to_bits",),
    }
    for path, via in want.items():
        b = ctx.anchor(rule, path)
        if not b:
            continue
        names = {(cfg.callee(t) or "").split("::")[-1] for i, t in cfg.calls(b)}
        raw = [st["r"]["op"] for bi, st in cfg.assigns(b) if st["r"]["k"] == "bin" and st["r"]["op"] in ("Eq", "Ne", "Lt", "Le", "Gt", "Ge") and
               any(cfg.op_place(o) and b.local_ty(cfg.op_place(o)[0]) in ("f64", "&f64") for o in (st["r"]["a"], st["r"]["b"]))]
        ok = bool(names & set(via)) and not raw
        ctx.ob(rule, "DbF64::%s" % path.split("::")[-1], ok,
               "through %s, no IEEE comparison of the raw floats" % sorted(names & set(via)) if ok else
               "`%s` %s: DbF64's equality, order and hashes no longer agree (NaN keys cannot be found, 0.0 / -0.0 collide)" % (
                   path, ("compares the raw f64 with %s" % raw) if raw else ("does not go through %s" % (via,))), b.where)


def remove_while_scanning_rule(ctx, rule="R09g"):
    """A loop that removes the element at the scan position must not advance the position in the same iteration: the
    next element has moved INTO that position and would be skipped (removing two neighbouring keys in one query leaves
    the second).  Decided per loop: a call of an index-based `remove(.., pos)` on a vector type, and an increment of the
    same `pos` reachable from it without passing the loop head."""
    fa = ctx.facts
    n = 0
    bad = []
    for b in fa.bodies.values():
        if b.crate != "agdb" or "::tests::" in b.path or "test_utilities" in b.path:
            continue
        loops = None
        for i, t in cfg.calls(b):
            nm = cfg.callee(t) or ""
            if nm.split("::")[-1] != "remove" or not any(x in nm for x in ("Vec", "DbVecImpl", "VecImpl")) or len(t["a"]) < 2:
                continue
            idx = [cfg.op_place(a) for a in t["a"][1:]]
            idx = [q for q in idx if q and b.local_ty(q[0]) in ("u64", "usize")]
            if not idx:
                continue
            loops = loops if loops is not None else cfg.sccs(b)
            for c in loops:
                if i not in c:
                    continue
                n += 1
                head = min(c)
                root = cfg.origin(b, idx[0])[0]
                incs = []
                for bi, st in cfg.assigns(b):
                    if bi in c and st["l"] == [root] and st["r"]["k"] in ("use", "bin"):
                        src = st["r"]
                        if src["k"] == "use":
                            q = cfg.op_place(src["o"])
                            ds = [d for d in cfg.defs(b).get(q[0], []) if d[0] == "assign" and d[2]["k"] == "bin"] if q else []
                            src = ds[0][2] if ds else None
                        if src and src["k"] == "bin" and src["op"].startswith("Add") and cfg.op_place(src["a"]) and \
                                cfg.origin(b, cfg.op_place(src["a"]))[0] == root and (cfg.op_const(src["b"]) or {}).get("v") == 1:
                            incs.append(bi)
                succ = [x for x in cfg.succs(b, i) if x in c]
                if incs and succ and cfg.find_path(b, succ, incs, avoid=[head]) is not None:
                    bad.append((common.norm(b.npath), b.loc(i)))
    for owner, loc in sorted(set(bad)):
        ctx.ob(rule, "remove-then-advance:%s" % owner, False,
               "`%s` removes the element at the scan position and then advances the position in the same iteration: the "
               "element that moved into the gap is never examined (two neighbouring keys removed in one query: the second "
               "stays)" % owner, loc, key="%s|%s|remove-then-advance|%s" % (ctx.pid, rule, owner))
    ctx.ob(rule, "remove-then-advance:none", not bad,
           "%d loops remove by index; none advances the index after a removal" % n if not bad else
           "%d loop(s) skip the successor of a removed element" % len(set(bad)), nontrivial=False)


def requested_order_rule(ctx, rule="R09h"):
    """values_by_keys returns the pairs in the order of the REQUESTED keys: when the function pairs each stored pair with
    the position of its key in the request, the sort by that position lies on every path from the pairing to the
    result (it is not skipped "when nothing was filtered out": the stored order is not the requested order)."""
    fa = ctx.facts
    b = ctx.anchor(rule, "agdb::db::db_key_value::DbKeyValues::values_by_keys")
    if not b:
        return
    pairing = any((cfg.callee_decl(t) or "").endswith("Iterator::position") for cb in fa.closures_of(b.path) for i, t in cfg.calls(cb)) or \
        any((cfg.callee_decl(t) or "").endswith("Iterator::position") for i, t in cfg.calls(b))
    if not pairing:
        ctx.ob(rule, "values_by_keys:sorted-by-request", True,
               "no position pairing: the result is not assembled from (position, pair) tuples (rule not applicable)", b.where,
               nontrivial=False)
        return
    sorts = [i for i, t in cfg.calls(b) if (cfg.callee(t) or "").split("::")[-1].startswith("sort")]
    # where the pairing happens: a `position` call of the function itself (loop form) or the adaptor call that
    # receives the closure containing it (iterator form)
    first = [i for i, t in cfg.calls(b) if (cfg.callee_decl(t) or "").endswith("Iterator::position")]
    for i, t in cfg.calls(b):
        for cb in common.closure_bodies_passed(fa, b, t):
            if any((cfg.callee_decl(tt) or "").endswith("Iterator::position") for j, tt in cfg.calls(cb)):
                first.append(i)
    okb, errb, unk = cfg.ret_class_blocks(b)
    p = cfg.find_path(b, first, okb + unk, avoid=sorts, leave_start=True) if first and sorts else [0]
    ok = bool(sorts) and bool(first) and p is None
    ctx.ob(rule, "values_by_keys:sorted-by-request", ok,
           "the (position, pair) tuples are sorted by position on every path to the result" if ok else
           "values_by_keys can return the pairs without sorting them by the position of their key in the request (%s): "
           "selecting all keys of an element in another order returns map order" % (cfg.path_str(b, p) if p else "no sort call"),
           b.where)


def run(ctx):
    fa = ctx.facts
    C08.r08c(ctx)
    b = ctx.anchor("R09a", SV)
    if b:
        # the (ids, is_search) tuple: aggregates with a constant bool operand
        seeds = []
        consts = set()
        for bi, s in cfg.assigns(b):
            r = s["r"]
            if r["k"] == "agg" and r.get("what") == "tuple":
                for o in r["ops"]:
                    k = cfg.op_const(o)
                    if k and k.get("ty") == "bool":
                        seeds.append(s["l"][0])
                        consts.add(k.get("v"))
        errs = [i for i, t in cfg.calls(b) if (cfg.callee(t) or "").endswith("DbError::query")]
        ok = bool(seeds) and consts == {0, 1} and bool(errs)
        detail = "search flag tuple or NotFound construction not found (idiom not recognised)"
        if ok:
            # flag flows: tuple -> field .1 -> local; restrict to bool locals
            der = cfg.derived_locals(b, seeds)
            sws = cfg.bool_switches(b, {l: p for l, p in der.items() if b.local_ty(l) == "bool"})
            ok = any(cfg.find_path(b, [0], errs, removed_edges=[sw["false_edge"]]) is None for sw in sws)
            detail = ("the missing-key NotFound error is reachable only when the ids were given explicitly (flag false)"
                      if ok else "the missing-key error is no longer restricted to explicitly named elements")
        ctx.ob("R09a", "select_values:missing-key-error", ok, detail, b.where)
        allv = [i for i, t in cfg.calls(b) if common.norm(cfg.callee(t) or "") == DB + "values"]
        byk = [i for i, t in cfg.calls(b) if common.norm(cfg.callee(t) or "") == DB + "values_by_keys"]
        ie = [(i, t) for i, t in cfg.calls(b) if (cfg.callee(t) or "").endswith("::is_empty") and t["a"] and
              (cfg.op_origin(b, t["a"][0]) or (0, []))[1][:1] == [".keys"]]
        ok = bool(allv and byk and ie)
        if ok:
            ok = False
            for i, t in ie:
                for sw in cfg.bool_switches(b, cfg.derived_locals(b, [t["d"][0]])):
                    if (cfg.find_path(b, [0], allv, removed_edges=[sw["true_edge"]]) is None and
                            cfg.find_path(b, [0], byk, removed_edges=[sw["false_edge"]]) is None):
                        ok = True
        ctx.ob("R09a", "select_values:keys-select-by-keys", ok,
               "keys.is_empty() => db.values(id) else db.values_by_keys(id, keys)" if ok else
               "the choice between all values and values_by_keys no longer follows `keys.is_empty()`", b.where)

    # R09c: removing a key deletes exactly that pair and keeps the order of the others: the element removed is the one
    # found by key (index from `find`), and nothing is swapped or re-ordered
    b = ctx.anchor("R09c", KV + "remove_value")
    if b:
        fnd = [(i, t) for i, t in cfg.calls(b) if (cfg.callee_decl(t) or "").endswith(("Iterator::find", "Iterator::position",
                                                                                     "Iterator::find_map"))]
        rem = [(i, t) for i, t in cfg.calls(b) if common.norm(cfg.callee(t) or "").endswith("::remove") and "collections::vec::" in (cfg.callee(t) or "")]
        swaps = [i for i, t in cfg.calls(b) if common.norm(cfg.callee(t) or "").endswith(("::swap", "::swap_remove"))]
        ok = bool(fnd and rem) and not swaps
        if ok:
            der = cfg.derived_locals(b, [fnd[0][1]["d"][0]])
            o = cfg.op_origin(b, rem[0][1]["a"][2]) if len(rem[0][1]["a"]) > 2 else None
            ok = o is not None and o[0] in der and cfg.find_path(b, [0], [rem[0][0]], avoid=[fnd[0][0]]) is None
        ctx.ob("R09c", "DbKeyValues::remove_value", ok,
               "removes the pair at the position found by key; no swap / re-ordering" if ok else
               "remove_value no longer removes exactly the found pair in place (swap calls: %d): the order of the remaining "
               "properties changes" % len(swaps), b.where)

    b = ctx.anchor("R09b", KV + "insert_or_replace")
    if b:
        rep = [i for i, t in cfg.calls(b) if common.norm(cfg.callee(t) or "").endswith("::replace") and "vec::" in (cfg.callee(t) or "")]
        psh = [i for i, t in cfg.calls(b) if common.norm(cfg.callee(t) or "").endswith("::push") and "collections::vec::" in (cfg.callee(t) or "")]
        ins = [i for i, t in cfg.calls(b) if common.norm(cfg.callee(t) or "") == KV + "insert_value"]
        fnd = [i for i, t in cfg.calls(b) if (cfg.callee_decl(t) or "").endswith("Iterator::find")]
        ok = bool(rep and psh and fnd)
        if ok:
            ok = (cfg.find_path(b, rep, psh, leave_start=True) is None and
                  cfg.find_path(b, [0], rep, avoid=fnd) is None)
            # the find predicate compares keys
            cmp_ok = False
            for cb in common.closure_bodies_passed(fa, b, b.blocks[fnd[0]]["term"]):
                for i, t in cfg.calls(cb):
                    if (cfg.callee_decl(t) or "").endswith("PartialEq::eq") and "DbValue" in (cfg.callee_full(t) or ""):
                        cmp_ok = True
            ok = ok and cmp_ok
        ctx.ob("R09b", "DbKeyValues::insert_or_replace", ok,
               "found key => DbVec::replace at its position (no push); otherwise push; new element => insert_value" if ok else
               "insert_or_replace no longer replaces an existing key in place / appends a new key", b.where)
    insert_or_replace_contract_rule(ctx)
    float_key_rule(ctx)
    # a hash places an entry, equality identifies it (R09f, shared with C11)
    from rules import maps_common
    maps_common.hash_identity_rule(ctx)
    remove_while_scanning_rule(ctx)
    requested_order_rule(ctx)
    return 0
