"""Rules shared by the properties that rest on the open-addressing tables (MultiMapImpl): aliases (C10), indexes (C11),
key lookups after maintenance (C05)."""
from lib import cfg
from rules import common

MM = "agdb::collections::multi_map::MultiMapImpl::"
SET_STATE = "agdb::collections::map::MapData::set_state"
# who writes which slot state (confirmed by reading multi_map.rs): a slot becomes Empty again only while the whole table
# is rebuilt by rehash_values (which re-places every Valid entry); everywhere else a removed entry leaves a tombstone,
# because an Empty slot ends every probe sequence (value / values / remove_* / free_index break on it)
STATE_WRITERS = {
    (MM + "do_insert", "Valid"): "a new entry",
    (MM + "drop_value", "Deleted"): "a removed entry leaves a tombstone",
    (MM + "rehash_deleted", "Empty"): "tombstones are dropped while rehash_values rebuilds the table",
}
REHASH_CHAIN = [MM + "rehash_deleted", MM + "rehash_value", MM + "rehash_values"]


def slot_state_rule(ctx, rule="R19t"):
    fa = ctx.facts
    seen = set()
    for b in fa.bodies.values():
        if b.crate != "agdb":
            continue
        for i, t in cfg.calls(b):
            if (cfg.callee_decl(t) or cfg.callee(t) or "") != SET_STATE and cfg.callee(t) != SET_STATE:
                continue
            st = None
            o = cfg.op_origin(b, t["a"][3]) if len(t["a"]) > 3 else None
            if o:
                for d in cfg.defs(b).get(o[0], []):
                    if d[0] == "assign" and d[2]["k"] == "agg" and (d[2].get("adt") or "").endswith("MapValueState"):
                        st = d[2].get("variant")
            k = (common.norm(b.npath), st or "?")
            seen.add(k)
            ok = k in STATE_WRITERS
            ctx.ob(rule, "%s:set_state(%s)" % (k[0][len("agdb::collections::"):] if k[0].startswith("agdb::collections::") else k[0], k[1]), ok,
                   STATE_WRITERS.get(k, "") if ok else
                   "`%s` writes slot state %s in place; only %s may: resetting a tombstone to Empty (or writing a state "
                   "computed at run time) outside the full rehash cuts the probe sequences that pass through the slot and "
                   "makes the entries behind it unreachable by key" % (
                       k[0], k[1], sorted("%s->%s" % (f.split("::")[-1], s) for f, s in STATE_WRITERS)), b.loc(i))
    for k in STATE_WRITERS:
        ctx.ob(rule, "writer-present:%s->%s" % (k[0].split("::")[-1], k[1]), k in seen,
               "present" if k in seen else "the frozen slot-state writer `%s` (%s) was not found (anchor missing)" % k, "")
    # rehash_deleted is reachable only through the full rebuild
    for callee_, caller in zip(REHASH_CHAIN, REHASH_CHAIN[1:]):
        ups = {common.norm(ub.root or ub.npath) for ub, j, tj in common.callers_of(fa, callee_, "agdb")}
        ok = ups == {caller}
        ctx.ob(rule, "only-caller:%s" % callee_.split("::")[-1], ok,
               "called only by %s" % caller.split("::")[-1] if ok else
               "`%s` is called by %s, expected only %s (tombstones may be dropped only during the full rebuild)" % (
                   callee_, sorted(ups), caller), "")


def resize_rehash_rule(ctx, rule="R19u"):
    """A capacity change re-places EVERY entry: whichever function calls MapData::resize on the table (grow, shrink) also
    runs the full rebuild (rehash_values) on every success path.  `hash % capacity` changes with the capacity, and entries
    stored wrapped around the old end keep a valid probe path only if everything is re-placed; a partial "fold the upper
    half" leaves keys unreachable - in one of the two maps of a bidirectional map, which then disagree."""
    fa = ctx.facts
    n = 0
    for b in fa.bodies.values():
        if b.crate != "agdb" or not common.norm(b.npath).startswith(MM):
            continue
        rs = [i for i, t in cfg.calls(b) if (cfg.callee_decl(t) or cfg.callee(t) or "").endswith("MapData::resize")]
        if not rs:
            continue
        n += 1
        from lib import inline
        v = inline.inlined(fa, b)
        rs = [i for i, t in cfg.calls(v) if (cfg.callee_decl(t) or cfg.callee(t) or "").endswith("MapData::resize")]
        rh = common.call_blocks_reaching(fa, v, [MM + "rehash_values"])
        okb, errb, unk = cfg.ret_class_blocks(v)
        targets = (okb + unk) or cfg.return_blocks(v)
        p = cfg.find_path(v, [0], targets, avoid=rh) if rh else [0]
        ctx.ob(rule, "%s:full-rebuild" % common.norm(b.npath).split("::")[-1], bool(rh) and p is None,
               "every success path that changes the capacity runs rehash_values" if rh and p is None else
               "`%s` can change the table's capacity without the full rebuild (rehash_values) on the path %s: entries whose "
               "probe path depended on the old capacity become unreachable" % (common.norm(b.npath), cfg.path_str(v, p) if p else "-"),
               b.where)
    ctx.floor(rule, "functions that resize a hash table", n, 2)


def hash_identity_rule(ctx, rule="R09f"):
    """A stable hash only PLACES an entry in a hash table; what an entry, an index or a key *is* is decided by equality.
    WHO rule: StableHash::stable_hash is called only by the StableHash implementations themselves and by the hash-map
    implementation (agdb::collections::multi_map / map).  The hash of a DbValue ignores its variant (I64(1) / U64(1),
    String / Bytes collide by construction), so any look-up that compares hashes instead of keys merges distinct keys."""
    fa = ctx.facts
    n = 0
    bad = []
    for b in fa.bodies.values():
        if b.crate != "agdb" or "::tests::" in b.path or "test_utilities" in b.path:
            continue
        for i, t in cfg.calls(b):
            if not (cfg.callee_decl(t) or "").endswith("StableHash::stable_hash"):
                continue
            n += 1
            owner = common.norm(b.root or b.npath)
            if (b.d.get("impl_trait") or "").endswith("StableHash") or "as agdb::utilities::stable_hash::StableHash>" in owner or \
                    owner.startswith(("agdb::collections::multi_map::", "agdb::collections::map::", "agdb::utilities::stable_hash::")):
                continue
            bad.append((owner, b.loc(i)))
    for owner, loc in sorted(set(bad)):
        ctx.ob(rule, "stable_hash-used-by:%s" % owner, False,
               "`%s` computes a stable hash outside the hash-map implementation: a hash is not an identity (the hash of a "
               "DbValue ignores its variant: I64(1) / U64(1), \"x\" / b\"x\" collide), look-ups must compare keys" % owner, loc,
               key="%s|%s|stable_hash-used-by|%s" % (ctx.pid, rule, owner))
    ctx.ob(rule, "stable_hash:only-places-entries", not bad,
           "%d calls of stable_hash, all inside StableHash impls or the hash-map implementation" % n if not bad else
           "%d function(s) outside the hash-map implementation use stable hashes" % len(set(bad)))
    ctx.floor(rule, "calls of StableHash::stable_hash", n, 10)
