"""C01 — WAL recovery restores the last committed content at every crash point.
Structural rules over the undo-log protocol of FileStorage / WriteAheadLog / Storage."""
from lib import cfg
from rules import common

CRATES = ("agdb",)
EXPLANATION = (
    "Static analysis (MIR CFG rules over /repo's current source) of the undo-log protocol: log-before-write "
    "dominance with the log's error edge as a cut, closed set of file writers, newest-first replay idiom, "
    "record-intent agreement between the WAL writers and the replaying reader, log cleared only at the outermost "
    "commit / after replay, recovery on open and on drop, torn-tail repair, begin/commit pairing on success paths. "
    "These are necessary conditions of C01; byte-exact restoration (position arithmetic) is not decided.")
DECIDED = ["R01a log-before-write (DOM, cut on the Ok edge of the log insert)",
           "R01b closed set of functions that mutate files in crate agdb (WHO)",
           "R01c undo records are replayed newest-first",
           "R01d WAL record intent: truncate records carry the pre-operation length, data records are non-empty",
           "R01e log cleared only by flush/apply_wal; flush only when the nesting counter reaches zero",
           "R01f recovery runs on open and on drop; torn WAL tail is truncated",
           "R01g every success path from Storage::transaction() reaches commit",
           "R01d (cont.) a write that extends the file logs the pre-operation length",
           "R01h WriteAheadLog::insert appends a record on every success path (MUST)"]
UNDECIDED = ["byte-exact restoration for arbitrary operation sequences (arithmetic of positions and lengths)",
             "OS behaviour between write and durability (the code deliberately does not fsync)"]

FS = "agdb::storage::file_storage::FileStorage"
FS_SD = "<agdb::storage::file_storage::FileStorage as agdb::storage::StorageData>::"
WAL = "agdb::storage::write_ahead_log::WriteAheadLog"

FILE_MUTATORS = ("std::io::Write::write_all", "std::io::Write::write", "std::fs::File::set_len")

# R01b frozen table: who may call a file-mutating API inside crate agdb (one line of reason each)
ALLOWED_WRITERS = {
    FS_SD + "new": "opens/creates the data file",
    FS_SD + "write": "the logged data-file write",
    FS_SD + "resize": "the logged data-file resize",
    FS + "::apply_wal_record": "recovery: applies one undo record",
    FS + "::apply_wal": "recovery: replays the undo log (when the per-record step is written inline)",
    FS_SD + "rename": "renames data file, recreates log, removes old log",
    FS_SD + "backup": "copies the data file to the backup name",
    WAL + "::new": "opens/creates the log file",
    WAL + "::insert": "appends an undo record",
    WAL + "::clear": "purges the log",
    WAL + "::repair": "truncates a torn tail",
    "<agdb::storage::memory_storage::MemoryStorage as agdb::storage::StorageData>::backup": "dumps memory to the backup file",
    "<agdb::storage::memory_storage::MemoryStorage as agdb::storage::StorageData>::rename": "in-memory rename (no file)",
}


def is_file_writer_call(n, t):
    decl = cfg.callee_decl(t) or ""
    full = cfg.callee_full(t) or ""
    if decl in ("std::io::Write::write_all", "std::io::Write::write", "std::io::Write::write_fmt",
                "std::io::Write::write_vectored"):
        # only writes whose receiver type is (a reference to) a File or a generic writer
        self_ty = full.split(" as std::io::Write>")[0].lstrip("<")
        return "std::fs::File" in self_ty or len(self_ty) <= 2
    if decl in ("std::fs::File::set_len", "std::fs::File::create", "std::fs::File::create_new",
                "std::fs::write", "std::fs::copy", "std::fs::rename", "std::fs::remove_file",
                "std::fs::remove_dir_all", "std::fs::remove_dir", "std::fs::create_dir_all", "std::fs::create_dir",
                "std::fs::hard_link"):
        return True
    return False


def recovery_replay_rule(ctx):
    """R01c (shared with C03): the undo log is replayed newest-first, each record applied at its place in that order."""
    fa = ctx.facts
    # ---------------- R01c
    b = ctx.anchor("R01c", FS + "::apply_wal")
    if b:
        from lib import inline
        b = inline.force_inline(fa, b, [FS + "::apply_wal_record"])      # the per-record step, helper or inline
        rec_calls = [(i, t) for i, t in cfg.calls(b) if cfg.callee(t) == WAL + "::records"]
        ok = False
        detail = "WriteAheadLog::records not called"
        where = b.where
        if rec_calls:
            i0, t0 = rec_calls[0]
            der = cfg.derived_locals(b, [t0["d"][0]], extra_through=(), through=lambda n: cfg.is_transparent(n) or (
                n or "").endswith(("::into_iter", "::rev", "::iter", "::iter_mut", "::drain")))
            idioms = []
            # the records are consumed by the step that writes the data file, inside the replay loop
            loops_ = cfg.sccs(b)
            feed = [x for x in cfg.call_blocks(b, ["std::fs::File::set_len", "std::io::Write::write_all"])
                    if any(x in c for c in loops_)]
            for i, t in cfg.calls(b):
                n = cfg.callee(t) or ""
                a0 = cfg.op_place(t["a"][0]) if t["a"] else None
                if not a0 or a0[0] not in der:
                    continue
                if n.endswith("Iterator>::next") and "std::iter::Rev<" in (cfg.callee_full(t) or ""):
                    idioms.append("Rev<..>::next")
                if n.endswith("::next_back"):
                    idioms.append("next_back")
                if n in ("std::vec::Vec::pop",):
                    idioms.append("Vec::pop")
                if n.endswith("::reverse"):
                    idioms.append("slice::reverse")
                if n.endswith("Iterator>::next") and "Rev<" not in (cfg.callee_full(t) or ""):
                    idioms.append("FORWARD:" + (cfg.callee_full(t) or n))
            rb = fa.body(WAL + "::records")
            if rb and cfg.call_blocks(rb, ["reverse"], suffix=True):
                idioms.append("records() reverses")
            good = [x for x in idioms if not x.startswith("FORWARD")]
            fwd = [x for x in idioms if x.startswith("FORWARD")]
            # every mutation of the data file made by the replay happens inside the loop, at the record's place in the
            # newest-first order (a truncation deferred until after the loop cuts off content that a later-logged,
            # earlier-replayed record has just restored)
            allmut = cfg.call_blocks(b, ["std::fs::File::set_len", "std::io::Write::write_all"])
            outside = [b.loc(x) for x in allmut if x not in feed]
            ok = bool(good) and not fwd and bool(feed) and not outside
            if good and not fwd and feed and outside:
                idioms.append("file mutation outside the replay loop at %s" % outside)
            detail = ("undo records reach the step that writes the data file through a reversing step: %s" % good) if ok else (
                "undo records are replayed oldest-first or through an unrecognised idiom (found %s); accepted: "
                "Iterator::rev, slice::reverse, Vec::pop, next_back" % (idioms or "none"))
            where = b.loc(i0)
        ctx.ob("R01c", "apply_wal:newest-first", ok, detail, where)


def wal_insert_rule(ctx, rule="R01h"):
    """WriteAheadLog::insert appends a record for EVERY call: each of its file writes lies on every path to a success
    return (no "already logged, skip" exit), and together they are computed from both the position and the bytes.
    Recovery replays records newest-first, and a position can be logged twice in one transaction with different meaning
    (the cut-off tail of a shrink, then the pre-append length): de-duplicating by position loses the second."""
    fa = ctx.facts
    b = ctx.anchor(rule, WAL + "::insert")
    if not b:
        return
    ws = [(i, t) for i, t in cfg.calls(b) if (cfg.callee_decl(t) or "").startswith("std::io::Write::write")]
    okb, errb, unk = cfg.ret_class_blocks(b)
    skipped = [b.loc(i) for i, t in ws if cfg.find_path(b, [0], okb + unk, avoid=[i]) is not None]
    reads = set()
    for i, t in ws:
        for a in t["a"][1:]:
            pl = cfg.op_place(a)
            if pl:
                reads |= {p_ for p_, f in cfg.backward_slice(b, [pl[0]])[2]}
    ok = bool(ws) and not skipped and {2, 3} <= reads
    ctx.ob(rule, "WriteAheadLog::insert:appends-unconditionally", ok,
           "%d file writes, each on every success path; the record is built from the position and the bytes" % len(ws) if ok else
           "WriteAheadLog::insert can return Ok without %s: an undo record is dropped (a position logged twice in one "
           "transaction - tail of a shrink, then the length before an append - is restored only half), the file keeps stray "
           "bytes after recovery and cannot be opened" % (
               "the write at %s" % skipped[0] if skipped else "writing both the position and the bytes (parameters read: %s)" % sorted(reads)),
           b.where)
    ctx.floor(rule, "file writes of WriteAheadLog::insert", len(ws), 1)


def run(ctx):
    fa = ctx.facts
    wal_insert_rule(ctx)
    # ---------------- R01a
    n_inst = 0
    for b in [x for x in fa.bodies.values() if x.d.get("impl_self") == FS and x.crate == "agdb"]:
        if b.d["argc"] < 1 or not b.local_ty(1).startswith("&mut " + FS):
            continue
        if b.npath.endswith("::rename") or b.d.get("impl_trait", "").endswith("Drop"):
            continue  # rename reopens files (R05e); drop only replays (R01f)
        muts = [(i, t) for i, t in cfg.calls(b) if (cfg.callee_decl(t) in FILE_MUTATORS)
                and t["a"] and cfg.is_self_field(b, t["a"][0], "file")]
        if not muts:
            continue
        ins = [(i, t) for i, t in cfg.calls(b) if cfg.callee(t) == WAL + "::insert"
               and cfg.is_self_field(b, t["a"][0], "wal")]
        cut = set()
        for i, t in ins:
            for te in cfg.try_edges(b, cfg.derived_locals(b, [t["d"][0]])):
                if te["ok_edge"]:
                    cut.add(te["ok_edge"])
        for i, t in muts:
            n_inst += 1
            p = cfg.find_path(b, [0], [i], removed_edges=cut, avoid=[x for x, _ in ins if not cut] if not cut else ())
            ok = bool(ins) and bool(cut) and p is None
            ctx.ob("R01a", "%s:%s" % (b.npath, cfg.callee_decl(t)), ok,
                   "data-file mutation is reachable only through the Ok edge of `self.wal.insert(..)?`" if ok else
                   "data-file mutation `%s` reachable without a successful WriteAheadLog::insert: %s" % (
                       cfg.callee_decl(t), cfg.path_str(b, p) if p else "no `?`-checked insert in this function"),
                   b.loc(i))
    ctx.floor("R01a", "logged file mutations in &mut self methods of FileStorage", n_inst, 2)

    # ---------------- R01b
    writers = {}
    for b in fa.bodies.values():
        if b.crate != "agdb" or "test_utilities" in b.path:
            continue
        for i, t in cfg.calls(b, is_file_writer_call):
            owner = b.root or b.path
            writers.setdefault(common.norm(owner), []).append((b, i, cfg.callee_decl(t)))
        # OpenOptions::open with a write-ish option in the same function
        opens = cfg.call_blocks(b, ["std::fs::OpenOptions::open"])
        if opens and cfg.call_blocks(b, ["std::fs::OpenOptions::write", "std::fs::OpenOptions::append",
                                         "std::fs::OpenOptions::create", "std::fs::OpenOptions::truncate",
                                         "std::fs::OpenOptions::create_new"]):
            writers.setdefault(common.norm(b.root or b.path), []).append((b, opens[0], "std::fs::OpenOptions::open(write)"))
    allowed = {common.norm(k) for k in ALLOWED_WRITERS}
    for w, sites in sorted(writers.items()):
        b, i, api = sites[0]
        ctx.ob("R01b", w, w in allowed,
               "allowed writer (%s)" % ALLOWED_WRITERS.get(w, "") if w in allowed else
               "function `%s` mutates a file through `%s` but is not one of the storage-layer writers" % (w, api),
               b.loc(i))
    ctx.floor("R01b", "file-writing functions in crate agdb", len(writers), 9)

    recovery_replay_rule(ctx)

    # ---------------- R01d
    n_sites = 0
    for name in ("write", "resize"):
        b = ctx.anchor("R01d", FS_SD + name)
        if not b:
            continue
        for i, t in cfg.calls(b):
            if cfg.callee(t) != WAL + "::insert":
                continue
            n_sites += 1
            pos_o = cfg.op_origin(b, t["a"][1])
            val_o = cfg.op_origin(b, t["a"][2])
            val_ty = b.local_ty(val_o[0]) if val_o else ""
            if "[u8; 0]" in val_ty:
                # truncate intent: pos must be the pre-operation length
                dc = cfg.def_call(b, pos_o[0]) if pos_o else None
                from_len = bool(dc and (cfg.callee(dc[1]) or "").endswith("StorageData>::len")) or (
                    pos_o is not None and pos_o[0] == 1 and pos_o[1] == [".len"])
                ctx.ob("R01d", "%s:truncate-record" % b.npath, from_len,
                       "truncate record carries the pre-operation length" if from_len else
                       "truncate-intent WAL record (empty value) logs `%s`, not the current length; replay would "
                       "set_len to the wrong size" % (b.local_name(pos_o[0]) if pos_o else "?"), b.loc(i))
            else:
                # data intent: the call must be guarded so the logged buffer is never empty *inside* the file:
                # accepted: (a) dominated by the non-empty edge of `<[u8]>::is_empty` on the written bytes,
                #           (b) dominated by the true edge of a strict `<` comparison (shrinking branch)
                guards = []
                for j, tj in cfg.calls(b):
                    nj = cfg.callee(tj) or ""
                    if nj.endswith("::is_empty") and tj["a"]:
                        o = cfg.op_origin(b, tj["a"][0])
                        if o and 1 <= o[0] <= b.d["argc"]:
                            for sw in cfg.bool_switches(b, cfg.derived_locals(b, [tj["d"][0]])):
                                guards.append(("non-empty input", sw["false_edge"]))
                for bi, s in cfg.assigns(b):
                    r = s["r"]
                    if r["k"] == "bin" and r["op"] in ("Lt", "Gt") and len(s["l"]) == 1:
                        for sw in cfg.bool_switches(b, cfg.derived_locals(b, [s["l"][0]])):
                            guards.append(("strict length comparison", sw["true_edge"]))
                okg = None
                for gname, edge in guards:
                    if cfg.find_path(b, [0], [i], removed_edges=[edge]) is None:
                        okg = gname
                        break
                ctx.ob("R01d", "%s:data-record" % b.npath, okg is not None,
                       ("data record guarded by: %s" % okg) if okg else
                       "a data-intent WAL record can be logged with an empty buffer (zero-length write inside the "
                       "file); replay interprets an empty record as `truncate to pos`", b.loc(i))
    ctx.floor("R01d", "WriteAheadLog::insert call sites in FileStorage::{write,resize}", n_sites, 3)
    # a write may extend the file (pos < len < end): besides the overwritten bytes the pre-operation length must be
    # logged, i.e. `write` needs a truncate-intent record of its own (the append case pos == len is covered by the
    # empty data record, which replay reads as `truncate to pos`)
    wb = fa.body(FS_SD + "write")
    if wb:
        trunc = []
        for i, t in cfg.calls(wb):
            if cfg.callee(t) == WAL + "::insert":
                vo = cfg.op_origin(wb, t["a"][2])
                po = cfg.op_origin(wb, t["a"][1])
                dc = cfg.def_call(wb, po[0]) if po else None
                if vo and "[u8; 0]" in wb.local_ty(vo[0]) and dc and (cfg.callee(dc[1]) or "").endswith("StorageData>::len"):
                    trunc.append(i)
        ctx.ob("R01d", "write:growth-logged", bool(trunc),
               "a write that extends the file logs the current length (truncate-intent record)" if trunc else
               "FileStorage::write never logs the pre-operation length: a write that starts inside the file and extends "
               "it (pos < len < end) is undone only partially, the file stays longer after recovery", wb.where)
    rb = ctx.anchor("R01d", FS + "::apply_wal")
    if rb:
        from lib import inline
        rb = inline.force_inline(fa, rb, [FS + "::apply_wal_record"])
        # reader side: the is_empty() test of the record value selects set_len vs write
        ie = [(i, t) for i, t in cfg.calls(rb) if (cfg.callee(t) or "").endswith("::is_empty")]
        sl = cfg.call_blocks(rb, ["std::fs::File::set_len"])
        wr = cfg.call_blocks(rb, ["std::io::Write::write_all"])
        ok = False
        if ie and sl and wr:
            sws = cfg.bool_switches(rb, cfg.derived_locals(rb, [ie[0][1]["d"][0]]))
            if sws:
                ok = (cfg.find_path(rb, [0], sl, removed_edges=[sws[0]["true_edge"]]) is None and
                      cfg.find_path(rb, [0], wr, removed_edges=[sws[0]["false_edge"]]) is None)
        ctx.ob("R01d", "apply_wal_record:reader", ok,
               "reader: empty value => set_len(pos), otherwise seek+write_all" if ok else
               "reader no longer decodes `value.is_empty()` as truncate / non-empty as write", rb.where)

    # ---------------- R01e
    clear_callers = set()
    for b in fa.bodies.values():
        if b.crate == "agdb" and cfg.call_blocks(b, [WAL + "::clear"]):
            clear_callers.add(common.norm(b.root or b.path))
    allowed_clear = {common.norm(FS_SD + "flush"), common.norm(FS + "::apply_wal")}
    for c in sorted(clear_callers):
        ctx.ob("R01e", "clear-caller:" + c, c in allowed_clear,
               "log purged by the commit point / after replay" if c in allowed_clear else
               "`%s` purges the write-ahead log outside flush/apply_wal" % c)
    ctx.floor("R01e", "callers of WriteAheadLog::clear", len(clear_callers), 2)
    b = ctx.anchor("R01e", "agdb::storage::Storage::end_transaction")
    if b:
        fl = [i for i, t in cfg.calls(b) if (cfg.callee_decl(t) or "") == "agdb::storage::StorageData::flush"]
        edges = []
        for bi, s in cfg.assigns(b):
            r = s["r"]
            if r["k"] == "bin" and r["op"] == "Eq" and len(s["l"]) == 1:
                oa, ob_ = cfg.op_origin(b, r["a"]), cfg.op_const(r["b"])
                if oa and oa[0] == 1 and oa[1] == [".transactions"] and ob_ and ob_.get("v") == 0:
                    for sw in cfg.bool_switches(b, cfg.derived_locals(b, [s["l"][0]])):
                        edges.append(sw["true_edge"])
        ok = bool(fl) and bool(edges) and cfg.find_path(b, [0], fl, removed_edges=edges) is None
        ctx.ob("R01e", "end_transaction:flush-only-at-zero", ok,
               "StorageData::flush reachable only through `transactions == 0`" if ok else
               "StorageData::flush (which purges the log) is reachable while the nesting counter is non-zero "
               "or the `== 0` guard is missing", b.where)
        # the decrement precedes the test: some assignment to self.transactions of a Sub result
        dec = [bi for bi, s in cfg.assigns(b) if cfg.origin(b, s["l"]) == (1, [".transactions"])]
        ctx.ob("R01e", "end_transaction:decrement", bool(dec) and all(
            cfg.find_path(b, [0], fl, avoid=dec) is None for _ in [0]),
            "counter decremented on every path to flush", b.where)

    # ---------------- R01f
    b = ctx.anchor("R01f", FS_SD + "new")
    if b:
        ok_blocks, err_blocks, unk = cfg.ret_class_blocks(b)
        for need in (WAL + "::new", FS + "::apply_wal"):
            cb = cfg.call_blocks(b, [need])
            cut = set()
            for i in cb:
                for te in cfg.try_edges(b, cfg.derived_locals(b, [b.blocks[i]["term"]["d"][0]])):
                    if te["ok_edge"]:
                        cut.add(te["ok_edge"])
            p = cfg.find_path(b, [0], ok_blocks + unk, removed_edges=cut) if cut else [0]
            ctx.ob("R01f", "FileStorage::new:" + need.split("::")[-1], bool(cb) and p is None,
                   "every successful open passes `%s(..)?`" % need if (cb and p is None) else
                   "FileStorage::new can succeed without `%s` succeeding" % need, b.where)
    b = ctx.anchor("R01f", "<agdb::storage::file_storage::FileStorage as std::ops::Drop>::drop")
    if b:
        cb = cfg.call_blocks(b, [FS + "::apply_wal"])
        ok, p = cfg.must_pass(b, [0], cb, cfg.return_blocks(b))
        ctx.ob("R01f", "FileStorage::drop:apply_wal", bool(cb) and ok,
               "drop replays the log on every path" if (cb and ok) else "drop can return without replaying the log",
               b.where)
    b = ctx.anchor("R01f", WAL + "::new")
    if b:
        cb = cfg.call_blocks(b, [WAL + "::repair"])
        ok_blocks, err_blocks, unk = cfg.ret_class_blocks(b)
        cut = set()
        for i in cb:
            for te in cfg.try_edges(b, cfg.derived_locals(b, [b.blocks[i]["term"]["d"][0]])):
                if te["ok_edge"]:
                    cut.add(te["ok_edge"])
        p = cfg.find_path(b, [0], ok_blocks + unk, removed_edges=cut) if cut else [0]
        ctx.ob("R01f", "WriteAheadLog::new:repair", bool(cb) and p is None,
               "log is repaired before it is used" if (cb and p is None) else
               "WriteAheadLog::new can succeed without repair()", b.where)
    b = ctx.anchor("R01f", WAL + "::repair")
    if b:
        # scope: repair and the private helpers of WriteAheadLog it calls (the scan step may live in a helper)
        scope = [b]
        for _ in range(2):
            for sb in list(scope):
                for i, t in cfg.calls(sb):
                    n = common.norm(cfg.callee(t) or "")
                    hb = fa.body(n)
                    if hb is not None and n.startswith(WAL + "::") and hb not in scope and n not in (WAL + "::skip_record", WAL + "::read_exact"):
                        scope.append(hb)
        sk = [(sb, i, t) for sb in scope for i, t in cfg.calls(sb) if cfg.callee(t) == WAL + "::skip_record"]
        sl = cfg.call_blocks(b, ["std::fs::File::set_len"])
        # (1) an unreadable trailing record is not an error of the open: skip_record's result is inspected, never `?`-ed
        prop = [sb.loc(i) for sb, i, t in sk if cfg.try_edges(sb, cfg.derived_locals(sb, [t["d"][0]]))]
        ctx.ob("R01f", "WriteAheadLog::repair:torn-record-is-not-an-error", bool(sk) and not prop,
               "the result of skip_record is inspected (%d call), not propagated" % len(sk) if sk and not prop else
               "repair propagates a failing skip_record with `?` (%s): a torn log tail makes the database unopenable" % prop
               if sk else "repair no longer scans the log with skip_record", b.where)
        # (2) every way out of the scan loop other than `pos < size` becoming false or an I/O error truncates the log
        scan = common.call_blocks_reaching(fa, b, [WAL + "::skip_record"])
        loops = [c for c in cfg.sccs(b) if any(x in c for x in scan)]
        okb, errb, unk = cfg.ret_class_blocks(b)
        ok2 = len(loops) == 1 and bool(sl)
        bad_exits = []
        if ok2:
            comp = loops[0]
            preds = cfg.all_pred(b)
            headers = [x for x in comp if any(p_ not in comp for p_ in preds[x])]
            callblocks = [x for x in comp if b.blocks[x]["term"]["k"] == "call" and not cfg.is_transparent(cfg.callee(b.blocks[x]["term"]) or "")]
            for u in sorted(comp):
                for v in cfg.succs(b, u):
                    if v in comp:
                        continue
                    if cfg.find_path(b, [v], okb + unk) is None:
                        continue            # leaves only towards an error return (I/O error)
                    if b.blocks[u]["term"]["k"] == "switch" and cfg.find_path(b, headers, [u], avoid=callblocks) is not None:
                        continue            # the loop condition itself
                    if cfg.must_pass(b, [v], sl, okb + unk)[0]:
                        continue            # truncates before returning
                    bad_exits.append("%s->%s" % (b.loc(u), b.loc(v)))
        ctx.ob("R01f", "WriteAheadLog::repair:truncate-torn-tail", ok2 and not bad_exits,
               "every early exit of the scan loop truncates the log at the last complete record" if ok2 and not bad_exits else
               "repair can stop scanning without truncating the log at the last complete record (exits %s; set_len calls %d)" % (
                   bad_exits, len(sl)), b.where)
        # (3) a record that claims to end beyond the log is torn too: the position after a skipped record is compared
        sp = [(sb, i, t) for sb in scope for i, t in cfg.calls(sb) if (cfg.callee(t) or "").endswith("::stream_position")]
        cmpd = False
        # (the loop condition `pos < size` does not count: it tests the position already accepted)
        pos_roots = {(cfg.op_origin(b, b.blocks[x]["term"]["a"][1]) or (None,))[0] for x in sl}
        for sb, i, t in sp:
            der = cfg.derived_locals(sb, [t["d"][0]])
            for bi, st in cfg.assigns(sb):
                r = st["r"]
                if r["k"] == "bin" and r["op"] in ("Gt", "Lt", "Ge", "Le"):
                    for o in (r["a"], r["b"]):
                        pl = cfg.op_place(o)
                        if pl and pl[0] in der and not (sb is b and cfg.origin(sb, pl)[0] in pos_roots):
                            cmpd = True
        ctx.ob("R01f", "WriteAheadLog::repair:over-long-record", cmpd,
               "the position after a skipped record is compared with the log size" if cmpd else
               "repair no longer compares the position after a skipped record with the log size: an over-long (torn) "
               "record is accepted", b.where)
        # (4) the truncation point is the scan position, not the log size
        szl = [t["d"][0] for i, t in cfg.calls(b) if (cfg.callee(t) or "").endswith("Seek>::seek") or (cfg.callee(t) or "").endswith("::seek")]
        szd = cfg.derived_locals(b, szl) if szl else {}
        okp = bool(sl) and all((cfg.op_origin(b, b.blocks[x]["term"]["a"][1]) or (None,))[0] not in szd for x in sl)
        ctx.ob("R01f", "WriteAheadLog::repair:truncates-at-scan-position", okp,
               "set_len receives the scan position" if okp else "repair truncates to a value derived from the log size", b.where)

    # ---------------- R01g (shared with C32): success pairing
    common.pair_rule(ctx, "R01g", classes=("success",))
    return 0
