"""C13 — a failed transaction or query leaves no observable effect."""
from lib import cfg
from rules import common

CRATES = ("agdb",)
EXPLANATION = (
    "Static analysis of DbImpl's undo machinery: (R13a) the rollback loop can only be left by iterator exhaustion or an "
    "error-propagating return; (R13b) every call of a mutator of graph/aliases/indexes/values in a non-rollback method of "
    "DbImpl lies on no success path free of an undo_stack push; (R13c) for every such mutator the function pushes a "
    "Command variant whose rollback arm (HIR match table) calls the inverse mutator, and every Command variant has an "
    "arm; (R13d) every aliases.insert outside rollback is preceded by look-ups of both displaced bindings, or its id is "
    "the fresh result of insert_node and the alias was looked up and missed.")
DECIDED = ["R13a rollback runs to the end (loop-exit classification)",
           "R13b every mutation records an undo command (MUST over success paths)",
           "R13c pushed command and rollback arm are inverse (TABLE, MIR aggregates x HIR match arms)",
           "R13d displaced alias bindings are recorded (DOM)",
           "R13e nothing reachable from rollback records undo commands",
           "R13f undo commands are recorded in the order of their mutations",
           "R11a key-value store and indexes are co-updated with the per-(value, id) primitives, forward and in the rollback arms (shared with C11)",
           "R09d insert_or_replace reports None only after an insertion (shared with C09)",
           "R08g every removal releases its slot through free_index (shared with C08)"]
UNDECIDED = ["equality of the database state before the transaction and after rollback (needs execution)",
             "correct payload of each pushed command (old value vs new value)"]

DB = "agdb::db::DbImpl::"
STRUCT_FIELDS = ("graph", "aliases", "indexes", "values")
G = "agdb::graph::GraphImpl::"
IM = "agdb::collections::indexed_map::IndexedMapImpl::"
IX = "agdb::db::db_index::DbIndexes::"
KV = "agdb::db::db_key_value::DbKeyValues::"
INVERSE = {
    G + "insert_node": {G + "remove_node"}, G + "remove_node": {G + "insert_node"},
    G + "insert_edge": {G + "remove_edge"}, G + "remove_edge": {G + "insert_edge"},
    IM + "insert": {IM + "remove_key"}, IM + "remove_key": {IM + "insert"},
    IX + "insert": {IX + "remove"}, IX + "remove": {IX + "insert"},
    KV + "insert_value": {KV + "remove_value"}, KV + "remove_value": {KV + "insert_value"},
    KV + "insert_or_replace": {KV + "insert_or_replace", KV + "remove_value"},
    KV + "remove": {KV + "insert_value"},
}
# R13b frozen exceptions: (function, mutator) -> reason
NO_UNDO_NEEDED = {
    (DB + "reserve_key_value_capacity", KV + "reserve_capacity"): "capacity is not observable",
    (DB + "shrink_to_fit", "*"): "capacity only; not observable",
}


def self_mutator_calls(b):
    """calls on self.<graph|aliases|indexes|values> that also receive `&mut self.storage`"""
    out = []
    for i, t in cfg.calls(b):
        if not t["a"]:
            continue
        o = cfg.op_origin(b, t["a"][0])
        if not (o and o[0] == 1 and o[1] and o[1][0][1:] in STRUCT_FIELDS):
            continue
        st = False
        for a in t["a"][1:]:
            pl = cfg.op_place(a)
            if not pl:
                continue
            oa = cfg.origin(b, pl)
            ds = [x for x in cfg.defs(b).get(pl[0], []) if x[0] == "assign"]
            if oa[0] == 1 and oa[1][:1] == [".storage"] and ds and ds[0][2].get("mut"):
                st = True
        if st:
            out.append((i, t, o[1][0][1:], common.norm(cfg.callee(t) or "")))
    return out


def pushed_variants(b):
    """[(bb, variant)] for Vec::push on self.undo_stack"""
    out = []
    for i, t in cfg.calls(b):
        if cfg.callee(t) == "std::vec::Vec::push" and t["a"] and cfg.is_self_field(b, t["a"][0], "undo_stack"):
            var = None
            pl = cfg.op_place(t["a"][1])
            if pl:
                r0 = cfg.origin(b, pl)[0]
                for d in cfg.defs(b).get(r0, []):
                    if d[0] == "assign" and d[2]["k"] == "agg" and d[2].get("adt") == "agdb::command::Command":
                        var = d[2]["variant"]
            out.append((i, var))
    return out


def rollback_arms(fa):
    arms = {}
    rb = fa.body(DB + "rollback")
    if rb:
        for m in fa.matches(rb.path):
            if m["scrut_ty"].endswith("agdb::command::Command"):
                for a in m["arms"]:
                    if a["p"].get("path"):
                        arms[a["p"]["path"].split("::")[-1]] = {common.norm(c) for c in a["body"]["calls"]}
    return arms


def undo_order_rule(ctx, arms=None, rule="R13f"):
    """Undo commands are replayed newest-first, so within one function they must be recorded in the order of the
    mutations they undo: if mutation m1 always precedes m2, the command undoing m1 must be pushed before the one
    undoing m2 (otherwise rollback first re-creates a binding and then deletes it again)."""
    fa = ctx.facts
    arms = arms if arms is not None else rollback_arms(fa)
    n = 0
    for b in sorted(fa.find(r"^agdb::db::DbImpl::[a-z_]+$"), key=lambda x: x.line):
        name = common.norm(b.npath)
        if name == DB + "rollback" or b.d["argc"] < 1 or not b.local_ty(1).startswith("&mut agdb::db::DbImpl"):
            continue
        pushes = [(i, v) for i, v in pushed_variants(b) if v]
        muts = self_mutator_calls(b)
        if len(pushes) < 2 or not muts:
            continue
        pblocks = [i for i, v in pushes]

        def reach(a, c):
            return cfg.find_path(b, [a], [c], leave_start=True) is not None
        assoc = {}
        for pi, v in pushes:
            cands = [mi for mi, t, f, cal in muts if INVERSE.get(cal, set()) & arms.get(v, set())]
            others = [x for x in pblocks if x != pi]
            fwd = [mi for mi in cands if cfg.find_path(b, [pi], [mi], avoid=others, leave_start=True) is not None]
            bwd = [mi for mi in cands if cfg.find_path(b, [mi], [pi], avoid=others, leave_start=True) is not None]
            assoc[pi] = set(fwd or bwd)
        for p1, v1 in pushes:
            for p2, v2 in pushes:
                if p1 >= p2 or not assoc[p1] or not assoc[p2] or (assoc[p1] & assoc[p2]):
                    continue
                # strict order of the mutations (both directions reachable = loop: skip)
                m12 = all(reach(a, c) and not reach(c, a) for a in assoc[p1] for c in assoc[p2])
                m21 = all(reach(c, a) and not reach(a, c) for a in assoc[p1] for c in assoc[p2])
                if not (m12 or m21):
                    continue
                n += 1
                first, second = (p1, p2) if m12 else (p2, p1)
                ok = reach(first, second) and not reach(second, first)
                # pushes on exclusive branches are unordered: fine
                if not reach(first, second) and not reach(second, first):
                    ok = True
                vf, vs = dict(pushes)[first], dict(pushes)[second]
                ctx.ob(rule, "%s:%s-before-%s" % (name, vf, vs), ok,
                       "undo commands are recorded in the order of their mutations" if ok else
                       "in `%s` the undo command %s is pushed after %s although its mutation comes first: rollback (newest "
                       "first) would undo them in the wrong order" % (name, vf, vs), b.loc(first),
                       key="%s|%s|%s|%s-before-%s" % (ctx.pid, rule, name, vf, vs))
    ctx.floor(rule, "ordered (push, mutation) pairs", n, 2)


def run(ctx):
    fa = ctx.facts
    rb = ctx.anchor("R13a", DB + "rollback")
    arms = {}
    if rb:
        nexts = [i for i, t in cfg.calls(rb) if (cfg.callee(t) or "").endswith("Iterator>::next")]
        comps = [c for c in cfg.sccs(rb) if any(n in c for n in nexts)]
        ok_found = bool(comps)
        ctx.ob("R13a", "rollback:loop-found", ok_found, "undo loop located" if ok_found else
               "rollback no longer iterates the undo stack in a recognisable loop", rb.where)
        if comps:
            comp = max(comps, key=len)
            okb, errb, unk = cfg.ret_class_blocks(rb)
            rets = cfg.return_blocks(rb)
            bad = []
            n_exit = 0
            for u in sorted(comp):
                for v in cfg.succs(rb, u):
                    if v in comp:
                        continue
                    n_exit += 1
                    t = rb.blocks[u]["term"]
                    if t["k"] == "switch" and t.get("x") == "desugar:ForLoop":
                        continue     # iterator exhausted
                    # error-propagating exit: every path from v to return passes an Err-producing block
                    if errb and cfg.find_path(rb, [v], rets, avoid=errb) is None:
                        continue
                    bad.append((u, v))
            ctx.ob("R13a", "rollback:exits", not bad,
                   "%d loop exits: iterator exhaustion or error propagation only" % n_exit if not bad else
                   "the undo loop can be left early with a non-error result at %s: earlier commands are never undone" %
                   ", ".join(rb.loc(u) for u, v in bad), rb.loc(bad[0][0]) if bad else rb.where)
        # the loop iterates the stack in reverse
        rev = [i for i, t in cfg.calls(rb) if (cfg.callee(t) or "").endswith("::rev")]
        ctx.ob("R13a", "rollback:newest-first", bool(rev), "undo stack iterated with .rev()" if rev else
               "rollback no longer iterates the undo stack newest-first", rb.where)
        for m in fa.matches(rb.path):
            if m["scrut_ty"].endswith("agdb::command::Command"):
                for a in m["arms"]:
                    p = a["p"]
                    if p.get("path"):
                        arms[p["path"].split("::")[-1]] = {common.norm(c) for c in a["body"]["calls"]}
                    elif p["k"] in ("wild", "bind"):
                        arms["_"] = set()
    cmd = fa.adts.get("agdb::command::Command")
    if cmd:
        vs = [v["name"] for v in cmd["variants"]]
        missing = [v for v in vs if v not in arms]
        ctx.ob("R13c", "rollback:arms-cover-Command", not missing and "_" not in arms,
               "all %d Command variants have an explicit rollback arm" % len(vs) if not missing and "_" not in arms else
               "Command variants without an explicit rollback arm: %s (wildcard: %s)" % (missing, "_" in arms),
               rb.where if rb else "")
        ctx.floor("R13c", "Command variants", len(vs), 1)
    # R13e: nothing reachable from rollback records new undo commands (the undo stack was swapped out: a command
    # pushed during rollback would survive the failed transaction and be executed by the *next* rollback)
    if rb:
        from lib.callgraph import CallGraph
        cg = CallGraph(fa)
        offenders = []
        for p, (cb, parent, bb) in cg.closure([rb]).items():
            if cb is rb or not common.norm(cb.npath).startswith(DB):
                continue
            if pushed_variants(cb):
                offenders.append(common.norm(cb.npath))
        ctx.ob("R13e", "rollback:no-undo-recording", not offenders,
               "no function reachable from rollback pushes onto the undo stack" if not offenders else
               "rollback reaches %s, which record(s) undo commands: they leak into the next transaction's rollback" % sorted(offenders),
               rb.where)

    n_mut = 0
    for b in sorted(fa.find(r"^agdb::db::DbImpl::[a-z_]+$"), key=lambda x: x.line):
        if b.d["argc"] < 1 or not b.local_ty(1).startswith("&mut agdb::db::DbImpl"):
            continue
        name = common.norm(b.npath)
        if name == DB + "rollback":
            continue
        muts = self_mutator_calls(b)
        if not muts:
            continue
        pushes = pushed_variants(b)
        push_blocks = [i for i, v in pushes]
        okb, errb, unk = cfg.ret_class_blocks(b)
        targets = (okb + unk) or cfg.return_blocks(b)
        loops = cfg.sccs(b)
        for i, t, field, cal in muts:
            n_mut += 1
            inst = "%s:%s.%s" % (name, field, cal.split("::")[-1])
            if (name, cal) in NO_UNDO_NEEDED or (name, "*") in NO_UNDO_NEEDED:
                ctx.ob("R13b", inst, True, "frozen exception: " + NO_UNDO_NEEDED.get((name, cal), NO_UNDO_NEEDED.get((name, "*"))), b.loc(i))
                continue
            pre = cfg.find_path(b, [0], [i], avoid=push_blocks)
            post = i in targets or cfg.find_path(b, [i], targets, avoid=push_blocks, leave_start=True) is not None
            ok = not (pre is not None and post)
            how = "an undo command is pushed on every success path through this mutation"
            if not ok and cal == KV + "remove":
                # bulk removal: accepted when a loop that pushes one command per pair precedes it
                for c in loops:
                    if any(p in c for p in push_blocks) and cfg.find_path(b, [0], [i], avoid=c) is None:
                        ok = True
                        how = "bulk removal preceded by a loop pushing one InsertKeyValue per stored pair"
            ctx.ob("R13b", inst, ok, how if ok else
                   "mutation `%s` of self.%s can succeed without any undo command being recorded" % (cal.split("::")[-1], field),
                   b.loc(i), key="%s|R13b|%s|%s.%s" % (ctx.pid, name, field, cal.split("::")[-1]))
            # R13c
            inv = INVERSE.get(cal)
            if inv is None:
                ctx.ob("R13c", inst, False, "mutator `%s` is not in the inverse table (new mutator: add its inverse)" % cal,
                       b.loc(i), key="%s|R13c|unknown-mutator|%s" % (ctx.pid, cal))
                continue
            pv = [v for _, v in pushes if v]
            hit = [v for v in pv if arms.get(v, set()) & inv]
            ctx.ob("R13c", inst, bool(hit),
                   "pushed %s; rollback arm calls %s" % (hit[:2], sorted(x.split("::")[-1] for x in inv)) if hit else
                   "`%s` pushes %s but no pushed command's rollback arm calls the inverse %s" % (
                       name, pv, sorted(x.split("::")[-1] for x in inv)), b.loc(i),
                   key="%s|R13c|%s|%s.%s" % (ctx.pid, name, field, cal.split("::")[-1]))
    ctx.floor("R13b", "mutator calls in DbImpl methods", n_mut, 20)
    undo_order_rule(ctx, arms)

    # R13d
    n_ins = 0
    for b in fa.find(r"^agdb::db::DbImpl::[a-z_]+$"):
        name = common.norm(b.npath)
        if name == DB + "rollback":
            continue
        for i, t, field, cal in self_mutator_calls(b):
            if not (field == "aliases" and cal == IM + "insert"):
                continue
            n_ins += 1
            lk_key = [j for j, tj in cfg.calls(b) if common.norm(cfg.callee(tj) or "") == IM + "key"]
            lk_val = [j for j, tj in cfg.calls(b) if common.norm(cfg.callee(tj) or "") == IM + "value"]
            both = (bool(lk_key) and bool(lk_val) and cfg.find_path(b, [0], [i], avoid=lk_key) is None and
                    cfg.find_path(b, [0], [i], avoid=lk_val) is None)
            if both:
                ctx.ob("R13d", name, True, "both displaced bindings (alias of the id, holder of the alias) are looked up before insert", b.loc(i))
                continue
            # otherwise: primitive for fresh ids; check every caller
            callers = []
            for cb in fa.bodies.values():
                if cb.crate != "agdb":
                    continue
                for j, tj in cfg.calls(cb):
                    if common.norm(cfg.callee(tj) or "") == name:
                        callers.append((cb, j, tj))
            ok_all = bool(callers)
            why = []
            for cb, j, tj in callers:
                nodes = [k for k, tk in cfg.calls(cb) if common.norm(cfg.callee(tk) or "") == DB + "insert_node"]
                fresh = False
                for k in nodes:
                    der = cfg.derived_locals(cb, [cb.blocks[k]["term"]["d"][0]])
                    o = cfg.op_origin(cb, tj["a"][1])
                    if o and o[0] in der:
                        fresh = True
                # alias looked up and missed: a db_id()/aliases lookup dominates, here or in every caller of cb
                def looked_up(fb, site):
                    # (reachability, not dominance: `if let Some(a) = aliases.get(i) && let Ok(..) = db.db_id(a)`
                    #  followed by a second `aliases.get(i)` has an infeasible skip-path a path-insensitive
                    #  dominance test would report)
                    lks = [k for k, tk in cfg.calls(fb) if common.norm(cfg.callee(tk) or "") == DB + "db_id"]
                    return bool(lks) and cfg.find_path(fb, lks, [site], leave_start=True) is not None
                lk = looked_up(cb, j)
                if not lk:
                    ups = [(ub, k) for ub in fa.bodies.values() if ub.crate == "agdb"
                           for k, tk in cfg.calls(ub) if common.norm(cfg.callee(tk) or "") == common.norm(cb.npath)]
                    lk = bool(ups) and all(looked_up(ub, k) for ub, k in ups)
                if not (fresh and lk):
                    ok_all = False
                    why.append("%s (fresh id: %s, alias looked up: %s)" % (common.norm(cb.npath), fresh, lk))
            ctx.ob("R13d", name, ok_all,
                   "no look-ups, but every caller (%d) passes the fresh result of insert_node and looked the alias up first" % len(callers)
                   if ok_all else "`%s` inserts an alias without recording displaced bindings and a caller passes a "
                   "non-fresh id or an alias that was not looked up: %s" % (name, why), b.loc(i))
    ctx.floor("R13d", "aliases.insert sites outside rollback", n_ins, 2)
    # the index entries a rollback restores are exactly those the forward step removed (R11a, shared with C11)
    from rules import C11
    C11.index_maintenance_rule(ctx)
    # the index update / undo command is chosen by what insert_or_replace reports (R09d, shared with C09)
    from rules import C09
    C09.insert_or_replace_contract_rule(ctx)
    # ids of re-created / scanned elements depend on the free-list discipline of the graph (R08g, shared with C08)
    from rules import C08
    C08.slot_release_rule(ctx)
    return 0
