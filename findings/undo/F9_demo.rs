// F9 demo: "empty aliases and aliases for edges are rejected without effect".
//  - InsertAliasesQuery accepts an edge id (negative id) as alias target.
//  - InsertNodesQuery accepts an empty alias "" (new-node path and `ids` path).
//  - InsertValuesQuery with ids("") (unknown alias => insert-as-new-node path) creates a node aliased "".
//
// Place as: agdb/tests/f9_demo.rs
// Run:      CARGO_NET_OFFLINE=true cargo test -p agdb --offline --test f9_demo
//
// All four tests FAIL on unchanged code and pass with F9.fix.diff.

use agdb::DbMemory;
use agdb::QueryBuilder;

fn aliases(db: &DbMemory) -> Vec<(String, i64)> {
    let mut v: Vec<(String, i64)> = db
        .exec(QueryBuilder::select().aliases().query())
        .unwrap()
        .elements
        .iter()
        .map(|e| (e.values[0].value.to_string(), e.id.0))
        .collect();
    v.sort();
    v
}

fn node_count(db: &DbMemory) -> u64 {
    db.exec(QueryBuilder::select().node_count().query())
        .unwrap()
        .result
}

#[test]
fn f9_insert_aliases_edge_id() {
    let mut db = DbMemory::new("f9_a").unwrap();
    db.exec_mut(QueryBuilder::insert().nodes().count(2).query())
        .unwrap();
    db.exec_mut(QueryBuilder::insert().edges().from(1).to(2).query())
        .unwrap(); // edge -3

    let res = db.exec_mut(QueryBuilder::insert().aliases("edge_alias").ids(-3).query());

    assert!(res.is_err(), "alias for an edge was accepted: {res:?}");
    assert_eq!(aliases(&db), vec![]);
}

#[test]
fn f9_insert_nodes_empty_alias() {
    let mut db = DbMemory::new("f9_b").unwrap();

    let res = db.exec_mut(QueryBuilder::insert().nodes().aliases(["ok", ""]).query());

    assert!(res.is_err(), "empty alias was accepted: {res:?}");
    assert_eq!(node_count(&db), 0);
    assert_eq!(aliases(&db), vec![]);
}

#[test]
fn f9_insert_nodes_ids_empty_alias() {
    let mut db = DbMemory::new("f9_c").unwrap();
    db.exec_mut(QueryBuilder::insert().nodes().aliases("a").query())
        .unwrap();

    let res = db.exec_mut(QueryBuilder::insert().nodes().ids(1).aliases("").query());

    assert!(res.is_err(), "empty alias was accepted: {res:?}");
    assert_eq!(aliases(&db), vec![("a".to_string(), 1)]);
}

#[test]
fn f9_insert_values_new_element_empty_alias() {
    let mut db = DbMemory::new("f9_d").unwrap();

    let res = db.exec_mut(
        QueryBuilder::insert()
            .values([[("k", 1).into()]])
            .ids("")
            .query(),
    );

    assert!(res.is_err(), "empty alias was accepted: {res:?}");
    assert_eq!(node_count(&db), 0);
    assert_eq!(aliases(&db), vec![]);
}
