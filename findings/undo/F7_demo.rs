// F7 demo: DbImpl::rollback stops at the first Command::ReplaceKeyValue it meets
// (`return Ok(())` inside the match arm in agdb/src/db.rs), so every command
// pushed on the undo stack BEFORE the replace is never undone.
//
// Place as: agdb/tests/f7_demo.rs
// Run:      CARGO_NET_OFFLINE=true cargo test -p agdb --offline --test f7_demo
//
// Both tests FAIL on unchanged code and pass with F7.fix.diff.

use agdb::DbError;
use agdb::DbErrorType;
use agdb::DbMemory;
use agdb::DbValue;
use agdb::QueryBuilder;

fn sorted_keys(db: &DbMemory, id: i64) -> Vec<String> {
    let mut keys: Vec<String> = db
        .exec(QueryBuilder::select().keys().ids(id).query())
        .unwrap()
        .elements[0]
        .values
        .iter()
        .map(|kv| kv.key.to_string())
        .collect();
    keys.sort();
    keys
}

// Explicit transaction: insert a node, then overwrite an existing value, then fail.
#[test]
fn f7_transaction_insert_node_then_replace_then_err() {
    let mut db = DbMemory::new("f7_tx").unwrap();
    db.exec_mut(
        QueryBuilder::insert()
            .nodes()
            .values([[("k", 1).into()]])
            .query(),
    )
    .unwrap(); // node 1 {k: 1}

    let res: Result<(), DbError> = db.transaction_mut(|t| {
        t.exec_mut(QueryBuilder::insert().nodes().count(1).query())?; // node 2
        t.exec_mut(
            QueryBuilder::insert()
                .values([[("k", 2).into()]])
                .ids(1)
                .query(),
        )?; // replaces k: 1 -> 2 (pushes ReplaceKeyValue LAST => undone FIRST)
        Err(DbError::db(DbErrorType::NotAllowed, "boom"))
    });
    assert!(res.is_err());

    // the replace itself is undone
    let k = db
        .exec(QueryBuilder::select().values("k").ids(1).query())
        .unwrap()
        .elements[0]
        .values[0]
        .value
        .clone();
    assert_eq!(k, DbValue::from(1));

    // ... but node 2 must be gone as well
    let node_count = db
        .exec(QueryBuilder::select().node_count().query())
        .unwrap()
        .result;
    assert_eq!(
        node_count, 1,
        "node inserted in rolled back transaction survived"
    );
    assert!(db.exec(QueryBuilder::select().ids(2).query()).is_err());
}

// Single query failing part-way: insert values [new, k(replace)] to id 1, then id 99 (missing).
#[test]
fn f7_single_query_fails_part_way() {
    let mut db = DbMemory::new("f7_q").unwrap();
    db.exec_mut(
        QueryBuilder::insert()
            .nodes()
            .values([[("k", 1).into()]])
            .query(),
    )
    .unwrap(); // node 1 {k: 1}

    let err = db
        .exec_mut(
            QueryBuilder::insert()
                .values_uniform([("new", 10).into(), ("k", 2).into()])
                .ids([1, 99])
                .query(),
        )
        .unwrap_err();
    assert_eq!(err.description, "Id '99' not found");

    assert_eq!(
        sorted_keys(&db, 1),
        vec!["k".to_string()],
        "key 'new' inserted by the failed query survived the rollback"
    );
}
