// F8 demo: alias displacement is not (fully) recorded on the undo stack.
// IndexedMap::insert(alias, id) can displace BOTH the previous holder of `alias`
// and the previous alias of `id`. DbImpl::insert_alias records only the latter,
// DbImpl::insert_new_alias records neither (and InsertNodesQuery uses it for
// EXISTING nodes on its `ids` path).
//
// Place as: agdb/tests/f8_demo.rs
// Run:      CARGO_NET_OFFLINE=true cargo test -p agdb --offline --test f8_demo
//
// All three tests FAIL on unchanged code and pass with F8.fix.diff.

use agdb::DbError;
use agdb::DbErrorType;
use agdb::DbMemory;
use agdb::QueryBuilder;

fn aliases(db: &DbMemory) -> Vec<(String, i64)> {
    let mut v: Vec<(String, i64)> = db
        .exec(QueryBuilder::select().aliases().query())
        .unwrap()
        .elements
        .iter()
        .map(|e| (e.values[0].value.to_string(), e.id.0))
        .collect();
    v.sort();
    v
}

fn boom() -> DbError {
    DbError::db(DbErrorType::NotAllowed, "boom")
}

// InsertAliasesQuery -> DbImpl::insert_alias: take alias "a" from node 1 and give it to node 2.
#[test]
fn f8_insert_aliases_steals_alias_then_rollback() {
    let mut db = DbMemory::new("f8_a").unwrap();
    db.exec_mut(QueryBuilder::insert().nodes().aliases(["a", "b"]).query())
        .unwrap(); // 1="a", 2="b"
    let before = aliases(&db);
    assert_eq!(before, vec![("a".to_string(), 1), ("b".to_string(), 2)]);

    let res: Result<(), DbError> = db.transaction_mut(|t| {
        t.exec_mut(QueryBuilder::insert().aliases("a").ids(2).query())?;
        Err(boom())
    });
    assert!(res.is_err());

    assert_eq!(aliases(&db), before);
}

// InsertNodesQuery with `ids` -> DbImpl::insert_new_alias on an EXISTING node that already has an alias.
#[test]
fn f8_insert_nodes_ids_replaces_own_alias_then_rollback() {
    let mut db = DbMemory::new("f8_b").unwrap();
    db.exec_mut(QueryBuilder::insert().nodes().aliases("a").query())
        .unwrap(); // 1="a"
    let before = aliases(&db);

    let res: Result<(), DbError> = db.transaction_mut(|t| {
        t.exec_mut(QueryBuilder::insert().nodes().ids(1).aliases("z").query())?;
        Err(boom())
    });
    assert!(res.is_err());

    assert_eq!(aliases(&db), before);
}

// InsertNodesQuery with `ids` -> DbImpl::insert_new_alias stealing the alias of another node.
#[test]
fn f8_insert_nodes_ids_steals_alias_then_rollback() {
    let mut db = DbMemory::new("f8_c").unwrap();
    db.exec_mut(QueryBuilder::insert().nodes().aliases("a").query())
        .unwrap(); // 1="a"
    db.exec_mut(QueryBuilder::insert().nodes().count(1).query())
        .unwrap(); // 2 (no alias)
    let before = aliases(&db);

    let res: Result<(), DbError> = db.transaction_mut(|t| {
        t.exec_mut(QueryBuilder::insert().nodes().ids(2).aliases("a").query())?;
        Err(boom())
    });
    assert!(res.is_err());

    assert_eq!(aliases(&db), before);
}
