// F14 demo (property P07): opening a damaged database file (with or without WAL) and reading
// from it must yield Ok/Err, never panic / abort / attempt an enormous allocation.
//
// Place this file at:  agdb/tests/f14_demo.rs
// Run (debug):         cargo test -p agdb --offline --test f14_demo -- --nocapture --test-threads=1
// Run (release):       cargo test -p agdb --offline --release --test f14_demo -- --nocapture --test-threads=1
//
// Every test asserts the DESIRED behaviour, so on an unfixed tree the tests FAIL and print the
// observed panic/abort; with the F14*.fix.diff patches applied they pass (except
// `f14e_wal_sparse_growth`, for which no small fix exists - see report).
// Note: F14b.fix.diff only turns impossible sizes into errors; a record index around 2^31 still
// makes `StorageRecords::set_record` allocate and fill ~48 GB (see F14_sweep_partial_log.txt).
//
// A valid database is built with `DbFile` (deterministic content, 8175 bytes), then individual
// bytes are overwritten. Offsets are located by walking the storage records
// ([index u64][size u64][value]) so they are printed exactly for the generated file.
// Cases that abort the process or hang are re-executed in a child process
// (the test binary re-invokes itself with F14_CASE=<name>).

use agdb::Db;
use agdb::DbError;
use agdb::DbFile;
use agdb::DbMemory;
use agdb::QueryBuilder;
use agdb::QueryResult;
use std::time::Duration;

// ---------------------------------------------------------------- helpers

fn dir() -> String {
    let d = match std::env::var("F14_DIR") {
        Ok(d) => std::path::PathBuf::from(d),
        Err(_) => std::env::temp_dir().join(format!("f14_demo_{}", std::process::id())),
    };
    std::fs::create_dir_all(&d).unwrap();
    d.to_str().unwrap().to_string()
}

fn cleanup() {
    let _ = std::fs::remove_dir_all(dir());
}

/// Builds the valid reference database and returns its bytes.
fn valid_db() -> Vec<u8> {
    let path = format!("{}/valid.agdb", dir());
    let _ = std::fs::remove_file(&path);
    {
        let mut db = DbFile::new(&path).unwrap();
        db.exec_mut(QueryBuilder::insert().index("k").query())
            .unwrap();
        db.exec_mut(
            QueryBuilder::insert()
                .nodes()
                .aliases(["a", "b", "c"])
                .values([
                    [("k", 1_i64).into(), ("s", "short").into()],
                    [
                        ("k", 2_i64).into(),
                        ("s", "a long string value over 15 bytes").into(),
                    ],
                    [("k", 3_i64).into(), ("v", vec![1_i64, 2, 3]).into()],
                ])
                .query(),
        )
        .unwrap();
        db.exec_mut(
            QueryBuilder::insert()
                .edges()
                .from(["a", "b"])
                .to(["b", "c"])
                .query(),
        )
        .unwrap();
        db.optimize_storage().unwrap();
    }
    std::fs::read(&path).unwrap()
}

fn u64_at(b: &[u8], pos: usize) -> u64 {
    u64::from_le_bytes(b[pos..pos + 8].try_into().unwrap())
}

/// Returns (record header position, value position, value size) of storage record `index`.
fn record(b: &[u8], index: u64) -> (usize, usize, usize) {
    let mut pos = 0;
    while pos + 16 <= b.len() {
        let idx = u64_at(b, pos);
        let size = u64_at(b, pos + 8) as usize;
        if idx == index {
            return (pos, pos + 16, size);
        }
        pos += 16 + size;
    }
    panic!("record {index} not found");
}

/// Offsets of interesting fields in the valid file.
struct Layout {
    /// byte 15 (type<<4|size) of the DbValueIndex of value of key "k" of node 1 ("a")
    node1_value_meta: usize,
    /// byte 15 of the DbValueIndex of the key of the (only) index "k"
    index_key_meta: usize,
    /// header of the first record after the db index record (storage index 40)
    some_record_header: usize,
    /// graph `from` vector element 1 (node 1 -> first outgoing edge)
    graph_from_1: usize,
    /// graph `to` vector element 4 (edge -4 -> target node, stored negated)
    graph_to_4: usize,
}

fn layout(b: &[u8]) -> Layout {
    // record 1: DbStorageIndex { version, graph, aliases.0, aliases.1, indexes, values }
    let (_, v1, _) = record(b, 1);
    let graph = u64_at(b, v1 + 8);
    let indexes = u64_at(b, v1 + 32);
    let values = u64_at(b, v1 + 40);
    // graph record: { from, to, from_meta, to_meta }
    let (_, vg, _) = record(b, graph);
    let from = u64_at(b, vg);
    let to = u64_at(b, vg + 8);
    // values record: DbVec<StorageIndex>: [len][idx0][idx1]...
    let (_, vv, _) = record(b, values);
    let node1_kvs = u64_at(b, vv + 8 + 8);
    // node 1 key-values: DbVec<DbKeyValue>: [len][key 16B][value 16B]...
    let (_, vkv, _) = record(b, node1_kvs);
    // indexes record: DbVec<DbIndexStorageIndex>: [len][key 16B][ids u64]...
    let (_, vi, _) = record(b, indexes);
    let (_, vfrom, _) = record(b, from);
    let (_, vto, _) = record(b, to);

    Layout {
        node1_value_meta: vkv + 8 + 16 + 15,
        index_key_meta: vi + 8 + 15,
        some_record_header: v1 + 48,
        graph_from_1: vfrom + 8 + 8,
        graph_to_4: vto + 8 + 4 * 8,
    }
}

fn hex(b: &[u8]) -> String {
    b.iter().map(|x| format!("{x:02x}")).collect()
}

fn patch(b: &[u8], pos: usize, new: &[u8]) -> Vec<u8> {
    let mut b = b.to_vec();
    println!(
        "    patch: offset {pos}..{}: {} -> {}",
        pos + new.len(),
        hex(&b[pos..pos + new.len()]),
        hex(new)
    );
    b[pos..pos + new.len()].copy_from_slice(new);
    b
}

#[derive(Clone, Copy, Debug, PartialEq)]
enum Variant {
    Mapped,
    File,
    Memory,
}

const VARIANTS: [Variant; 3] = [Variant::Mapped, Variant::File, Variant::Memory];

fn short(r: Result<QueryResult, DbError>) -> String {
    match r {
        Ok(r) => format!("Ok(result={}, elements={})", r.result, r.elements.len()),
        Err(e) => format!("Err({})", e.description),
    }
}

macro_rules! read_queries {
    ($db:expr) => {{
        let db = &$db;
        let mut out = vec![];
        out.push(("select ids a,b,c", short(db.exec(QueryBuilder::select().ids(["a", "b", "c"]).query()))));
        out.push(("select keys a", short(db.exec(QueryBuilder::select().keys().ids("a").query()))));
        out.push(("select key_count a", short(db.exec(QueryBuilder::select().key_count().ids("a").query()))));
        out.push(("select edge_count a", short(db.exec(QueryBuilder::select().edge_count().ids("a").query()))));
        out.push(("select aliases", short(db.exec(QueryBuilder::select().aliases().query()))));
        out.push(("select indexes", short(db.exec(QueryBuilder::select().indexes().query()))));
        out.push(("select node_count", short(db.exec(QueryBuilder::select().node_count().query()))));
        out.push(("search from a", short(db.exec(QueryBuilder::search().from("a").query()))));
        out.push(("search dfs from a", short(db.exec(QueryBuilder::search().depth_first().from("a").query()))));
        out.push(("search to c", short(db.exec(QueryBuilder::search().to("c").query()))));
        out.push(("search from a to c", short(db.exec(QueryBuilder::search().from("a").to("c").query()))));
        out.push(("search index k=1", short(db.exec(QueryBuilder::search().index("k").value(1_i64).query()))));
        out.push(("search elements", short(db.exec(QueryBuilder::search().elements().query()))));
        out
    }};
}

/// Writes `bytes` (and optional WAL) to a fresh file, opens it with `variant` and runs read queries.
fn open_and_read(
    name: &str,
    bytes: &[u8],
    wal: Option<&[u8]>,
    variant: Variant,
) -> Vec<(&'static str, String)> {
    let path = format!("{}/{name}.agdb", dir());
    let wal_path = format!("{}/.{name}.agdb", dir());
    let _ = std::fs::remove_file(&path);
    let _ = std::fs::remove_file(&wal_path);
    std::fs::write(&path, bytes).unwrap();
    if let Some(wal) = wal {
        std::fs::write(&wal_path, wal).unwrap();
    }
    let res = match variant {
        Variant::Mapped => match Db::new(&path) {
            Ok(db) => read_queries!(db),
            Err(e) => vec![("open", format!("Err({:?})", e.cause.map(|c| c.description)))],
        },
        Variant::File => match DbFile::new(&path) {
            Ok(db) => read_queries!(db),
            Err(e) => vec![("open", format!("Err({:?})", e.cause.map(|c| c.description)))],
        },
        Variant::Memory => match DbMemory::new(&path) {
            Ok(db) => read_queries!(db),
            Err(e) => vec![("open", format!("Err({:?})", e.cause.map(|c| c.description)))],
        },
    };
    let _ = std::fs::remove_file(&path);
    let _ = std::fs::remove_file(&wal_path);
    res
}

/// In-process check: returns a list of panic messages (empty = desired behaviour).
fn check(name: &str, bytes: &[u8], wal: Option<&[u8]>, variants: &[Variant]) -> Vec<String> {
    let mut failures = vec![];
    for &variant in variants {
        let r = std::panic::catch_unwind(|| open_and_read(name, bytes, wal, variant));
        match r {
            Ok(out) => {
                let errs = out.iter().filter(|(_, r)| r.starts_with("Err")).count();
                println!(
                    "[ok   ] {name} {variant:?}: no panic ({} results, {errs} errors; first: {} -> {})",
                    out.len(),
                    out[0].0,
                    out[0].1
                );
            }
            Err(e) => {
                let msg = e
                    .downcast_ref::<String>()
                    .cloned()
                    .or_else(|| e.downcast_ref::<&str>().map(|s| s.to_string()))
                    .unwrap_or_default();
                println!("[PANIC] {name} {variant:?}: {msg}");
                failures.push(format!("{name} {variant:?}: {msg}"));
            }
        }
    }
    failures
}

fn run_child(case: &str, timeout: Duration) -> (String, String) {
    let exe = std::env::current_exe().unwrap();
    let mut child = std::process::Command::new(exe)
        .args(["--exact", "child_case", "--ignored", "--nocapture", "--test-threads=1"])
        .env("F14_CASE", case)
        .env("F14_DIR", format!("{}/child", dir()))
        .env("RUST_BACKTRACE", "0")
        .stdout(std::process::Stdio::piped())
        .stderr(std::process::Stdio::piped())
        .spawn()
        .unwrap();
    let start = std::time::Instant::now();
    let status = loop {
        if let Some(s) = child.try_wait().unwrap() {
            break format!("{s}");
        }
        if start.elapsed() > timeout {
            child.kill().unwrap();
            child.wait().unwrap();
            break format!("TIMEOUT (killed after {timeout:?})");
        }
        std::thread::sleep(Duration::from_millis(20));
    };
    let out = child.wait_with_output().unwrap();
    let stdout = String::from_utf8_lossy(&out.stdout);
    for l in stdout.lines().filter(|l| l.contains("patch:") || l.starts_with("[")) {
        println!("    child> {l}");
    }
    let stderr = String::from_utf8_lossy(&out.stderr)
        .lines()
        .filter(|l| {
            l.contains("memory allocation")
                || l.contains("overflow")
                || l.contains("panicked")
                || l.contains("out of range")
        })
        .collect::<Vec<_>>()
        .join(" | ");
    println!("[child] {case}: status={status}; stderr: {stderr}");
    (status, stderr)
}

fn child_ok(case: &str) {
    let (status, stderr) = run_child(case, Duration::from_secs(60));
    assert!(status.contains("exit status: 0"), "{case}: {status} {stderr}");
}

// ---------------------------------------------------------------- F14a: DbValue::load_db_value

#[test]
fn f14a_load_db_value_unknown_type_tag() {
    let b = valid_db();
    let l = layout(&b);
    // value of ("k", 1) of node "a": meta byte 0x28 (type 2 = I64, size 8) -> 0xF8 (type 15)
    let m = patch(&b, l.node1_value_meta, &[0xF8]);
    let f = check("a_tag15", &m, None, &VARIANTS);
    // type 0 is also unknown
    let m = patch(&b, l.node1_value_meta, &[0x08]);
    let f2 = check("a_tag0", &m, None, &[Variant::File]);
    cleanup();
    assert!(f.is_empty() && f2.is_empty(), "{f:#?} {f2:#?}");
}

#[test]
fn f14a_load_db_value_bad_inline_size() {
    let b = valid_db();
    let l = layout(&b);
    // I64 with size nibble 4 instead of 8 -> copy_from_slice length mismatch
    let m = patch(&b, l.node1_value_meta, &[0x24]);
    let f = check("a_size4", &m, None, &VARIANTS);
    cleanup();
    assert!(f.is_empty(), "{f:#?}");
}

#[test]
fn f14a_load_db_value_index_key_at_open() {
    let b = valid_db();
    let l = layout(&b);
    // key of index "k": meta byte 0x51 (type 5 = String, size 1) -> 0xF1: panics inside Db*::new
    let m = patch(&b, l.index_key_meta, &[0xF1]);
    let f = check("a_index_key", &m, None, &VARIANTS);
    cleanup();
    assert!(f.is_empty(), "{f:#?}");
}

// ---------------------------------------------------------------- F14b: StorageRecords::set_record

#[test]
fn f14b_set_record_capacity_overflow() {
    let b = valid_db();
    let l = layout(&b);
    // storage index of an arbitrary record: 40 -> 2^60 (24 B per record => capacity overflow panic)
    let m = patch(&b, l.some_record_header, &(1_u64 << 60).to_le_bytes());
    let f = check("b_index_2p60", &m, None, &VARIANTS);
    cleanup();
    assert!(f.is_empty(), "{f:#?}");
}

#[test]
fn f14b_set_record_huge_allocation() {
    child_ok("b_index_2p44");
    cleanup();
}

// ---------------------------------------------------------------- F14c: MemoryStorage::read (+ FileStorage::read)

#[test]
fn f14c_truncated_file() {
    let b = valid_db();
    // last record's value is cut by one byte
    println!("    truncate: {} -> {} bytes", b.len(), b.len() - 1);
    let f = check("c_trunc1", &b[..b.len() - 1], None, &VARIANTS);
    // cut in the middle of the last record's header
    let (last_header, _, _) = record(&b, 3);
    println!("    truncate: {} -> {} bytes", b.len(), last_header + 10);
    let f2 = check("c_trunc_header", &b[..last_header + 10], None, &VARIANTS);
    cleanup();
    assert!(f.is_empty() && f2.is_empty(), "{f:#?} {f2:#?}");
}

#[test]
fn f14c_version_record_size() {
    let b = valid_db();
    // version record (offset 0: [index 0][size 8][version 1]): size 8 -> u64::MAX
    let m = patch(&b, 8, &u64::MAX.to_le_bytes());
    let f = check("c_version_size_max", &m, None, &VARIANTS);
    cleanup();
    assert!(f.is_empty(), "{f:#?}");
}

#[test]
fn f14c_version_record_size_huge_allocation() {
    // 32 byte file: [index 0][size 2^50][16 garbage bytes], opened with DbFile
    child_ok("c_version_size_2p50");
    cleanup();
}

// ---------------------------------------------------------------- F14d: graph search on damaged graph

#[test]
fn f14d_path_search_invalid_edge_target() {
    let b = valid_db();
    let l = layout(&b);
    // target of edge -4 (a -> b): -2 -> -100 (node 100 does not exist)
    let m = patch(&b, l.graph_to_4, &(-100_i64).to_le_bytes());
    let f = check("d_edge_to_100", &m, None, &VARIANTS);
    cleanup();
    assert!(f.is_empty(), "{f:#?}");
}

#[test]
fn f14d_search_bitset_huge_allocation() {
    // target of edge -4: -2 -> -(2^55): BitSet::set(2^55) => 2^52 B allocation
    child_ok("d_edge_to_2p55");
    cleanup();
}

#[test]
fn f14d_search_negate_min() {
    // graph `from` of node 1: 4 -> i64::MIN
    child_ok("d_from_min");
    cleanup();
}

// ---------------------------------------------------------------- F14e: WAL

#[test]
fn f14e_wal_garbage_is_handled() {
    // Negative result: garbage / truncated / oversized-record WAL is repaired (truncated), no panic.
    let b = valid_db();
    let mut failures = vec![];
    let ff = [0xff_u8; 100];
    let mut huge = 0_u64.to_le_bytes().to_vec();
    huge.extend((1_u64 << 62).to_le_bytes());
    huge.extend([1, 2, 3]);
    let mut neg = 0_u64.to_le_bytes().to_vec();
    neg.extend(u64::MAX.to_le_bytes());
    for (n, wal) in [
        ("e_wal_ff", &ff[..]),
        ("e_wal_short", &ff[..5]),
        ("e_wal_huge_size", &huge[..]),
        ("e_wal_neg_size", &neg[..]),
    ] {
        failures.extend(check(n, &b, Some(wal), &[Variant::Mapped, Variant::File]));
    }
    cleanup();
    assert!(failures.is_empty(), "{failures:#?}");
}

#[test]
fn f14e_wal_sparse_growth() {
    // Well-formed WAL record { pos = 2^40, size = 0 } => file.set_len(2^40) (sparse), then `Db`
    // (memory mapped) reads the whole file into memory: vec![0; 2^40].
    child_ok("e_wal_set_len_2p40");
    cleanup();
}

// ---------------------------------------------------------------- child cases

#[test]
#[ignore]
fn child_case() {
    let case = std::env::var("F14_CASE").unwrap_or_default();
    let b = valid_db();
    let l = layout(&b);
    let f = match case.as_str() {
        "b_index_2p44" => {
            let m = patch(&b, l.some_record_header, &(1_u64 << 44).to_le_bytes());
            check(&case, &m, None, &[Variant::File])
        }
        "c_version_size_2p50" => {
            let mut m = 0_u64.to_le_bytes().to_vec();
            m.extend((1_u64 << 50).to_le_bytes());
            m.extend([0xAB_u8; 16]);
            println!("    patch: whole file = {}", hex(&m));
            check(&case, &m, None, &[Variant::File])
        }
        "d_edge_to_2p55" => {
            let m = patch(&b, l.graph_to_4, &(-(1_i64 << 55)).to_le_bytes());
            check(&case, &m, None, &[Variant::File])
        }
        "d_from_min" => {
            let m = patch(&b, l.graph_from_1, &i64::MIN.to_le_bytes());
            check(&case, &m, None, &[Variant::File])
        }
        "e_wal_set_len_2p40" => {
            let mut wal = (1_u64 << 40).to_le_bytes().to_vec();
            wal.extend(0_u64.to_le_bytes());
            println!("    patch: WAL file = {}", hex(&wal));
            check(&case, &b, Some(&wal), &[Variant::Mapped])
        }
        _ => vec![],
    };
    assert!(f.is_empty(), "{f:#?}");
}
