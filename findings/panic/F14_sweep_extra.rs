use agdb::*;
use std::io::Write;

fn valid_db(path: &str) -> Vec<u8> {
    let _ = std::fs::remove_file(path);
    {
        let mut db = DbFile::new(path).unwrap();
        db.exec_mut(QueryBuilder::insert().index("k").query()).unwrap();
        db.exec_mut(QueryBuilder::insert().nodes().aliases(["a", "b", "c"]).values([
            [("k", 1_i64).into(), ("s", "short").into()],
            [("k", 2_i64).into(), ("s", "a long string value over 15 bytes").into()],
            [("k", 3_i64).into(), ("v", vec![1_i64, 2, 3]).into()],
        ]).query()).unwrap();
        db.exec_mut(QueryBuilder::insert().edges().from(["a", "b"]).to(["b", "c"]).query()).unwrap();
        db.optimize_storage().unwrap();
    }
    let b = std::fs::read(path).unwrap();
    let _ = std::fs::remove_file(path);
    b
}

fn run(bytes: Vec<u8>) {
    if let Ok(db) = DbMemory::with_data(MemoryStorage::from_buffer("sweep", bytes)) {
        let _ = db.exec(QueryBuilder::select().ids(["a", "b", "c"]).query());
        let _ = db.exec(QueryBuilder::select().ids([1, 2, 3, -4, -5]).query());
        let _ = db.exec(QueryBuilder::select().keys().ids("a").query());
        let _ = db.exec(QueryBuilder::select().key_count().ids("a").query());
        let _ = db.exec(QueryBuilder::select().edge_count().ids(["a", "b", "c"]).query());
        let _ = db.exec(QueryBuilder::select().aliases().query());
        let _ = db.exec(QueryBuilder::select().aliases().ids([1, 2, 3]).query());
        let _ = db.exec(QueryBuilder::select().indexes().query());
        let _ = db.exec(QueryBuilder::select().node_count().query());
        let _ = db.exec(QueryBuilder::search().from("a").query());
        let _ = db.exec(QueryBuilder::search().from(1).query());
        let _ = db.exec(QueryBuilder::search().depth_first().from("a").query());
        let _ = db.exec(QueryBuilder::search().to("c").query());
        let _ = db.exec(QueryBuilder::search().depth_first().to(3).query());
        let _ = db.exec(QueryBuilder::search().from("a").to("c").query());
        let _ = db.exec(QueryBuilder::search().from(1).to(3).query());
        let _ = db.exec(QueryBuilder::search().index("k").value(1_i64).query());
        let _ = db.exec(QueryBuilder::search().elements().query());
        let _ = db.exec(QueryBuilder::search().from("a").where_().key("k").value(Comparison::Equal(2.into())).query());
        let _ = db.exec(QueryBuilder::select().search().from("a").query());
    }
}

#[test]
#[ignore]
fn sweep() {
    let dir = std::env::var("SWEEP_DIR").unwrap();
    let start: usize = std::env::var("SWEEP_START").unwrap().parse().unwrap();
    let b = valid_db(&format!("{dir}/valid.agdb"));
    let muts: [fn(u8) -> u8; 6] = [|_| 0xFF, |_| 0x00, |_| 0x80, |x| x ^ 0x01, |x| x.wrapping_add(1), |_| 0x7F];
    let total = b.len() * muts.len();
    std::panic::set_hook(Box::new(|_| {}));
    for n in start..total {
        let (off, m) = (n / muts.len(), n % muts.len());
        let new = muts[m](b[off]);
        if new == b[off] { continue; }
        let mut f = std::fs::File::create(format!("{dir}/progress")).unwrap();
        write!(f, "{n} {off} {m} {:02x}->{new:02x}", b[off]).unwrap();
        drop(f);
        let mut mb = b.clone();
        mb[off] = new;
        if let Err(e) = std::panic::catch_unwind(|| run(mb)) {
            let msg = e.downcast_ref::<String>().cloned().or_else(|| e.downcast_ref::<&str>().map(|s| s.to_string())).unwrap_or_default();
            println!("PANIC n={n} off={off} {:02x}->{new:02x}: {msg}", b[off]);
        }
    }
    // truncations
    if start < total + b.len() {
        for len in start.saturating_sub(total)..b.len() {
            let mut f = std::fs::File::create(format!("{dir}/progress")).unwrap();
            write!(f, "{} trunc {len}", total + len).unwrap();
            drop(f);
            let mb = b[..len].to_vec();
            if let Err(e) = std::panic::catch_unwind(|| run(mb)) {
                let msg = e.downcast_ref::<String>().cloned().or_else(|| e.downcast_ref::<&str>().map(|s| s.to_string())).unwrap_or_default();
                println!("PANIC trunc len={len}: {msg}");
            }
        }
    }
    std::fs::write(format!("{dir}/progress"), "DONE").unwrap();
}
