// F13 demo (property P21): deserializing arbitrary bytes must yield Ok/Err, never panic/abort.
//
// Place this file at:  agdb/tests/f13_demo.rs
// Run (debug):         cargo test -p agdb --offline --test f13_demo -- --nocapture --test-threads=1
// Run (release):       cargo test -p agdb --offline --release --test f13_demo -- --nocapture --test-threads=1
//
// Every test asserts the DESIRED behaviour (no panic, no abort), so on an unfixed tree the
// tests FAIL and print the observed panic/abort message; with the F13*.fix.diff patches
// applied they pass, except `f13f_vec_of_zero_sized_type_hangs` (debug-build-only CPU hang, no fix
// provided; passes in --release) and `f13e_*` which needs F13e.fix.diff (apply after F13a.fix.diff).
// Cases that can abort the process (failed allocation, stack overflow)
// or hang are re-executed in a child process (the test binary re-invokes itself with
// F13_CASE=<name>), so the parent can report the abort message / signal.

use agdb::AgdbSerialize;
use agdb::DbValue;
use agdb::QueryCondition;
use agdb::QueryIds;
use agdb::SearchQuery;
use agdb::SelectNodeCountQuery;
use std::net::IpAddr;
use std::net::SocketAddr;
use std::path::PathBuf;
use std::time::Duration;
use std::time::SystemTime;

fn hex(b: &[u8]) -> String {
    b.iter().map(|x| format!("{x:02x}")).collect()
}

fn le(v: u64) -> Vec<u8> {
    v.to_le_bytes().to_vec()
}

/// Runs `f`, returns Err(panic message) if it panicked.
fn no_panic<T: std::fmt::Debug>(
    name: &str,
    bytes: &[u8],
    f: impl FnOnce() -> T + std::panic::UnwindSafe,
) -> Result<(), String> {
    match std::panic::catch_unwind(f) {
        Ok(r) => {
            let mut s = format!("{r:?}");
            s.truncate(160);
            println!("[ok   ] {name}: input={} -> {s}", hex(bytes));
            Ok(())
        }
        Err(e) => {
            let msg = e
                .downcast_ref::<String>()
                .cloned()
                .or_else(|| e.downcast_ref::<&str>().map(|s| s.to_string()))
                .unwrap_or_default();
            println!("[PANIC] {name}: input={} -> panic: {msg}", hex(bytes));
            Err(format!("{name}: {msg}"))
        }
    }
}

// ---------------------------------------------------------------- inputs

/// F13a: Vec<T> length prefix so large that len * size_of::<T>() > isize::MAX.
fn vec_len_capacity_overflow() -> Vec<u8> {
    le(1 << 60)
}

/// F13a: Vec<T> length prefix 2^47: 2^50 bytes for i64 -> allocation fails -> abort.
fn vec_len_alloc_abort() -> Vec<u8> {
    le(1 << 47)
}

/// F13b: SystemTime { secs = u64::MAX, nanos = u32::MAX, after epoch }.
fn system_time_overflow() -> Vec<u8> {
    let mut b = le(u64::MAX);
    b.extend(u32::MAX.to_le_bytes());
    b.push(1);
    b
}

/// F13c: String / Vec<u8> length prefix u64::MAX (begin + len overflows).
fn len_max() -> Vec<u8> {
    le(u64::MAX)
}

/// F13d: Vec<IpAddr> with len 2 whose first element "::ffff:a0a:a0a" (14 bytes) re-serializes
/// to the longer "::ffff:10.10.10.10" (18 bytes), so `begin` runs past the end of the buffer.
fn vec_ip_addr() -> Vec<u8> {
    let s = "::ffff:a0a:a0a";
    let mut b = le(2);
    b.extend(le(s.len() as u64));
    b.extend(s.as_bytes());
    b
}

/// F13e: QueryCondition nested `depth` times through QueryConditionData::Where(Vec<QueryCondition>).
fn nested_conditions(depth: usize) -> Vec<u8> {
    let mut b = Vec::with_capacity(depth * 11 + 3);
    for _ in 0..depth {
        b.extend([0_u8, 0_u8, 9_u8]); // logic=And, modifier=None, data=Where
        b.extend(le(1)); // 1 nested condition
    }
    b.extend([0_u8, 0_u8, 1_u8]); // innermost: Edge
    b
}

// ---------------------------------------------------------------- in-process (catchable) cases

#[test]
fn f13a_vec_capacity_overflow_panics() {
    let b = vec_len_capacity_overflow();
    let mut failures = vec![];
    let mut check = |r: Result<(), String>| {
        if let Err(e) = r {
            failures.push(e)
        }
    };

    check(no_panic("Vec<i64>::deserialize", &b, || {
        Vec::<i64>::deserialize(&b).map(|v| v.len())
    }));
    check(no_panic("Vec<String>::deserialize", &b, || {
        Vec::<String>::deserialize(&b).map(|v| v.len())
    }));

    // DbValue::VecI64 (enum tag 5) + huge length
    let mut v = vec![5_u8];
    v.extend(&b);
    check(no_panic("DbValue::deserialize (VecI64)", &v, || {
        DbValue::deserialize(&v)
    }));

    // QueryIds::Ids (enum tag 0) + huge length
    let mut q = vec![0_u8];
    q.extend(&b);
    check(no_panic("QueryIds::deserialize (Ids)", &q, || {
        QueryIds::deserialize(&q)
    }));

    // SearchQuery: algorithm=0, origin=Id(0), destination=Id(0), limit, offset, order_by len huge
    let mut s = vec![0_u8];
    s.extend([0_u8]);
    s.extend(le(0));
    s.extend([0_u8]);
    s.extend(le(0));
    s.extend(le(0));
    s.extend(le(0));
    s.extend(&b);
    check(no_panic("SearchQuery::deserialize (order_by)", &s, || {
        SearchQuery::deserialize(&s)
    }));

    // TryFrom<DbValue> for Vec<T>: bytes -> Vec<DbValue>
    check(no_panic("Vec<i64>::try_from(DbValue::Bytes)", &b, || {
        Vec::<i64>::try_from(DbValue::Bytes(b.clone()))
    }));
    check(no_panic("Vec<String>::try_from(DbValue::Bytes)", &b, || {
        Vec::<String>::try_from(DbValue::Bytes(b.clone()))
    }));

    assert!(failures.is_empty(), "panics: {failures:#?}");
}

#[test]
fn f13b_system_time_panics() {
    let b = system_time_overflow();
    let mut failures = vec![];
    let mut check = |r: Result<(), String>| {
        if let Err(e) = r {
            failures.push(e)
        }
    };

    check(no_panic("SystemTime::deserialize", &b, || {
        SystemTime::deserialize(&b)
    }));
    check(no_panic("SystemTime::try_from(DbValue::Bytes)", &b, || {
        SystemTime::try_from(DbValue::Bytes(b.clone()))
    }));
    let mut v = le(1);
    v.extend(&b);
    check(no_panic("Vec<SystemTime>::deserialize", &v, || {
        Vec::<SystemTime>::deserialize(&v)
    }));
    // before-epoch flag, max in-range values: must be an error (checked_sub), not a panic
    let mut c = le(u64::MAX);
    c.extend(999_999_999_u32.to_le_bytes());
    c.push(0);
    check(no_panic("SystemTime::deserialize (before epoch)", &c, || {
        SystemTime::deserialize(&c)
    }));

    assert!(failures.is_empty(), "panics: {failures:#?}");
}

#[test]
fn f13c_string_bytes_len_overflow_panics() {
    let b = len_max();
    let mut failures = vec![];
    let mut check = |r: Result<(), String>| {
        if let Err(e) = r {
            failures.push(e)
        }
    };

    check(no_panic("String::deserialize", &b, || {
        String::deserialize(&b)
    }));
    check(no_panic("Vec<u8>::deserialize", &b, || {
        Vec::<u8>::deserialize(&b)
    }));
    check(no_panic("PathBuf::deserialize", &b, || {
        PathBuf::deserialize(&b)
    }));
    check(no_panic("SocketAddr::deserialize", &b, || {
        SocketAddr::deserialize(&b)
    }));
    check(no_panic("IpAddr::deserialize", &b, || {
        IpAddr::deserialize(&b)
    }));
    let mut v = vec![4_u8]; // DbValue::String
    v.extend(&b);
    check(no_panic("DbValue::deserialize (String)", &v, || {
        DbValue::deserialize(&v)
    }));
    let mut v = vec![0_u8]; // DbValue::Bytes
    v.extend(&b);
    check(no_panic("DbValue::deserialize (Bytes)", &v, || {
        DbValue::deserialize(&v)
    }));

    assert!(failures.is_empty(), "panics: {failures:#?}");
}

#[test]
fn f13d_size_mismatch_slice_panics() {
    let b = vec_ip_addr();
    let mut failures = vec![];
    let mut check = |r: Result<(), String>| {
        if let Err(e) = r {
            failures.push(e)
        }
    };

    check(no_panic("Vec<IpAddr>::deserialize", &b, || {
        Vec::<IpAddr>::deserialize(&b)
    }));

    #[derive(agdb::DbSerialize, Debug)]
    struct User {
        ip: IpAddr,
        id: u64,
    }
    let u = &b[8..];
    check(no_panic("derive(DbSerialize) struct {IpAddr,u64}", u, || {
        User::deserialize(u)
    }));

    assert!(failures.is_empty(), "panics: {failures:#?}");
}

#[test]
fn other_impls_do_not_panic() {
    // Negative results: none of these panic on short / garbage / out-of-range input.
    let mut failures = vec![];
    let mut check = |r: Result<(), String>| {
        if let Err(e) = r {
            failures.push(e)
        }
    };
    let empty: [u8; 0] = [];
    let ff = [0xff_u8; 40];

    for (n, b) in [("empty", &empty[..]), ("ff*40", &ff[..]), ("ff*3", &ff[..3])] {
        check(no_panic(&format!("u64 {n}"), b, || u64::deserialize(b)));
        check(no_panic(&format!("i64 {n}"), b, || i64::deserialize(b)));
        check(no_panic(&format!("f64 {n}"), b, || f64::deserialize(b)));
        check(no_panic(&format!("usize {n}"), b, || usize::deserialize(b)));
        check(no_panic(&format!("bool {n}"), b, || bool::deserialize(b)));
        check(no_panic(&format!("DbValue {n}"), b, || {
            DbValue::deserialize(b)
        }));
        check(no_panic(&format!("QueryIds {n}"), b, || {
            QueryIds::deserialize(b)
        }));
        check(no_panic(&format!("QueryCondition {n}"), b, || {
            QueryCondition::deserialize(b)
        }));
        check(no_panic(&format!("SearchQuery {n}"), b, || {
            SearchQuery::deserialize(b)
        }));
        check(no_panic(&format!("agdb::DbKeyValue {n}"), b, || {
            agdb::DbKeyValue::deserialize(b)
        }));
    }
    // enum tag only, fields missing: `&buffer[1..]` on a 1 byte buffer is fine (empty slice)
    for tag in 0_u8..12 {
        let b = [tag];
        check(no_panic("DbValue tag only", &b, || DbValue::deserialize(&b)));
        check(no_panic("QueryConditionData tag only", &b, || {
            agdb::QueryConditionData::deserialize(&b)
        }));
    }
    // truncated in the middle of every prefix of a valid value
    let valid = DbValue::VecString(vec!["a".to_string(), "bc".to_string()]).serialize();
    for i in 0..valid.len() {
        let b = &valid[..i];
        check(no_panic("DbValue truncated", b, || DbValue::deserialize(b)));
    }
    // TryFrom<DbValue> conversions with wrong/garbage content
    check(no_panic("Vec<i64>::try_from(Bytes ff*3)", &ff[..3], || {
        Vec::<i64>::try_from(DbValue::Bytes(ff[..3].to_vec()))
    }));
    check(no_panic("SystemTime::try_from(Bytes ff*3)", &ff[..3], || {
        SystemTime::try_from(DbValue::Bytes(ff[..3].to_vec()))
    }));
    check(no_panic("u32::try_from(U64 MAX)", &[], || {
        u32::try_from(DbValue::U64(u64::MAX))
    }));
    check(no_panic("i32::try_from(I64 MIN)", &[], || {
        i32::try_from(DbValue::I64(i64::MIN))
    }));
    check(no_panic("i64::try_from(U64 MAX)", &[], || {
        i64::try_from(DbValue::U64(u64::MAX))
    }));
    check(no_panic("u64::try_from(F64 -1e300)", &[], || {
        u64::try_from(DbValue::F64((-1e300_f64).into()))
    }));
    check(no_panic("SocketAddr::try_from(String garbage)", &[], || {
        SocketAddr::try_from(DbValue::String("x".into()))
    }));

    assert!(failures.is_empty(), "panics: {failures:#?}");
}

// ---------------------------------------------------------------- child-process (abort / hang) cases

fn run_child(case: &str, timeout: Duration) -> (String, String) {
    let exe = std::env::current_exe().unwrap();
    let mut child = std::process::Command::new(exe)
        .args(["--exact", "child_case", "--ignored", "--nocapture", "--test-threads=1"])
        .env("F13_CASE", case)
        .stdout(std::process::Stdio::piped())
        .stderr(std::process::Stdio::piped())
        .spawn()
        .unwrap();
    let start = std::time::Instant::now();
    let status = loop {
        if let Some(s) = child.try_wait().unwrap() {
            break format!("{s}");
        }
        if start.elapsed() > timeout {
            child.kill().unwrap();
            child.wait().unwrap();
            break format!("TIMEOUT (killed after {timeout:?})");
        }
        std::thread::sleep(Duration::from_millis(20));
    };
    let out = child.wait_with_output().unwrap();
    let stderr = String::from_utf8_lossy(&out.stderr)
        .lines()
        .filter(|l| {
            l.contains("memory allocation")
                || l.contains("overflow")
                || l.contains("panicked")
                || l.contains("SIG")
        })
        .collect::<Vec<_>>()
        .join(" | ");
    println!("[child] {case}: status={status}; stderr: {stderr}");
    (status, stderr)
}

#[test]
#[ignore]
fn child_case() {
    let case = std::env::var("F13_CASE").unwrap_or_default();
    match case.as_str() {
        "vec_i64_alloc" => {
            let b = vec_len_alloc_abort();
            println!("{:?}", Vec::<i64>::deserialize(&b).map(|v| v.len()));
        }
        "dbvalue_vec_u64_alloc" => {
            let mut b = vec![6_u8];
            b.extend(vec_len_alloc_abort());
            println!("{:?}", DbValue::deserialize(&b));
        }
        "try_from_bytes_alloc" => {
            let b = vec_len_alloc_abort();
            println!("{:?}", Vec::<u64>::try_from(DbValue::Bytes(b)));
        }
        "nested_conditions" => {
            let b = nested_conditions(200_000);
            println!("{:?}", QueryCondition::deserialize(&b).is_ok());
        }
        "vec_zst_hang" => {
            let b = le(u64::MAX / 2);
            println!(
                "{:?}",
                Vec::<SelectNodeCountQuery>::deserialize(&b).map(|v| v.len())
            );
        }
        _ => {}
    }
}

#[test]
fn f13a_vec_huge_allocation_aborts() {
    let mut failures = vec![];
    for case in ["vec_i64_alloc", "dbvalue_vec_u64_alloc", "try_from_bytes_alloc"] {
        println!("input (len prefix) = {}", hex(&vec_len_alloc_abort()));
        let (status, stderr) = run_child(case, Duration::from_secs(60));
        if !status.contains("exit status: 0") {
            failures.push(format!("{case}: {status} {stderr}"));
        }
    }
    assert!(failures.is_empty(), "aborts: {failures:#?}");
}

#[test]
fn f13e_nested_conditions_stack_overflow() {
    println!(
        "input = ({}) * 200000 + 000001  [{} bytes]",
        hex(&nested_conditions(1)[..11]),
        nested_conditions(200_000).len()
    );
    let (status, stderr) = run_child("nested_conditions", Duration::from_secs(60));
    assert!(status.contains("exit status: 0"), "{status} {stderr}");
}

#[test]
fn f13f_vec_of_zero_sized_type_hangs() {
    println!("input = {}", hex(&le(u64::MAX / 2)));
    let (status, stderr) = run_child("vec_zst_hang", Duration::from_secs(10));
    assert!(status.contains("exit status: 0"), "{status} {stderr}");
}
