// F15 demo (properties C07): opening a damaged *legacy* (pre 0.11) database file aborts the process.
//
// Place this file at:  agdb/tests/legacy_demo.rs   (uses the repo's own tests/test_db_prior_0_11_0.agdb)
// Run:                 cargo test -p agdb --offline --test legacy_demo -- --nocapture --test-threads=1
//                      LEGACY_FREE=1 cargo test ... legacy_conversion_huge_db_id_file   (move_to_end variant)
//
// One 8-byte change (file offset 2704: key 1 of the legacy `values` multi-map, 0100000000000000 -> 0000000000200000,
// i.e. DbId(2^45)).  Observed on /repo HEAD e6a3b5b (debug build, no ulimit):
//   DbFile::new / DbMemory::new -> "memory allocation of 281474976710664 bytes failed" (abort) in
//     Storage::enlarge_at_end (storage.rs:475) <- enlarge_value <- resize_value <- DbVecData::reallocate <- VecImpl::reserve
//     <- VecImpl::resize <- DbKeyValues::insert_value (db_key_value.rs:55) <- legacy::convert_to_current_version (db.rs:1447)
//   with LEGACY_FREE=1 (record 7 at offset 2272 additionally turned into a free region, index 07.. -> 00..):
//     "memory allocation of 281474976710672 bytes failed" in Storage::move_to_end (storage.rs:538, Vec::resize)
// Any file whose record 1 is 40..47 bytes long takes the legacy conversion path, so this is reachable from any
// damaged file, not only from genuine old databases.
//
// Legacy (pre 0.11) database whose `values` multi-map contains a huge DbId key: opening the file runs
// legacy::convert_to_current_version -> DbKeyValues::insert_value(db_id.as_index()) -> DbVec::resize(index + 1)
// -> Storage::resize_value(8 + 8 * (index + 1)) -> enlarge_* -> vec![0; new_size - old_size].
use agdb::DbFile;
use agdb::DbMemory;

fn patched() -> Vec<u8> {
    let mut bytes = std::fs::read("tests/test_db_prior_0_11_0.agdb").unwrap();
    let off = 2704; // record 17 (keys of the legacy values map): pos 2672 + 16 header + 8 len + 8 * 1
    assert_eq!(u64::from_le_bytes(bytes[off..off + 8].try_into().unwrap()), 1);
    let id: u64 = std::env::var("LEGACY_ID").ok().and_then(|v| v.parse().ok()).unwrap_or(1 << 45);
    bytes[off..off + 8].copy_from_slice(&id.to_le_bytes());
    if std::env::var("LEGACY_FREE").is_ok() {
        // turn record 7 (pos 2272, size 8) into a free region so that the new `values` vector is not the last record
        assert_eq!(u64::from_le_bytes(bytes[2272..2280].try_into().unwrap()), 7);
        bytes[2272..2280].copy_from_slice(&0_u64.to_le_bytes());
    }
    bytes
}

#[test]
fn legacy_conversion_huge_db_id_file() {
    let path = std::env::temp_dir().join(format!("legacy_demo_{}.agdb", std::process::id()));
    std::fs::write(&path, patched()).unwrap();
    let r = DbFile::new(path.to_str().unwrap());
    println!("DbFile result: {:?}", r.map(|_| ()));
}

#[test]
fn legacy_conversion_huge_db_id_memory() {
    let path = std::env::temp_dir().join(format!("legacy_demo_m_{}.agdb", std::process::id()));
    std::fs::write(&path, patched()).unwrap();
    let r = DbMemory::new(path.to_str().unwrap());
    println!("DbMemory result: {:?}", r.map(|_| ()));
}
