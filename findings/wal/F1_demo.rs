// F1 demo: FileStorage::apply_wal replays the undo log oldest-first.
//
// PLACE AT: agdb/tests/wal_f1_demo.rs   (integration test, public API only)
// RUN WITH: CARGO_NET_OFFLINE=true cargo test -p agdb --offline --test wal_f1_demo
//
// Every test simulates a crash by copying the data file and its `.`-prefixed
// WAL file to a new name while a "transaction" (= writes not yet followed by
// StorageData::flush(), which is what Storage::commit() of the outermost
// transaction calls) is open, and then opening the copy which triggers
// recovery (FileStorage::new -> apply_wal). The `_drop` variant instead drops
// the storage without flush() which runs the same recovery from Drop.

use agdb::FileStorage;
use agdb::StorageData;

struct Files(Vec<String>);

impl Files {
    fn new(names: &[&str]) -> Self {
        let f = Self(names.iter().map(|n| n.to_string()).collect());
        f.clean();
        f
    }
    fn clean(&self) {
        for n in &self.0 {
            let _ = std::fs::remove_file(n);
            let _ = std::fs::remove_file(wal_name(n));
        }
    }
}

impl Drop for Files {
    fn drop(&mut self) {
        self.clean();
    }
}

fn wal_name(name: &str) -> String {
    format!(".{name}")
}

/// "kill -9": the on-disk state (data + WAL) at this instant, under a new name.
fn crash_copy(from: &str, to: &str) {
    std::fs::copy(from, to).unwrap();
    std::fs::copy(wal_name(from), wal_name(to)).unwrap();
}

/// Reopen (=> recovery) and return the resulting file content.
fn recover(name: &str) -> Vec<u8> {
    drop(FileStorage::new(name).unwrap());
    std::fs::read(name).unwrap()
}

#[test]
fn f1_same_region_written_twice_crash() {
    let (name, crashed) = ("wal_f1_a.testfile", "wal_f1_a_crashed.testfile");
    let _files = Files::new(&[name, crashed]);

    let mut storage = FileStorage::new(name).unwrap();
    storage.write(0, b"AAAAAAAA").unwrap();
    storage.flush().unwrap(); // outermost transaction completed: committed = "AAAAAAAA"

    storage.write(0, b"BBBBBBBB").unwrap(); // new transaction, 1st write
    storage.write(0, b"CCCCCCCC").unwrap(); // same transaction, same region
    crash_copy(name, crashed); // process dies here

    assert_eq!(
        String::from_utf8(recover(crashed)).unwrap(),
        "AAAAAAAA",
        "recovered content differs from the last committed content"
    );
}

#[test]
fn f1_same_region_written_twice_drop() {
    let name = "wal_f1_b.testfile";
    let _files = Files::new(&[name]);

    let mut storage = FileStorage::new(name).unwrap();
    storage.write(0, b"AAAAAAAA").unwrap();
    storage.flush().unwrap();

    storage.write(0, b"BBBBBBBB").unwrap();
    storage.write(0, b"CCCCCCCC").unwrap();
    drop(storage); // dropped with unfinished transaction

    assert_eq!(
        String::from_utf8(std::fs::read(name).unwrap()).unwrap(),
        "AAAAAAAA",
        "content after drop differs from the last committed content"
    );
}

#[test]
fn f1_two_appends_crash() {
    // Two appends in one transaction (exactly what Storage::insert_bytes does:
    // write_record() at len, then append()). The log is [(8, []), (16, [])];
    // oldest-first replay does set_len(8) then set_len(16) => the file keeps
    // the uncommitted length (zero filled) instead of the committed one.
    let (name, crashed) = ("wal_f1_c.testfile", "wal_f1_c_crashed.testfile");
    let _files = Files::new(&[name, crashed]);

    let mut storage = FileStorage::new(name).unwrap();
    storage.write(0, b"AAAAAAAA").unwrap();
    storage.flush().unwrap(); // committed = 8 bytes

    storage.write(8, b"BBBBBBBB").unwrap();
    storage.write(16, b"CCCCCCCC").unwrap();
    crash_copy(name, crashed);

    assert_eq!(
        recover(crashed),
        b"AAAAAAAA".to_vec(),
        "recovered content differs from the last committed content"
    );
}
