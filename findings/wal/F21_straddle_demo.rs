// Demonstration (C01): a write that straddles the end of the file inside an unfinished transaction.
// place at agdb/tests/straddle_demo_test.rs ; run: cargo test -p agdb --offline --test straddle_demo_test
use agdb::FileStorage;
use agdb::StorageData;

#[test]
fn straddling_write_is_undone_completely() {
    let name = "straddle_demo_test.agdb";
    let _ = std::fs::remove_file(name);
    let _ = std::fs::remove_file(format!(".{name}"));
    {
        let mut s = FileStorage::new(name).unwrap();
        s.write(0, b"AAAAAAAA").unwrap();
        s.flush().unwrap(); // commit: 8 bytes
        s.write(4, b"BBBBBBBB").unwrap(); // pos 4 < len 8 < end 12, not committed
        // dropped with an unfinished transaction: the log is replayed
    }
    let s = FileStorage::new(name).unwrap();
    let len = s.len();
    let content = s.read(0, std::cmp::min(len, 8)).unwrap().to_vec();
    drop(s);
    let _ = std::fs::remove_file(name);
    let _ = std::fs::remove_file(format!(".{name}"));
    assert_eq!(content, b"AAAAAAAA".to_vec());
    assert_eq!(len, 8, "the file must have its committed length after recovery");
}
