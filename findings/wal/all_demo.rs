// Combined demo for F1 + F2 + F3 (needs all.fix.diff to pass).
//
// PLACE AT: agdb/tests/wal_all_demo.rs   (integration test, public API only)
// RUN WITH: CARGO_NET_OFFLINE=true cargo test -p agdb --offline --test wal_all_demo
//
// 1) `crashed_database_creation`: the exact StorageData call sequence of
//    Storage::validate_or_update_version() on a new file, crash before its
//    commit. Needs F1 + F3.
// 2) `crash_at_every_instant`: a real `DbImpl` runs on top of `CrashCam`, a
//    StorageData wrapper around FileStorage that after EVERY write()/resize()
//    takes a "kill -9" snapshot (copy of data file + `.`-prefixed WAL file),
//    reopens the snapshot with FileStorage::new (=> recovery) and compares
//    the result with the file content at the last flush() (= completion of
//    the last outermost storage transaction).

use agdb::DbError;
use agdb::DbFile;
use agdb::DbImpl;
use agdb::FileStorage;
use agdb::QueryBuilder;
use agdb::StorageData;
use agdb::StorageSlice;
use std::sync::Mutex;

struct Files(Vec<String>);

impl Files {
    fn new(names: &[&str]) -> Self {
        let f = Self(names.iter().map(|n| n.to_string()).collect());
        f.clean();
        f
    }
    fn clean(&self) {
        for n in &self.0 {
            let _ = std::fs::remove_file(n);
            let _ = std::fs::remove_file(wal_name(n));
        }
    }
}

impl Drop for Files {
    fn drop(&mut self) {
        self.clean();
    }
}

fn wal_name(name: &str) -> String {
    format!(".{name}")
}

fn crash_copy(from: &str, to: &str) {
    std::fs::copy(from, to).unwrap();
    std::fs::copy(wal_name(from), wal_name(to)).unwrap();
}

fn recover(name: &str) -> Vec<u8> {
    drop(FileStorage::new(name).unwrap());
    std::fs::read(name).unwrap()
}

#[test]
fn crashed_database_creation() {
    let (name, crashed) = ("wal_all_a.testfile", "wal_all_a_crashed.testfile");
    let _files = Files::new(&[name, crashed]);

    let mut storage = FileStorage::new(name).unwrap(); // committed = empty file
    storage.resize(24).unwrap();
    storage.write(0, &[0_u8; 16]).unwrap(); // version record header (index 0, size 8); value irrelevant here
    storage.write(16, &1_u64.to_le_bytes()).unwrap(); // version
    crash_copy(name, crashed);

    let recovered = recover(crashed);
    assert_eq!(
        recovered.len(),
        0,
        "recovered file is not empty (content: {recovered:?})"
    );

    // With 24 zero bytes left behind this fails forever with
    // "Invalid version record size (0 < 8)".
    DbFile::new(crashed).unwrap();
}

static SNAPSHOTS: Mutex<u64> = Mutex::new(0);
static FAILURES: Mutex<Vec<String>> = Mutex::new(Vec::new());

struct CrashCam {
    inner: FileStorage,
    committed: Vec<u8>,
}

impl CrashCam {
    fn snapshot(&self, op: String) {
        let name = self.inner.name().to_string();
        let crashed = format!("{name}.crashed");
        crash_copy(&name, &crashed);
        let recovered = recover(&crashed);
        let _ = std::fs::remove_file(&crashed);
        let _ = std::fs::remove_file(wal_name(&crashed));
        let mut n = SNAPSHOTS.lock().unwrap();
        *n += 1;

        if recovered != self.committed {
            let first_diff = recovered
                .iter()
                .zip(self.committed.iter())
                .position(|(a, b)| a != b);
            FAILURES.lock().unwrap().push(format!(
                "snapshot #{} after {op}: recovered len {} vs committed len {}, first differing byte within common prefix: {first_diff:?}",
                *n,
                recovered.len(),
                self.committed.len()
            ));
        }
    }
}

impl StorageData for CrashCam {
    fn backup(&self, name: &str) -> Result<(), DbError> {
        self.inner.backup(name)
    }

    fn copy(&self, name: &str) -> Result<Self, DbError> {
        Ok(Self {
            inner: self.inner.copy(name)?,
            committed: self.committed.clone(),
        })
    }

    fn flush(&mut self) -> Result<(), DbError> {
        self.inner.flush()?;
        self.committed = std::fs::read(self.inner.name())?;
        Ok(())
    }

    fn len(&self) -> u64 {
        self.inner.len()
    }

    fn name(&self) -> &str {
        self.inner.name()
    }

    fn new(name: &str) -> Result<Self, DbError> {
        let inner = FileStorage::new(name)?;
        let committed = std::fs::read(name)?;
        Ok(Self { inner, committed })
    }

    fn read(&'_ self, pos: u64, value_len: u64) -> Result<StorageSlice<'_>, DbError> {
        self.inner.read(pos, value_len)
    }

    fn rename(&mut self, new_name: &str) -> Result<(), DbError> {
        self.inner.rename(new_name)
    }

    fn resize(&mut self, new_len: u64) -> Result<(), DbError> {
        let old_len = self.inner.len();
        self.inner.resize(new_len)?;
        self.snapshot(format!("resize({old_len} -> {new_len})"));
        Ok(())
    }

    fn write(&mut self, pos: u64, bytes: &[u8]) -> Result<(), DbError> {
        let len = self.inner.len();
        self.inner.write(pos, bytes)?;
        self.snapshot(format!("write(pos {pos}, {} bytes; len was {len})", bytes.len()));
        Ok(())
    }
}

#[test]
fn crash_at_every_instant() {
    let name = "wal_all_b.testfile";
    let _files = Files::new(&[name, "wal_all_b.testfile.crashed"]);

    // database creation
    let mut db = DbImpl::<CrashCam>::with_data(CrashCam::new(name).unwrap()).unwrap();

    db.exec_mut(QueryBuilder::insert().index("k").query())
        .unwrap();
    db.exec_mut(
        QueryBuilder::insert()
            .nodes()
            .aliases(["a", "b", "c"])
            .values_uniform([
                ("k", 1).into(),
                ("long", "a string longer than fifteen bytes").into(),
            ])
            .query(),
    )
    .unwrap();
    db.exec_mut(
        QueryBuilder::insert()
            .edges()
            .from(["a", "b"])
            .to("c")
            .values_uniform([("w", 1.5).into()])
            .query(),
    )
    .unwrap();
    db.exec_mut(
        QueryBuilder::insert()
            .values([[("k", 2).into(), ("new", "value").into()]])
            .ids("a")
            .query(),
    )
    .unwrap();
    db.exec_mut(QueryBuilder::remove().values("long").ids(["a", "b"]).query())
        .unwrap();
    db.exec_mut(QueryBuilder::remove().values("k").ids("c").query())
        .unwrap();
    db.exec_mut(QueryBuilder::remove().aliases("b").query())
        .unwrap();
    db.exec_mut(QueryBuilder::remove().ids("c").query()).unwrap();
    db.transaction_mut(|t| -> Result<(), DbError> {
        t.exec_mut(QueryBuilder::insert().nodes().count(3).query())?;
        t.exec_mut(QueryBuilder::remove().ids("a").query())?;
        Err(DbError::from(std::io::Error::other("rollback")))
    })
    .unwrap_err();
    db.exec_mut(QueryBuilder::remove().index("k").query())
        .unwrap();
    db.optimize_storage().unwrap();
    db.shrink_to_fit().unwrap();

    let snapshots = *SNAPSHOTS.lock().unwrap();
    let failures = FAILURES.lock().unwrap();
    let shown = failures
        .iter()
        .take(8)
        .cloned()
        .collect::<Vec<_>>()
        .join("\n  ");
    assert!(
        failures.is_empty(),
        "{} of {snapshots} crash snapshots did NOT recover to the last committed content:\n  {shown}\n  ...",
        failures.len()
    );
    println!("all {snapshots} crash snapshots recovered to the last committed content");
}
