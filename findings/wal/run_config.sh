#!/bin/bash
# usage: run_config.sh <F1|F2|F3|all|none>   -- (re)creates the config in /tmp/wt_wal and runs the full agdb test-suite
set -e
cfg=$1
O=/tmp/repro_out/wal
cd /tmp/wt_wal
git checkout -q agdb/src/storage/file_storage.rs
rm -f agdb/tests/wal_*_demo.rs
[ "$cfg" != none ] && git apply $O/$cfg.fix.diff
insert_dbvec() { python3 - <<'PY'
p='/tmp/wt_wal/agdb/src/storage/file_storage.rs'
s=open(p).read()
body=open('/tmp/repro_out/wal/F2_dbvec_demo.rs').read()
s=s.rstrip()[:-1].rstrip()+"\n\n"+body+"}\n"
open(p,'w').write(s)
PY
}
case $cfg in
  F1) cp $O/F1_demo.rs agdb/tests/wal_f1_demo.rs;;
  F2) cp $O/F2_demo.rs agdb/tests/wal_f2_demo.rs; insert_dbvec;;
  F3) cp $O/F3_demo.rs agdb/tests/wal_f3_demo.rs;;
  all|none) cp $O/F1_demo.rs agdb/tests/wal_f1_demo.rs; cp $O/F2_demo.rs agdb/tests/wal_f2_demo.rs; cp $O/F3_demo.rs agdb/tests/wal_f3_demo.rs; cp $O/all_demo.rs agdb/tests/wal_all_demo.rs; insert_dbvec;;
esac
export RUST_BACKTRACE=0 CARGO_NET_OFFLINE=true CARGO_TARGET_DIR=/tmp/wt_wal_target
cargo test -p agdb --offline --no-fail-fast > $O/test_with_$cfg.log 2>&1 || true
grep -E "test result|FAILED|panicked|^error" $O/test_with_$cfg.log | grep -v "^test .* ok$" | grep -v "test result: ok. [0-9]* passed; 0 failed" || true
grep -A1 -E "Running (unittests|tests/wal_)" $O/test_with_$cfg.log | grep -E "Running|test result" || true
python3 - "$O/test_with_$cfg.log" <<'PY'
import re,sys
p=f=0
for m in re.finditer(r"test result: \w+\. (\d+) passed; (\d+) failed", open(sys.argv[1]).read()):
    p+=int(m.group(1)); f+=int(m.group(2))
print(f"TOTAL passed={p} failed={f}")
PY
