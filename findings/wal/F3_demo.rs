// F3 demo: FileStorage::resize() on growth logs the NEW length instead of the
// current one, so recovery leaves the file enlarged.
//
// PLACE AT: agdb/tests/wal_f3_demo.rs   (integration test, public API only)
// RUN WITH: CARGO_NET_OFFLINE=true cargo test -p agdb --offline --test wal_f3_demo
//
// Crash simulation: copy data file + `.`-prefixed WAL file while operations
// are not yet followed by StorageData::flush() (= outermost
// Storage::commit()), then open the copy (=> recovery). `_drop` variant: drop
// without flush().
//
// The only growing resize() issued by agdb itself is in
// Storage::validate_or_update_version() (creation of a new database / upgrade
// of a pre-0.11 file): resize(len + 24), write header, write version. That
// sequence is covered by `crashed_database_creation` in wal_all_demo.rs which
// needs F1 (newest-first replay) AND F3 to pass; the tests here need only F3.

use agdb::FileStorage;
use agdb::StorageData;

struct Files(Vec<String>);

impl Files {
    fn new(names: &[&str]) -> Self {
        let f = Self(names.iter().map(|n| n.to_string()).collect());
        f.clean();
        f
    }
    fn clean(&self) {
        for n in &self.0 {
            let _ = std::fs::remove_file(n);
            let _ = std::fs::remove_file(wal_name(n));
        }
    }
}

impl Drop for Files {
    fn drop(&mut self) {
        self.clean();
    }
}

fn wal_name(name: &str) -> String {
    format!(".{name}")
}

fn crash_copy(from: &str, to: &str) {
    std::fs::copy(from, to).unwrap();
    std::fs::copy(wal_name(from), wal_name(to)).unwrap();
}

fn recover(name: &str) -> Vec<u8> {
    drop(FileStorage::new(name).unwrap());
    std::fs::read(name).unwrap()
}

#[test]
fn f3_resize_grow_crash() {
    let (name, crashed) = ("wal_f3_a.testfile", "wal_f3_a_crashed.testfile");
    let _files = Files::new(&[name, crashed]);

    let mut storage = FileStorage::new(name).unwrap();
    storage.write(0, b"AAAAAAAA").unwrap();
    storage.flush().unwrap(); // committed = 8 bytes

    storage.resize(32).unwrap();
    crash_copy(name, crashed);

    assert_eq!(
        recover(crashed),
        b"AAAAAAAA".to_vec(),
        "recovered content differs from the last committed content"
    );
}

#[test]
fn f3_resize_grow_drop() {
    let name = "wal_f3_b.testfile";
    let _files = Files::new(&[name]);

    let mut storage = FileStorage::new(name).unwrap();
    storage.write(0, b"AAAAAAAA").unwrap();
    storage.flush().unwrap();

    storage.resize(32).unwrap();
    drop(storage); // unfinished transaction

    assert_eq!(
        std::fs::read(name).unwrap(),
        b"AAAAAAAA".to_vec(),
        "content after drop differs from the last committed content"
    );
}
