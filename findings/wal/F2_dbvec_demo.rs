    // F2 demo (crate-internal variant): removing the LAST element of a DbVec
    // issues Storage::move_at(.., size = 0) -> insert_bytes_at(.., &[]) ->
    // FileStorage::write(pos, &[]) (and a second empty write from
    // Storage::erase_bytes). A crash before the outermost commit then
    // truncates the database file at the removed element.
    //
    // PLACE AT: paste this function inside `mod tests { .. }` at the end of
    //           agdb/src/storage/file_storage.rs (uses that module's imports).
    // RUN WITH: CARGO_NET_OFFLINE=true cargo test -p agdb --offline --lib \
    //               storage::file_storage::tests::f2_dbvec_remove_last_crash
    //
    // Crash simulation: an outer Storage transaction is kept open (so the
    // nested commits inside DbVec::remove do not clear the WAL - on-disk state
    // is identical to a crash right before DbVec::remove's own outermost
    // commit), data file + WAL file are copied and the copy is reopened.
    #[test]
    fn f2_dbvec_remove_last_crash() {
        use crate::collections::vec::DbVec;

        let test_file = TestFile::new();
        let crashed = TestFile::from(format!("{}.crashed", test_file.file_name()));
        let wal = |name: &String| TestFile::hidden_filename(name);

        let mut storage = Storage::<FileStorage>::new(test_file.file_name()).unwrap();
        let mut vec = DbVec::<u64, FileStorage>::new(&mut storage).unwrap();
        vec.push(&mut storage, &1).unwrap();
        vec.push(&mut storage, &2).unwrap();
        vec.push(&mut storage, &3).unwrap();
        let vec_index = vec.storage_index();
        let tail = storage.insert(&"data after the vector".to_string()).unwrap();

        // all transactions completed: this is the committed content
        let committed = std::fs::read(test_file.file_name()).unwrap();

        let _outer = storage.transaction();
        assert_eq!(vec.remove(&mut storage, 2), Ok(3));

        // process dies here
        std::fs::copy(test_file.file_name(), crashed.file_name()).unwrap();
        std::fs::copy(wal(test_file.file_name()), wal(crashed.file_name())).unwrap();

        drop(FileStorage::new(crashed.file_name()).unwrap()); // recovery only
        let recovered = std::fs::read(crashed.file_name()).unwrap();
        assert_eq!(
            recovered.len(),
            committed.len(),
            "recovered file length differs from committed length"
        );
        assert_eq!(recovered, committed);

        let reopened = Storage::<FileStorage>::new(crashed.file_name()).unwrap();
        let vec = DbVec::<u64, FileStorage>::from_storage(&reopened, vec_index).unwrap();
        assert_eq!(vec.iter(&reopened).collect::<Vec<u64>>(), vec![1, 2, 3]);
        assert_eq!(
            reopened.value::<String>(tail),
            Ok("data after the vector".to_string())
        );
    }
