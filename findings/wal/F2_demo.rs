// F2 demo: a zero-length FileStorage::write() inside the file is logged as an
// empty WAL record which recovery interprets as "truncate the file to pos".
//
// PLACE AT: agdb/tests/wal_f2_demo.rs   (integration test, public API only)
// RUN WITH: CARGO_NET_OFFLINE=true cargo test -p agdb --offline --test wal_f2_demo
//
// (A crate-internal variant that reaches the same write through
// DbVec::remove(last) -> Storage::move_at(.., size = 0) is in
// F2_dbvec_demo.rs.)
//
// Crash simulation: copy data file + `.`-prefixed WAL file while writes are
// not yet followed by StorageData::flush() (= outermost Storage::commit()),
// then open the copy (=> recovery). `_drop` variant: drop without flush().

use agdb::FileStorage;
use agdb::StorageData;

struct Files(Vec<String>);

impl Files {
    fn new(names: &[&str]) -> Self {
        let f = Self(names.iter().map(|n| n.to_string()).collect());
        f.clean();
        f
    }
    fn clean(&self) {
        for n in &self.0 {
            let _ = std::fs::remove_file(n);
            let _ = std::fs::remove_file(wal_name(n));
        }
    }
}

impl Drop for Files {
    fn drop(&mut self) {
        self.clean();
    }
}

fn wal_name(name: &str) -> String {
    format!(".{name}")
}

fn crash_copy(from: &str, to: &str) {
    std::fs::copy(from, to).unwrap();
    std::fs::copy(wal_name(from), wal_name(to)).unwrap();
}

fn recover(name: &str) -> Vec<u8> {
    drop(FileStorage::new(name).unwrap());
    std::fs::read(name).unwrap()
}

#[test]
fn f2_zero_length_write_inside_file_crash() {
    let (name, crashed) = ("wal_f2_a.testfile", "wal_f2_a_crashed.testfile");
    let _files = Files::new(&[name, crashed]);

    let mut storage = FileStorage::new(name).unwrap();
    storage.write(0, b"0123456789").unwrap();
    storage.flush().unwrap(); // committed = "0123456789"

    storage.write(4, &[]).unwrap(); // changes nothing in the file
    assert_eq!(std::fs::read(name).unwrap(), b"0123456789".to_vec());
    crash_copy(name, crashed); // process dies before the commit

    assert_eq!(
        String::from_utf8(recover(crashed)).unwrap(),
        "0123456789",
        "recovered content differs from the last committed content"
    );
}

#[test]
fn f2_zero_length_write_inside_file_drop() {
    let name = "wal_f2_b.testfile";
    let _files = Files::new(&[name]);

    let mut storage = FileStorage::new(name).unwrap();
    storage.write(0, b"0123456789").unwrap();
    storage.flush().unwrap();

    storage.write(4, &[]).unwrap();
    drop(storage); // unfinished transaction

    assert_eq!(
        String::from_utf8(std::fs::read(name).unwrap()).unwrap(),
        "0123456789",
        "content after drop differs from the last committed content"
    );
}
