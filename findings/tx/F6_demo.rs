// F6 demo: a failed storage write during a mutating query leaves the nesting
// counter of the storage transactions raised for ever. From then on no commit
// reaches the outermost level, the write ahead (undo) log is never purged and
// ALL later, successfully reported mutations are undone when the database is
// closed (or the process dies) and reopened.
//
// Place this file at:   agdb/tests/f6_demo.rs
// Run with:             cargo test -p agdb --offline --test f6_demo -- --nocapture
//
// Method: `FaultStorage` is a `StorageData` implementation that forwards
// everything to `agdb::FileStorage` but makes the N-th `write` call (counted
// from the moment the fault is armed) fail once with an "No space left on
// device" I/O error, exactly what `FileStorage::write` would return on ENOSPC.
//
// Sequence for every N:
//   1. new DbImpl<FaultStorage>, insert index "k" + node "root" {k: 1}
//   2. arm the fault; exec_mut(insert node "a" {k: 10, name: "first"}) -> must be Err
//   3. [no effect]    everything observable must equal the state before 2.
//   4. [still usable] exec_mut(insert node "later" {k: 99}) must return Ok  (no fault any more)
//   5. drop the database, reopen the file with DbFile::new
//   6. [durable]      node "later" must exist in the reopened database

use agdb::DbError;
use agdb::DbFile;
use agdb::DbImpl;
use agdb::FileStorage;
use agdb::QueryBuilder;
use agdb::StorageData;
use agdb::StorageSlice;
use std::cell::RefCell;

#[derive(Default)]
struct FaultControl {
    writes: u64,
    fail_at: Option<u64>,
    fired: Option<String>,
}

thread_local! {
    static CONTROL: RefCell<FaultControl> = RefCell::new(FaultControl::default());
}

fn wal_name(name: &str) -> String {
    let pos = name.rfind('/').map(|p| p + 1).unwrap_or(0);
    let mut n = name.to_string();
    n.insert(pos, '.');
    n
}

fn remove_db_files(name: &str) {
    let _ = std::fs::remove_file(name);
    let _ = std::fs::remove_file(wal_name(name));
}

struct FaultStorage {
    inner: FileStorage,
}

impl StorageData for FaultStorage {
    fn backup(&self, name: &str) -> Result<(), DbError> {
        self.inner.backup(name)
    }
    fn copy(&self, name: &str) -> Result<Self, DbError> {
        Ok(Self {
            inner: self.inner.copy(name)?,
        })
    }
    fn flush(&mut self) -> Result<(), DbError> {
        self.inner.flush()
    }
    fn len(&self) -> u64 {
        self.inner.len()
    }
    fn name(&self) -> &str {
        self.inner.name()
    }
    fn new(name: &str) -> Result<Self, DbError> {
        Ok(Self {
            inner: FileStorage::new(name)?,
        })
    }
    fn read(&'_ self, pos: u64, value_len: u64) -> Result<StorageSlice<'_>, DbError> {
        self.inner.read(pos, value_len)
    }
    fn rename(&mut self, new_name: &str) -> Result<(), DbError> {
        self.inner.rename(new_name)
    }
    fn resize(&mut self, new_len: u64) -> Result<(), DbError> {
        self.inner.resize(new_len)
    }
    fn write(&mut self, pos: u64, bytes: &[u8]) -> Result<(), DbError> {
        let fail = CONTROL.with(|c| {
            let mut c = c.borrow_mut();
            let fail = c.fail_at == Some(c.writes);
            c.writes += 1;
            if fail {
                c.fail_at = None; // one shot
                c.fired = Some(format!("write(pos={pos}, len={})", bytes.len()));
            }
            fail
        });

        if fail {
            return Err(DbError::from(std::io::Error::other(
                "No space left on device (injected)",
            )));
        }

        self.inner.write(pos, bytes)
    }
}

fn full_error(e: &DbError) -> String {
    let mut s = e.description.clone();
    let mut cause = &e.cause;
    while let Some(c) = cause {
        s.push_str(" <- ");
        s.push_str(&c.description);
        cause = &c.cause;
    }
    s
}

fn dump<S: StorageData>(db: &DbImpl<S>) -> String {
    let elements = db
        .exec(
            QueryBuilder::select()
                .ids(QueryBuilder::search().elements().query())
                .query(),
        )
        .map(|r| {
            r.elements
                .iter()
                .map(|e| format!("  {:?} {:?}->{:?} {:?}\n", e.id, e.from, e.to, e.values))
                .collect::<String>()
        })
        .unwrap_or_else(|e| format!("ERR {}", full_error(&e)));
    let aliases = db
        .exec(QueryBuilder::select().aliases().query())
        .map(|r| {
            let mut a = r
                .elements
                .iter()
                .map(|e| format!("{:?}={:?} ", e.id, e.values))
                .collect::<Vec<String>>();
            a.sort();
            a.concat()
        })
        .unwrap_or_else(|e| format!("ERR {}", full_error(&e)));
    let indexes = db
        .exec(QueryBuilder::select().indexes().query())
        .map(|r| format!("{:?}", r.elements.iter().map(|e| &e.values).collect::<Vec<_>>()))
        .unwrap_or_else(|e| format!("ERR {}", full_error(&e)));
    format!("elements:\n{elements}aliases: {aliases}\nindexes: {indexes}\n")
}

#[test]
fn f6_failed_write_then_later_mutations_are_lost() {
    let db_name = "f6_demo_db.agdb";
    let mut lines = vec![];
    let mut has_effect = 0;
    let mut unusable = 0;
    let mut lost = 0;
    let mut n = 0;

    loop {
        remove_db_files(db_name);
        CONTROL.with(|c| *c.borrow_mut() = FaultControl::default());

        // 1.
        let mut db = DbImpl::<FaultStorage>::new(db_name).unwrap();
        db.exec_mut(QueryBuilder::insert().index("k").query()).unwrap();
        db.exec_mut(
            QueryBuilder::insert()
                .nodes()
                .aliases("root")
                .values([[("k", 1).into()]])
                .query(),
        )
        .unwrap();
        let before = dump(&db);

        // 2.
        CONTROL.with(|c| {
            *c.borrow_mut() = FaultControl {
                fail_at: Some(n),
                ..Default::default()
            }
        });
        let result = db.exec_mut(
            QueryBuilder::insert()
                .nodes()
                .aliases("a")
                .values([[("k", 10).into(), ("name", "first").into()]])
                .query(),
        );
        let fired = CONTROL.with(|c| c.borrow_mut().fired.take());
        CONTROL.with(|c| c.borrow_mut().fail_at = None);

        let Some(fired) = fired else {
            assert!(result.is_ok());
            println!("the faulted query = {n} storage writes");
            break;
        };

        let mut verdict = vec![];

        let Err(error) = result else {
            panic!("write #{n} failed but the query returned Ok");
        };

        // 3.
        let after_failure = std::panic::catch_unwind(std::panic::AssertUnwindSafe(|| dump(&db)))
            .unwrap_or_else(|_| "PANIC".to_string());
        if after_failure != before {
            has_effect += 1;
            verdict.push("failed query HAS AN EFFECT".to_string());
        }

        // 4.
        let later = std::panic::catch_unwind(std::panic::AssertUnwindSafe(|| {
            db.exec_mut(
                QueryBuilder::insert()
                    .nodes()
                    .aliases("later")
                    .values([[("k", 99).into()]])
                    .query(),
            )
        }));
        let later_ok = match later {
            Ok(Ok(_)) => true,
            Ok(Err(e)) => {
                unusable += 1;
                verdict.push(format!("later insert FAILS: {}", full_error(&e)));
                false
            }
            Err(_) => {
                unusable += 1;
                verdict.push("later insert PANICS".to_string());
                false
            }
        };
        let later_visible_before_close = db
            .exec(QueryBuilder::select().ids("later").query())
            .is_ok();
        // On a healthy database the write ahead log is empty after every exec_mut()
        // (it is purged when the outermost storage transaction commits).
        let wal_len = std::fs::metadata(wal_name(db_name)).unwrap().len();

        // 5.
        drop(db);
        let reopened = std::panic::catch_unwind(|| DbFile::new(db_name));

        // 6.
        match reopened {
            Ok(Ok(db)) => {
                if later_ok && db.exec(QueryBuilder::select().ids("later").query()).is_err() {
                    lost += 1;
                    verdict.push(format!(
                        "later insert returned Ok (visible before close: {later_visible_before_close}; write ahead log not purged: {wal_len} bytes) but is LOST after reopen"
                    ));
                }
            }
            Ok(Err(e)) => {
                lost += 1;
                verdict.push(format!("REOPEN FAILS: {}", full_error(&e)));
            }
            Err(_) => {
                lost += 1;
                verdict.push("REOPEN PANICS".to_string());
            }
        }

        if !verdict.is_empty() {
            lines.push(format!(
                "fault at write #{n} [{fired}] (query error: {}): {}",
                full_error(&error),
                verdict.join("; ")
            ));
        }

        n += 1;
    }

    remove_db_files(db_name);

    for l in &lines {
        println!("{l}");
    }

    println!(
        "fault points: {n}; failed query has an effect: {has_effect}; database unusable afterwards: {unusable}; later successful mutation lost after reopen: {lost}"
    );
    assert_eq!(
        (has_effect, unusable, lost),
        (0, 0, 0),
        "(failed query has an effect, database unusable afterwards, later successful mutation lost after reopen) out of {n} fault points"
    );
}
