// F4 demo: a crash while a brand new database file is being created leaves a
// file that can no longer be opened.
//
// Place this file at:   agdb/tests/f4_demo.rs
// Run with:             cargo test -p agdb --offline --test f4_demo -- --nocapture
//
// Method: `CrashStorage` is a `StorageData` implementation that forwards
// everything to `agdb::FileStorage` but counts the mutating calls
// (`write`/`resize`/`flush`). Right BEFORE the N-th such call it copies the
// data file and its write ahead log (`.name`) to a snapshot location, i.e. it
// records exactly what would be on disk had the process been killed at that
// instant. The snapshot is then opened with `DbFile::new` and `Db::new`.
// The tests iterate N over every crash point of `DbImpl::new()` on a
// non-existent file.
//
// Two tests:
//  * f4_crash_between_creation_transactions: only the crash points at which the
//    write ahead log is EMPTY, i.e. the file content is a committed state that
//    recovery will (rightly) not touch. These isolate F4 (database creation is
//    split into ~20 independent outermost storage transactions). Fails on HEAD,
//    passes with F4.fix.diff alone.
//  * f4_crash_at_any_point_of_creation: every crash point. Fails on HEAD. Needs
//    F4.fix.diff AND WAL_replay.fix.diff (undo log replayed oldest-first instead
//    of newest-first; enlarging `resize` logs the new instead of the old length)
//    to pass, because with F4.fix.diff a crash lands in the middle of one big
//    storage transaction and correctness then depends on a correct undo replay.

use agdb::Db;
use agdb::DbError;
use agdb::DbFile;
use agdb::DbImpl;
use agdb::FileStorage;
use agdb::QueryBuilder;
use agdb::StorageData;
use agdb::StorageSlice;
use std::cell::RefCell;

#[derive(Default)]
struct CrashControl {
    ops: u64,
    snapshot_at: Option<u64>,
    snapshot_name: String,
    taken: bool,
    log: Vec<String>,
}

thread_local! {
    static CONTROL: RefCell<CrashControl> = RefCell::new(CrashControl::default());
}

fn wal_name(name: &str) -> String {
    let pos = name.rfind('/').map(|p| p + 1).unwrap_or(0);
    let mut n = name.to_string();
    n.insert(pos, '.');
    n
}

fn remove_db_files(name: &str) {
    let _ = std::fs::remove_file(name);
    let _ = std::fs::remove_file(wal_name(name));
}

struct CrashStorage {
    inner: FileStorage,
}

impl CrashStorage {
    fn tick(&self, what: String) {
        CONTROL.with(|c| {
            let mut c = c.borrow_mut();
            if c.snapshot_at == Some(c.ops) {
                std::fs::copy(self.inner.name(), &c.snapshot_name).unwrap();
                std::fs::copy(wal_name(self.inner.name()), wal_name(&c.snapshot_name)).unwrap();
                c.taken = true;
            }
            c.ops += 1;
            c.log.push(what);
        });
    }
}

impl StorageData for CrashStorage {
    fn backup(&self, name: &str) -> Result<(), DbError> {
        self.inner.backup(name)
    }
    fn copy(&self, name: &str) -> Result<Self, DbError> {
        Ok(Self {
            inner: self.inner.copy(name)?,
        })
    }
    fn flush(&mut self) -> Result<(), DbError> {
        self.tick("flush (commit of outermost storage transaction)".to_string());
        self.inner.flush()
    }
    fn len(&self) -> u64 {
        self.inner.len()
    }
    fn name(&self) -> &str {
        self.inner.name()
    }
    fn new(name: &str) -> Result<Self, DbError> {
        Ok(Self {
            inner: FileStorage::new(name)?,
        })
    }
    fn read(&'_ self, pos: u64, value_len: u64) -> Result<StorageSlice<'_>, DbError> {
        self.inner.read(pos, value_len)
    }
    fn rename(&mut self, new_name: &str) -> Result<(), DbError> {
        self.inner.rename(new_name)
    }
    fn resize(&mut self, new_len: u64) -> Result<(), DbError> {
        self.tick(format!("resize({new_len})"));
        self.inner.resize(new_len)
    }
    fn write(&mut self, pos: u64, bytes: &[u8]) -> Result<(), DbError> {
        self.tick(format!("write(pos={pos}, len={})", bytes.len()));
        self.inner.write(pos, bytes)
    }
}

fn full_error(e: &DbError) -> String {
    let mut s = e.description.clone();
    let mut cause = &e.cause;
    while let Some(c) = cause {
        s.push_str(" <- ");
        s.push_str(&c.description);
        cause = &c.cause;
    }
    s
}

fn run(only_committed_states: bool, tag: &str) {
    let db_name = format!("f4_demo_{tag}_db.agdb");
    let snap_file = format!("f4_demo_{tag}_snapshot_file.agdb");
    let snap_mapped = format!("f4_demo_{tag}_snapshot_mapped.agdb");
    let mut failures = vec![];
    let mut failed_points = 0;
    let mut checked_points = 0;
    let mut n = 0;

    loop {
        remove_db_files(&db_name);
        remove_db_files(&snap_file);
        remove_db_files(&snap_mapped);
        CONTROL.with(|c| {
            *c.borrow_mut() = CrashControl {
                snapshot_at: Some(n),
                snapshot_name: snap_file.clone(),
                ..Default::default()
            }
        });

        {
            // only the creation of the new database is subject to the "crash"
            let db = DbImpl::<CrashStorage>::new(&db_name).unwrap();
            CONTROL.with(|c| c.borrow_mut().snapshot_at = None);
            drop(db);
        }

        let (taken, log) = CONTROL.with(|c| (c.borrow().taken, c.borrow().log.clone()));

        if !taken {
            println!("[{tag}] creation of a new database = {n} mutating storage calls");
            break;
        }

        let wal_len = std::fs::metadata(wal_name(&snap_file)).unwrap().len();

        if only_committed_states && wal_len != 0 {
            n += 1;
            continue;
        }

        checked_points += 1;
        std::fs::copy(&snap_file, &snap_mapped).unwrap();
        std::fs::copy(wal_name(&snap_file), wal_name(&snap_mapped)).unwrap();

        let f = snap_file.clone();
        let outcome_file = std::panic::catch_unwind(move || {
            DbFile::new(&f)
                .and_then(|mut db| db.exec_mut(QueryBuilder::insert().nodes().count(1).query()))
        });
        let f = snap_mapped.clone();
        let outcome_mapped = std::panic::catch_unwind(move || {
            Db::new(&f)
                .and_then(|mut db| db.exec_mut(QueryBuilder::insert().nodes().count(1).query()))
        });

        let mut failed = false;
        for (variant, outcome) in [("DbFile", outcome_file), ("Db", outcome_mapped)] {
            let what = match outcome {
                Ok(Ok(_)) => continue,
                Ok(Err(e)) => format!("Err: {}", full_error(&e)),
                Err(_) => "PANIC".to_string(),
            };
            failed = true;
            failures.push(format!(
                "[{tag}] crash before call #{n} [{}] (wal: {wal_len} bytes): {variant}::new() -> {what}",
                log[n as usize]
            ));
        }
        failed_points += failed as u64;

        n += 1;
    }

    remove_db_files(&db_name);
    remove_db_files(&snap_file);
    remove_db_files(&snap_mapped);

    for f in &failures {
        println!("{f}");
    }

    assert!(
        failures.is_empty(),
        "[{tag}] {failed_points} of the {checked_points} checked crash points during creation of a new database leave a file that cannot be opened",
    );
}

#[test]
fn f4_crash_between_creation_transactions() {
    run(true, "committed");
}

#[test]
fn f4_crash_at_any_point_of_creation() {
    run(false, "any");
}
