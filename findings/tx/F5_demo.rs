// F5 demo: a crash in the middle of a mutating query / a `transaction_mut`
// leaves a PARTIAL effect of that query / transaction visible after reopen.
//
// Place this file at:   agdb/tests/f5_demo.rs
// Run with:             cargo test -p agdb --offline --test f5_demo -- --nocapture
//
// Method: `CrashStorage` is a `StorageData` implementation that forwards
// everything to `agdb::FileStorage` but counts the mutating calls
// (`write`/`resize`/`flush`). Right BEFORE the N-th such call (counted from
// the start of the operation under test) it copies the data file and its
// write ahead log (`.name`) to a snapshot location = what would be on disk
// had the process been killed at that instant. The snapshot is opened with
// `DbFile::new`, and everything observable (node count, all elements with
// their values, all aliases, all indexes) is dumped into a string which must
// equal either the dump taken BEFORE the operation or the one taken AFTER it.
//
// To isolate F5 from the (separate) defects in the replay of the write ahead
// log only crash points at which the write ahead log is EMPTY are checked in
// the `*_committed_states` tests: the file content at these points is a
// state that recovery does not touch at all, so whatever is observed there was
// durably committed in the middle of the query. The `*_any_point` tests check
// every crash point (they additionally need WAL_replay.fix.diff to pass).

use agdb::DbError;
use agdb::DbFile;
use agdb::DbImpl;
use agdb::TransactionMut;
use agdb::FileStorage;
use agdb::QueryBuilder;
use agdb::StorageData;
use agdb::StorageSlice;
use std::cell::RefCell;

#[derive(Default)]
struct CrashControl {
    ops: u64,
    snapshot_at: Option<u64>,
    snapshot_name: String,
    taken: bool,
    log: Vec<String>,
}

thread_local! {
    static CONTROL: RefCell<CrashControl> = RefCell::new(CrashControl::default());
}

fn wal_name(name: &str) -> String {
    let pos = name.rfind('/').map(|p| p + 1).unwrap_or(0);
    let mut n = name.to_string();
    n.insert(pos, '.');
    n
}

fn remove_db_files(name: &str) {
    let _ = std::fs::remove_file(name);
    let _ = std::fs::remove_file(wal_name(name));
}

struct CrashStorage {
    inner: FileStorage,
}

impl CrashStorage {
    fn tick(&self, what: String) {
        CONTROL.with(|c| {
            let mut c = c.borrow_mut();
            if c.snapshot_at == Some(c.ops) {
                std::fs::copy(self.inner.name(), &c.snapshot_name).unwrap();
                std::fs::copy(wal_name(self.inner.name()), wal_name(&c.snapshot_name)).unwrap();
                c.taken = true;
            }
            c.ops += 1;
            c.log.push(what);
        });
    }
}

impl StorageData for CrashStorage {
    fn backup(&self, name: &str) -> Result<(), DbError> {
        self.inner.backup(name)
    }
    fn copy(&self, name: &str) -> Result<Self, DbError> {
        Ok(Self {
            inner: self.inner.copy(name)?,
        })
    }
    fn flush(&mut self) -> Result<(), DbError> {
        self.tick("flush (commit of outermost storage transaction)".to_string());
        self.inner.flush()
    }
    fn len(&self) -> u64 {
        self.inner.len()
    }
    fn name(&self) -> &str {
        self.inner.name()
    }
    fn new(name: &str) -> Result<Self, DbError> {
        Ok(Self {
            inner: FileStorage::new(name)?,
        })
    }
    fn read(&'_ self, pos: u64, value_len: u64) -> Result<StorageSlice<'_>, DbError> {
        self.inner.read(pos, value_len)
    }
    fn rename(&mut self, new_name: &str) -> Result<(), DbError> {
        self.inner.rename(new_name)
    }
    fn resize(&mut self, new_len: u64) -> Result<(), DbError> {
        self.tick(format!("resize({new_len})"));
        self.inner.resize(new_len)
    }
    fn write(&mut self, pos: u64, bytes: &[u8]) -> Result<(), DbError> {
        self.tick(format!("write(pos={pos}, len={})", bytes.len()));
        self.inner.write(pos, bytes)
    }
}

fn full_error(e: &DbError) -> String {
    let mut s = e.description.clone();
    let mut cause = &e.cause;
    while let Some(c) = cause {
        s.push_str(" <- ");
        s.push_str(&c.description);
        cause = &c.cause;
    }
    s
}


fn dump<S: StorageData>(db: &DbImpl<S>) -> String {
    let nodes = db
        .exec(QueryBuilder::select().node_count().query())
        .map(|r| format!("{:?}", r.elements.iter().map(|e| &e.values).collect::<Vec<_>>()))
        .unwrap_or_else(|e| format!("ERR {}", full_error(&e)));
    let elements = db
        .exec(
            QueryBuilder::select()
                .ids(QueryBuilder::search().elements().query())
                .query(),
        )
        .map(|r| {
            r.elements
                .iter()
                .map(|e| format!("  {:?} {:?}->{:?} {:?}\n", e.id, e.from, e.to, e.values))
                .collect::<String>()
        })
        .unwrap_or_else(|e| format!("ERR {}", full_error(&e)));
    let aliases = db
        .exec(QueryBuilder::select().aliases().query())
        .map(|r| {
            r.elements
                .iter()
                .map(|e| format!("{:?}={:?} ", e.id, e.values))
                .collect::<String>()
        })
        .unwrap_or_else(|e| format!("ERR {}", full_error(&e)));
    let indexes = db
        .exec(QueryBuilder::select().indexes().query())
        .map(|r| format!("{:?}", r.elements.iter().map(|e| &e.values).collect::<Vec<_>>()))
        .unwrap_or_else(|e| format!("ERR {}", full_error(&e)));
    format!("node_count: {nodes}\nelements:\n{elements}aliases: {aliases}\nindexes: {indexes}\n")
}

fn setup(db: &mut DbImpl<CrashStorage>) {
    db.exec_mut(QueryBuilder::insert().index("k").query()).unwrap();
    db.exec_mut(
        QueryBuilder::insert()
            .nodes()
            .aliases("root")
            .values([[("k", 1).into()]])
            .query(),
    )
    .unwrap();
}

/// Runs `setup` + `op` on a fresh database once per crash point N, taking the crash
/// snapshot before the N-th mutating storage call made by `op`.
fn run(
    tag: &str,
    only_committed_states: bool,
    op: impl Fn(&mut DbImpl<CrashStorage>),
) {
    let db_name = format!("f5_demo_{tag}_db.agdb");
    let snap = format!("f5_demo_{tag}_snapshot.agdb");
    let mut failures = vec![];
    let mut checked_points = 0;
    let mut n = 0;

    loop {
        remove_db_files(&db_name);
        remove_db_files(&snap);

        CONTROL.with(|c| *c.borrow_mut() = CrashControl::default());
        let mut db = DbImpl::<CrashStorage>::new(&db_name).unwrap();
        setup(&mut db);
        let before = dump(&db);

        CONTROL.with(|c| {
            *c.borrow_mut() = CrashControl {
                snapshot_at: Some(n),
                snapshot_name: snap.clone(),
                ..Default::default()
            }
        });
        op(&mut db);
        CONTROL.with(|c| c.borrow_mut().snapshot_at = None);
        let after = dump(&db);
        assert_ne!(before, after);
        drop(db);

        let (taken, log) = CONTROL.with(|c| (c.borrow().taken, c.borrow().log.clone()));

        if !taken {
            println!("[{tag}] operation = {n} mutating storage calls");
            break;
        }

        let wal_len = std::fs::metadata(wal_name(&snap)).unwrap().len();

        if only_committed_states && wal_len != 0 {
            n += 1;
            continue;
        }

        checked_points += 1;

        let s = snap.clone();
        let observed = std::panic::catch_unwind(move || match DbFile::new(&s) {
            Ok(db) => dump(&db),
            Err(e) => format!("OPEN FAILED: {}", full_error(&e)),
        })
        .unwrap_or_else(|_| "PANIC while opening / reading".to_string());

        if observed != before && observed != after {
            // full dump for the first three, one line for the rest
            let shown = if failures.len() < 3 {
                format!(":\n{observed}")
            } else {
                String::new()
            };
            if failures.is_empty() {
                println!("[{tag}] BEFORE:\n{before}[{tag}] AFTER:\n{after}");
            }
            failures.push(format!(
                "[{tag}] crash before call #{n} [{}] (wal: {wal_len} bytes) -> reopened database is neither BEFORE nor AFTER{shown}",
                log[n as usize]
            ));
        }

        n += 1;
    }

    remove_db_files(&db_name);
    remove_db_files(&snap);

    for f in &failures {
        println!("{f}");
    }

    assert!(
        failures.is_empty(),
        "[{tag}] {} of the {checked_points} checked crash points expose a partial effect",
        failures.len()
    );
}

fn single_query(db: &mut DbImpl<CrashStorage>) {
    // ONE query: two nodes, each with an alias and two key-values (one of them indexed)
    db.exec_mut(
        QueryBuilder::insert()
            .nodes()
            .aliases(["a", "b"])
            .values([
                [("k", 10).into(), ("name", "first").into()],
                [("k", 20).into(), ("name", "second").into()],
            ])
            .query(),
    )
    .unwrap();
}

fn multi_query_transaction(db: &mut DbImpl<CrashStorage>) {
    // the textbook use case from the documentation of `transaction_mut`:
    // "insert nodes and edges together"
    db.transaction_mut(|t: &mut TransactionMut<CrashStorage>| -> Result<(), DbError> {
        t.exec_mut(QueryBuilder::insert().nodes().aliases("user").query())?;
        t.exec_mut(QueryBuilder::insert().edges().from("root").to("user").query())?;
        t.exec_mut(QueryBuilder::remove().values("k").ids("root").query())?;
        Ok(())
    })
    .unwrap();
}

#[test]
fn f5_single_query_committed_states() {
    run("q_committed", true, single_query);
}

#[test]
fn f5_transaction_committed_states() {
    run("t_committed", true, multi_query_transaction);
}

#[test]
fn f5_single_query_any_point() {
    run("q_any", false, single_query);
}

#[test]
fn f5_transaction_any_point() {
    run("t_any", false, multi_query_transaction);
}
