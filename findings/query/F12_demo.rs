// F12 demo: MultiMapImpl::insert_or_replace spins forever once every slot of the
// (minimum capacity = 64) hash table is Valid or Deleted (tombstone), because its probe
// loop only terminates on an Empty slot (or a matching key) and tombstones are never
// reclaimed at the minimum capacity (`rehash` to the same capacity is a no-op).
//
// Public API history: insert an alias for a node and remove it again, for 64 different
// nodes. The alias IndexedMap's `values_to_keys` map (DbId -> String, hash = id % 64) ends
// up with all 64 slots `Deleted` and len == 0. The 65th alias insertion never returns.
//
// Place as: agdb/tests/f12_demo.rs
// Run:      CARGO_NET_OFFLINE=true timeout 300 cargo test -p agdb --offline --test f12_demo
// (the tests run the history in a worker thread with a 20s deadline and fail on timeout;
// NOTE the stuck worker thread keeps spinning until the test process exits)

use agdb::DbMemory;
use agdb::QueryBuilder;
use std::sync::mpsc::channel;
use std::time::Duration;

fn run_with_deadline<F: FnOnce() + Send + 'static>(f: F) -> bool {
    let (tx, rx) = channel();
    std::thread::spawn(move || {
        f();
        let _ = tx.send(());
    });
    rx.recv_timeout(Duration::from_secs(20)).is_ok()
}

#[test]
fn alias_insert_remove_cycles_do_not_hang() {
    let finished = run_with_deadline(|| {
        let mut db = DbMemory::new("f12_a").unwrap();
        db.exec_mut(QueryBuilder::insert().nodes().count(70).query())
            .unwrap();

        for i in 1..=70_i64 {
            db.exec_mut(
                QueryBuilder::insert()
                    .aliases(format!("alias{i}"))
                    .ids(i)
                    .query(),
            )
            .unwrap();
            db.exec_mut(QueryBuilder::remove().aliases(format!("alias{i}")).query())
                .unwrap();
        }

        // the alias map must still work after tombstone saturation
        db.exec_mut(QueryBuilder::insert().aliases("x").ids(1).query())
            .unwrap();
        db.exec_mut(QueryBuilder::insert().aliases("y").ids(1).query())
            .unwrap();
        assert_eq!(
            db.exec(QueryBuilder::select().aliases().ids(1).query())
                .unwrap()
                .elements[0]
                .values[0]
                .value
                .to_string(),
            "y"
        );
        assert!(db.exec(QueryBuilder::select().ids("x").query()).is_err());

        // lookups must terminate as well
        assert!(
            db.exec(QueryBuilder::select().ids("alias1").query())
                .is_err()
        );
    });

    assert!(
        finished,
        "alias insert/remove history did not finish within 20s (infinite loop)"
    );
}

#[test]
fn key_value_insert_remove_nodes_cycles_do_not_hang() {
    // Same thing through another user of insert_or_replace / Map: repeatedly inserting
    // a node with an alias and removing the node.
    let finished = run_with_deadline(|| {
        let mut db = DbMemory::new("f12_b").unwrap();

        for _ in 0..200 {
            db.exec_mut(QueryBuilder::insert().nodes().aliases("a").query())
                .unwrap();
            db.exec_mut(QueryBuilder::remove().ids("a").query())
                .unwrap();
        }
    });

    assert!(
        finished,
        "insert/remove aliased node history did not finish within 20s (infinite loop)"
    );
}
