// F11 demo: SearchQuery::slice panics when offset (or offset + limit) is past the end
// of the result and the search is ordered (order_by) or is a path search (from + to).
// Place as: agdb/tests/f11_demo.rs
// Run:      CARGO_NET_OFFLINE=true cargo test -p agdb --offline --test f11_demo
//
// Expected: shorter / empty result (as with the unordered search), never a panic.

use agdb::DbKeyOrder;
use agdb::DbMemory;
use agdb::QueryBuilder;

fn db(name: &str) -> DbMemory {
    let mut db = DbMemory::new(name).unwrap();
    // nodes 1, 2, 3 with key "k"
    db.exec_mut(
        QueryBuilder::insert()
            .nodes()
            .values([[("k", 1).into()], [("k", 2).into()], [("k", 3).into()]])
            .query(),
    )
    .unwrap();
    // edges 1->2 (-4), 2->3 (-5)
    db.exec_mut(
        QueryBuilder::insert()
            .edges()
            .from([1, 2])
            .to([2, 3])
            .query(),
    )
    .unwrap();
    db
}

#[test]
fn baseline_unordered_offset_past_end_is_empty() {
    let db = db("f11_0");
    let r = db
        .exec(QueryBuilder::search().from(1).offset(100).query())
        .unwrap();
    assert_eq!(r.result, 0);
    let r = db
        .exec(QueryBuilder::search().from(1).offset(3).limit(100).query())
        .unwrap();
    assert_eq!(r.result, 2); // 5 elements on the path from 1: 1,-4,2,-5,3
}

#[test]
fn ordered_offset_past_end() {
    let db = db("f11_1");
    let r = db
        .exec(
            QueryBuilder::search()
                .from(1)
                .order_by([DbKeyOrder::Asc("k".into())])
                .offset(100)
                .query(),
        )
        .unwrap();
    assert_eq!(r.result, 0);
}

#[test]
fn ordered_offset_plus_limit_past_end() {
    let db = db("f11_2");
    let r = db
        .exec(
            QueryBuilder::search()
                .from(1)
                .order_by([DbKeyOrder::Asc("k".into())])
                .offset(3)
                .limit(100)
                .query(),
        )
        .unwrap();
    assert_eq!(r.result, 2);
}

#[test]
fn ordered_elements_offset_past_end() {
    let db = db("f11_3");
    let r = db
        .exec(
            QueryBuilder::search()
                .elements()
                .order_by([DbKeyOrder::Desc("k".into())])
                .offset(6)
                .query(),
        )
        .unwrap();
    assert_eq!(r.result, 0);
}

#[test]
fn ordered_to_offset_past_end() {
    let db = db("f11_4");
    let r = db
        .exec(
            QueryBuilder::search()
                .to(3)
                .order_by([DbKeyOrder::Asc("k".into())])
                .offset(4)
                .limit(5)
                .query(),
        )
        .unwrap();
    assert_eq!(r.result, 1);
}

#[test]
fn path_search_offset_past_end_without_ordering() {
    let db = db("f11_5");
    // path 1 -> 3 has 5 elements
    let r = db
        .exec(QueryBuilder::search().from(1).to(3).offset(10).query())
        .unwrap();
    assert_eq!(r.result, 0);
}

#[test]
fn path_search_offset_plus_limit_past_end_without_ordering() {
    let db = db("f11_6");
    let r = db
        .exec(
            QueryBuilder::search()
                .from(1)
                .to(3)
                .offset(4)
                .limit(10)
                .query(),
        )
        .unwrap();
    assert_eq!(r.result, 1);
}

#[test]
fn ordered_offset_plus_limit_overflow() {
    let db = db("f11_7");
    let r = db
        .exec(
            QueryBuilder::search()
                .from(1)
                .order_by([DbKeyOrder::Asc("k".into())])
                .offset(1)
                .limit(u64::MAX)
                .query(),
        )
        .unwrap();
    assert_eq!(r.result, 4);
}
