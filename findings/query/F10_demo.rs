// F10 demo: ordering comparisons (<, <=, >, >=) in search conditions are NOT type strict.
// Place as: agdb/tests/f10_demo.rs
// Run:      CARGO_NET_OFFLINE=true cargo test -p agdb --offline --test f10_demo
//
// Docs (agdb_web/content/docs/03.references/01.queries.md): "The condition comparators are
// type strict meaning that they do not perform type conversions nor coercion".
// `Comparison::compare` uses derived `PartialOrd` of `DbValue` which orders by enum
// variant index first (Bytes < I64 < U64 < F64 < String < Vec*), so cross-type ordering
// comparisons succeed based purely on the variant order.

use agdb::Comparison;
use agdb::DbMemory;
use agdb::DbValue;
use agdb::QueryBuilder;

fn db_with_k(name: &str, value: DbValue) -> DbMemory {
    let mut db = DbMemory::new(name).unwrap();
    db.exec_mut(
        QueryBuilder::insert()
            .nodes()
            .values([[("k", value).into()]])
            .query(),
    )
    .unwrap();
    db
}

fn count(db: &DbMemory, cmp: Comparison) -> u64 {
    db.exec(
        QueryBuilder::search()
            .elements()
            .where_()
            .key("k")
            .value(cmp)
            .query(),
    )
    .unwrap()
    .result
}

#[test]
fn i64_less_than_string_is_false() {
    let db = db_with_k("f10_a", 5_i64.into());
    assert_eq!(count(&db, Comparison::LessThan("a".into())), 0);
}

#[test]
fn i64_less_than_or_equal_string_is_false() {
    let db = db_with_k("f10_b", 5_i64.into());
    assert_eq!(count(&db, Comparison::LessThanOrEqual("a".into())), 0);
}

#[test]
fn u64_greater_than_i64_is_false() {
    // stored U64(1), condition `> I64(100)`: numerically false, type-wise not comparable
    let db = db_with_k("f10_c", 1_u64.into());
    assert_eq!(count(&db, Comparison::GreaterThan(100_i64.into())), 0);
}

#[test]
fn string_greater_than_or_equal_f64_is_false() {
    let db = db_with_k("f10_d", "abc".into());
    assert_eq!(
        count(&db, Comparison::GreaterThanOrEqual(1.5_f64.into())),
        0
    );
}

#[test]
fn same_type_ordering_still_works() {
    let db = db_with_k("f10_e", 5_i64.into());
    assert_eq!(count(&db, Comparison::LessThan(6_i64.into())), 1);
    assert_eq!(count(&db, Comparison::LessThanOrEqual(5_i64.into())), 1);
    assert_eq!(count(&db, Comparison::GreaterThan(4_i64.into())), 1);
    assert_eq!(count(&db, Comparison::GreaterThanOrEqual(5_i64.into())), 1);
    assert_eq!(count(&db, Comparison::LessThan(5_i64.into())), 0);
    assert_eq!(count(&db, Comparison::GreaterThan(5_i64.into())), 0);
}
