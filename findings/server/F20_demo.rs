// F20 demo (candidate): a vote granted for an OLDER election of the same candidate is counted in its
// CURRENT election -> two leaders with equal term in a 5-node cluster, without any node voting twice in a term.
//
// WHERE TO PLACE
//   Paste into agdb_server/src/raft.rs inside `mod test { ... }` (e.g. right after `const TIMEOUT`).
//   The cluster is NOT `start()`ed; every message is delivered by hand (deterministic schedule);
//   "waiting" for a timeout = moving the node's local timer into the past.
//
// HOW TO RUN
//   CARGO_NET_OFFLINE=true cargo test --offline -p agdb_server --bin agdb_server raft::test::f20_ -- --nocapture

    fn f20_past(d: Duration) -> Instant {
        Instant::now().checked_sub(d).expect("uptime too short")
    }

    fn f20_to(reqs: &[Request<u8>], target: u64) -> &Request<u8> {
        reqs.iter().find(|r| r.target == target).expect("request for target")
    }

    /// target handles the request; the response is returned but NOT yet handed to the sender
    async fn f20_request(n: &[TestNode], req: &Request<u8>) -> Response {
        let r = n[req.target as usize].write().await.cluster.request(req).await;
        println!("  {req:?}\n      -> {r:?}");
        r
    }

    /// the sender receives the response
    async fn f20_response(n: &[TestNode], req: &Request<u8>, r: &Response) -> Vec<Request<u8>> {
        n[r.target as usize]
            .write()
            .await
            .cluster
            .response(req, r)
            .await
            .map_err(|e| anyhow!(e.description))
            .unwrap()
            .unwrap_or_default()
    }

    async fn f20_deliver(n: &[TestNode], req: &Request<u8>) -> (Response, Vec<Request<u8>>) {
        let r = f20_request(n, req).await;
        let f = f20_response(n, req, &r).await;
        (r, f)
    }

    async fn f20_dump(n: &[TestNode]) -> Vec<(usize, u64)> {
        let mut leaders = vec![];
        for (i, node) in n.iter().enumerate() {
            let node = node.read().await;
            println!("node{i}: state={:?} term={}", node.cluster.state, node.cluster.term);
            if let ClusterState::Leader = node.cluster.state {
                leaders.push((i, node.cluster.term));
            }
        }
        leaders
    }

    #[tokio::test]
    async fn f20_stale_vote_counted_two_leaders_same_term() -> anyhow::Result<()> {
        let cluster = TestCluster::new(5); // NOT started
        let n = cluster.nodes.read().await.clone();
        let (a, b, d, e, c) = (0u64, 1u64, 2u64, 3u64, 4u64);

        println!("-- 1. A(0) pre-votes (term 1) with B,D and starts election term 1");
        let pre = n[a as usize].write().await.cluster.process().expect("pre votes");
        let (_, f) = f20_deliver(&n, f20_to(&pre, b)).await;
        assert!(f.is_empty());
        let (_, votes1) = f20_deliver(&n, f20_to(&pre, d)).await;
        assert!(!votes1.is_empty(), "A starts election term 1");

        println!("-- 2. Vote(term 1) reaches B only; B grants; the RESPONSE is delayed in the network");
        let stale_req = f20_to(&votes1, b);
        let stale_resp = f20_request(&n, stale_req).await;
        assert!(matches!(stale_resp.result, ResponseType::Ok));

        println!("-- 3. A hears nothing for > term_timeout: back to Election, pre-votes for term 2 with D,E, election term 2");
        n[a as usize].write().await.cluster.local_mut().timer = f20_past(Duration::from_secs(4));
        assert!(n[a as usize].write().await.cluster.process().is_none());
        let pre = n[a as usize].write().await.cluster.process().expect("pre votes term 2");
        let (_, f) = f20_deliver(&n, f20_to(&pre, d)).await;
        assert!(f.is_empty());
        let (_, votes2) = f20_deliver(&n, f20_to(&pre, e)).await;
        assert!(!votes2.is_empty(), "A starts election term 2");
        assert_eq!(n[a as usize].read().await.cluster.term, 2);

        println!("-- 4. the delayed Vote(term 1)-Ok of B arrives at A, now candidate of term 2: it is COUNTED");
        let f = f20_response(&n, stale_req, &stale_resp).await;
        assert!(f.is_empty());

        println!("-- 5. Vote(term 2) reaches D only; D grants: A = {{A, D(term 2), B(term 1!)}} -> Leader term 2");
        let (r, _heartbeats_lost) = f20_deliver(&n, f20_to(&votes2, d)).await;
        assert!(matches!(r.result, ResponseType::Ok));
        f20_dump(&n).await;

        println!("-- 6. A is cut off. C(4) times out: election term 1 fails (B already voted in term 1) ...");
        n[c as usize].write().await.cluster.local_mut().timer = f20_past(Duration::from_secs(5));
        let pre = n[c as usize].write().await.cluster.process().expect("pre votes");
        let (_, f) = f20_deliver(&n, f20_to(&pre, b)).await;
        assert!(f.is_empty());
        let (_, votes) = f20_deliver(&n, f20_to(&pre, e)).await;
        assert!(!votes.is_empty());
        let (rb, _) = f20_deliver(&n, f20_to(&votes, b)).await;
        assert!(matches!(rb.result, ResponseType::AlreadyVoted(_)));
        let (_, f) = f20_deliver(&n, f20_to(&votes, e)).await;
        assert!(f.is_empty(), "C has 2 of 5 votes in term 1");

        println!("-- 7. ... C times out again: election term 2; B and E have NOT voted in term 2 and grant");
        n[c as usize].write().await.cluster.local_mut().timer = f20_past(Duration::from_secs(4));
        assert!(n[c as usize].write().await.cluster.process().is_none());
        n[c as usize].write().await.cluster.local_mut().timer = f20_past(Duration::from_secs(5));
        let pre = n[c as usize].write().await.cluster.process().expect("pre votes term 2");
        let (_, f) = f20_deliver(&n, f20_to(&pre, b)).await;
        assert!(f.is_empty());
        let (_, votes) = f20_deliver(&n, f20_to(&pre, e)).await;
        assert!(!votes.is_empty());
        let (rb, f) = f20_deliver(&n, f20_to(&votes, b)).await;
        assert!(matches!(rb.result, ResponseType::Ok));
        assert!(f.is_empty());
        let (re, _heartbeats) = f20_deliver(&n, f20_to(&votes, e)).await;
        assert!(matches!(re.result, ResponseType::Ok));

        let leaders = f20_dump(&n).await;
        let same_term = leaders.iter().any(|(i, t)| leaders.iter().any(|(j, u)| i != j && t == u));
        assert!(
            !same_term,
            "F20: two leaders in the same term, no node voted twice in a term: leaders (node, term) = {leaders:?}"
        );
        Ok(())
    }
