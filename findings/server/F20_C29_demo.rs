// F20 => C29 demo: the stale vote of F20 (vote_received counts a delayed Vote/Ok of an EARLIER
// election of the same candidate) leads to a LOST COMMITTED ENTRY: a node becomes leader although
// its log does not contain an entry that a leader has already committed (= acknowledged to the
// client). Leader completeness is violated on UNMODIFIED raft.rs. No node votes twice in a term.
//
// WHERE TO PLACE
//   Paste everything below into agdb_server/src/raft.rs, inside `mod test { ... }` (the
//   `#[cfg(test)]` module at the end of the file, e.g. right before its final closing brace).
//   Only items already imported there are used (TestCluster, TestNode, Request, Response,
//   ClusterState, Log, Instant, Duration, anyhow!). No production code is touched.
//   The cluster is NOT `start()`ed: no background tasks, every message is delivered by hand, so
//   the schedule is fully deterministic. "Waiting" for a timeout is simulated by moving the node's
//   own timer into the past (equivalent to sleeping; no other state is touched).
//   (Can be pasted together with F17_C29_demo.rs; the helper names do not clash.)
//
// HOW TO RUN
//   CARGO_NET_OFFLINE=true cargo test --offline -p agdb_server --bin agdb_server raft::test::c29_f20 -- --nocapture --test-threads=1
//
// Both tests FAIL on HEAD with a message starting "LEADER COMPLETENESS VIOLATED".
// 5 nodes: A=0, B=1, D=2, E=3, C=4 (same naming as F20_demo.rs).
//
// TEST 1  c29_f20_leader_elected_after_commit_has_empty_log   (leader of the SAME term)
//   1. A pre-votes (term 1) with B and D, starts election term 1.
//   2. Vote(term 1) A->B: B grants; the RESPONSE is delayed in the network. Nothing else arrives.
//   3. A hears nothing for > term_timeout: back to Election, pre-votes (term 2) with D and E,
//      starts election term 2.
//   4. the delayed Vote(term 1)/Ok of B arrives at A, now Candidate of term 2: it is COUNTED (F20).
//   5. Vote(term 2) A->D: D grants. A counts {A, D(term 2), B(term 1!)} = 3 of 5 -> A = Leader(term 2).
//      Only A and D voted for A in term 2.
//   6. C times out: election term 1 fails (B already voted in term 1, E grants: 2 of 5).
//   7. C times out again: pre-votes (term 2) with B and E, starts election term 2.
//      Vote(term 2) C->B: B has not voted in term 2 and grants -> C has {C, B}.
//      Vote(term 2) C->E is slow (the REQUEST is still in the network).
//   8. a client write (data 7) lands on leader A: Append(index 1, term 2) reaches D and B; both store
//      it and answer Ok; A counts {A, D, B} = majority and COMMITS index 1 (Cluster::commit ->
//      commit_storage; this is where the client is acknowledged). The follow-up heartbeats make
//      D and B commit it as well. The entry is now on 3 of 5 nodes and committed on all three.
//   9. C's Vote(term 2) request finally reaches E: E has not voted in term 2, never heard of A, grants.
//      C counts {C, B, E} -> C BECOMES Leader(term 2) AFTER the commit, with an EMPTY log.
//      => LEADER COMPLETENESS VIOLATED
//   Votes granted: term 1: B->A, E->C; term 2: D->A, B->C, E->C. Nobody voted twice in a term;
//   in term 2 A really has 2 votes and C 3 votes.
//
// TEST 2  c29_f20_higher_term_leader_has_conflicting_entry   (later leader has a HIGHER term and
//         passes every PreVote/Vote log check; apart from the one F20 stale vote nothing is delayed)
//   1.-7. exactly the F20_demo schedule: A = Leader(term 2) by {A, D, stale B}; C = Leader(term 2) by
//      {C, B, E}.
//   8. a client write (data 9) lands on leader A: entry X=(index 1, term 2, data 9) is appended
//      locally, its Append messages are lost -> NOT committed, client not acknowledged.
//   9. a client write (data 7) lands on leader C: entry E1=(index 1, term 2, data 7); Append reaches
//      B and E -> Ok, Ok -> C counts {C, B, E} and COMMITS E1 at index 1 (client acknowledged).
//  10. the partition heals: C's heartbeats (term 2, log 1/2, commit 1) reach B, E (commit E1) and A:
//      A steps down to Follower(C); validate_log compares only (index, term) = (1,2) == (1,2) -> Ok
//      and A even commits ITS OWN entry X at index 1.
//  11. C crashes. A, B, E time out (term_timeout). A pre-votes for term 3: B and E compare
//      (log_index, log_term, log_commit) = (1,2,1) vs (1,2,1) -> Ok; Vote(term 3) -> Ok, Ok.
//      A BECOMES Leader(term 3); its log has X (data 9) at index 1 instead of the committed E1 (data 7).
//      => LEADER COMPLETENESS VIOLATED

    /// target handles the request; the response is returned but NOT yet handed to the sender
    async fn c29f20_request(n: &[TestNode], req: &Request<u8>) -> Response {
        let r = n[req.target as usize].write().await.cluster.request(req).await;
        println!("  {req:?}\n      -> {r:?}");
        r
    }

    /// the sender of `req` receives the response; returns its follow-up requests
    async fn c29f20_response(n: &[TestNode], req: &Request<u8>, r: &Response) -> Vec<Request<u8>> {
        n[r.target as usize]
            .write()
            .await
            .cluster
            .response(req, r)
            .await
            .map_err(|e| anyhow!(e.description))
            .unwrap()
            .unwrap_or_default()
    }

    async fn c29f20_deliver(n: &[TestNode], req: &Request<u8>) -> (Response, Vec<Request<u8>>) {
        let r = c29f20_request(n, req).await;
        let f = c29f20_response(n, req, &r).await;
        (r, f)
    }

    fn c29f20_past(d: Duration) -> Instant {
        Instant::now().checked_sub(d).expect("uptime too short")
    }

    fn c29f20_to(reqs: &[Request<u8>], target: u64) -> &Request<u8> {
        reqs.iter()
            .find(|r| r.target == target)
            .expect("request for target")
    }

    async fn c29f20_dump(n: &[TestNode]) {
        for (i, node) in n.iter().enumerate() {
            let node = node.read().await;
            println!(
                "    node{i}: state={:?} term={} commit={} log={:?}",
                node.cluster.state,
                node.cluster.term,
                node.cluster.storage.commit,
                node.cluster
                    .storage
                    .logs
                    .iter()
                    .map(|l| (l.index, l.term, l.data))
                    .collect::<Vec<_>>()
            );
        }
    }

    /// Records what `leader` has committed so far. Asserts that it IS the Leader right now and
    /// that its commit point (what Cluster::commit -> commit_storage set) really is `index`.
    async fn c29f20_record_commit(
        n: &[TestNode],
        leader: u64,
        index: u64,
        committed: &mut Vec<(u64, Log<u8>)>,
    ) {
        let node = n[leader as usize].read().await;
        assert!(
            matches!(node.cluster.state, ClusterState::Leader),
            "node {leader} must be Leader when it commits"
        );
        assert_eq!(node.cluster.storage.commit, index, "leader's commit point");
        assert_eq!(node.cluster.local().log_commit, index);
        let entry = node.cluster.storage.logs[(index - 1) as usize].clone();
        println!(
            "  ** COMMITTED by Leader node {leader} (term {}): {entry:?} -- client acknowledged",
            node.cluster.term
        );
        committed.push((leader, entry));
    }

    /// Called at the moment a node has become Leader: leader completeness check.
    async fn c29f20_check_new_leader(n: &[TestNode], leader: u64, committed: &[(u64, Log<u8>)]) {
        c29f20_dump(n).await;
        let node = n[leader as usize].read().await;
        assert!(
            matches!(node.cluster.state, ClusterState::Leader),
            "node {leader} expected to have become Leader, is {:?}",
            node.cluster.state
        );
        println!(
            "  ** node {leader} BECAME Leader of term {}",
            node.cluster.term
        );
        for (by, entry) in committed {
            let local = node.cluster.storage.logs.get((entry.index - 1) as usize);
            assert!(
                local.is_some_and(|log| log.term == entry.term && log.data == entry.data),
                "LEADER COMPLETENESS VIOLATED: node {leader} became Leader of term {} but its log {:?} does not contain the entry {:?} that Leader node {by} committed earlier at index {} (it has {:?} there)",
                node.cluster.term,
                node.cluster.storage.logs,
                entry,
                entry.index,
                local
            );
        }
    }

    /// Steps 1-5 of F20_demo: A becomes Leader(term 2) with the votes {A, D (term 2), B (stale, term 1)}.
    async fn c29f20_a_becomes_leader_by_stale_vote(n: &[TestNode], a: u64, b: u64, d: u64, e: u64) {
        println!("-- 1. A(0) pre-votes (term 1) with B,D and starts election term 1");
        let pre = n[a as usize]
            .write()
            .await
            .cluster
            .process()
            .expect("pre votes");
        let (_, f) = c29f20_deliver(n, c29f20_to(&pre, b)).await;
        assert!(f.is_empty());
        let (_, votes1) = c29f20_deliver(n, c29f20_to(&pre, d)).await;
        assert!(!votes1.is_empty(), "A starts election term 1");

        println!("-- 2. Vote(term 1) reaches B only; B grants; the RESPONSE is delayed in the network");
        let stale_req = c29f20_to(&votes1, b);
        let stale_resp = c29f20_request(n, stale_req).await;
        assert!(matches!(stale_resp.result, ResponseType::Ok));

        println!("-- 3. A hears nothing for > term_timeout: Election, pre-votes (term 2) with D,E, election term 2");
        n[a as usize].write().await.cluster.local_mut().timer =
            c29f20_past(Duration::from_secs(4));
        assert!(n[a as usize].write().await.cluster.process().is_none());
        let pre = n[a as usize]
            .write()
            .await
            .cluster
            .process()
            .expect("pre votes term 2");
        let (_, f) = c29f20_deliver(n, c29f20_to(&pre, d)).await;
        assert!(f.is_empty());
        let (_, votes2) = c29f20_deliver(n, c29f20_to(&pre, e)).await;
        assert!(!votes2.is_empty(), "A starts election term 2");
        assert_eq!(n[a as usize].read().await.cluster.term, 2);

        println!("-- 4. the delayed Vote(term 1)/Ok of B arrives at A, now Candidate of term 2: it is COUNTED (F20)");
        let f = c29f20_response(n, stale_req, &stale_resp).await;
        assert!(f.is_empty());

        println!("-- 5. Vote(term 2) reaches D only; D grants: A counts {{A, D(term 2), B(term 1!)}} -> Leader term 2");
        let (r, _heartbeats_lost) = c29f20_deliver(n, c29f20_to(&votes2, d)).await;
        assert!(matches!(r.result, ResponseType::Ok));
    }

    /// Step 6 of F20_demo: C's election of term 1 fails (B: AlreadyVoted, E grants: 2 of 5),
    /// then C is Candidate of term 2 with the pre-votes of B and E. Returns C's Vote(term 2) requests.
    async fn c29f20_c_candidate_term_2(n: &[TestNode], b: u64, e: u64, c: u64) -> Vec<Request<u8>> {
        println!("-- 6. A is cut off. C(4) times out: election term 1 fails (B already voted in term 1)");
        n[c as usize].write().await.cluster.local_mut().timer =
            c29f20_past(Duration::from_secs(5));
        let pre = n[c as usize]
            .write()
            .await
            .cluster
            .process()
            .expect("pre votes");
        let (_, f) = c29f20_deliver(n, c29f20_to(&pre, b)).await;
        assert!(f.is_empty());
        let (_, votes) = c29f20_deliver(n, c29f20_to(&pre, e)).await;
        assert!(!votes.is_empty());
        let (rb, _) = c29f20_deliver(n, c29f20_to(&votes, b)).await;
        assert!(matches!(rb.result, ResponseType::AlreadyVoted(_)));
        let (_, f) = c29f20_deliver(n, c29f20_to(&votes, e)).await;
        assert!(f.is_empty(), "C has 2 of 5 votes in term 1");

        println!("-- 7. C times out again: pre-votes (term 2) with B,E; election term 2");
        n[c as usize].write().await.cluster.local_mut().timer =
            c29f20_past(Duration::from_secs(4));
        assert!(n[c as usize].write().await.cluster.process().is_none());
        n[c as usize].write().await.cluster.local_mut().timer =
            c29f20_past(Duration::from_secs(5));
        let pre = n[c as usize]
            .write()
            .await
            .cluster
            .process()
            .expect("pre votes term 2");
        let (_, f) = c29f20_deliver(n, c29f20_to(&pre, b)).await;
        assert!(f.is_empty());
        let (_, votes) = c29f20_deliver(n, c29f20_to(&pre, e)).await;
        assert!(!votes.is_empty());
        assert_eq!(n[c as usize].read().await.cluster.term, 2);
        votes
    }

    #[tokio::test]
    async fn c29_f20_leader_elected_after_commit_has_empty_log() -> anyhow::Result<()> {
        let cluster = TestCluster::new(5); // NOT started
        let n = cluster.nodes.read().await.clone();
        let (a, b, d, e, c) = (0u64, 1u64, 2u64, 3u64, 4u64);
        let mut committed: Vec<(u64, Log<u8>)> = Vec::new();

        c29f20_a_becomes_leader_by_stale_vote(&n, a, b, d, e).await;
        c29f20_check_new_leader(&n, a, &committed).await;
        assert_eq!(n[a as usize].read().await.cluster.term, 2);

        let votes_c = c29f20_c_candidate_term_2(&n, b, e, c).await;
        println!("--    Vote(term 2) C->B: B has not voted in term 2 and grants; Vote(term 2) C->E is still in the network");
        let (rb, f) = c29f20_deliver(&n, c29f20_to(&votes_c, b)).await;
        assert!(matches!(rb.result, ResponseType::Ok));
        assert!(f.is_empty(), "C has 2 of 5 votes in term 2");
        assert!(matches!(
            n[c as usize].read().await.cluster.state,
            ClusterState::Candidate
        ));

        println!("-- 8. client write 7 on Leader A; Append reaches D and B; A commits index 1");
        assert!(matches!(
            n[a as usize].read().await.cluster.state,
            ClusterState::Leader
        ));
        let appends = n[a as usize]
            .write()
            .await
            .cluster
            .append(7, None)
            .await
            .map_err(|e| anyhow!(e.description))?;
        let (r, f) = c29f20_deliver(&n, c29f20_to(&appends, d)).await;
        assert!(matches!(r.result, ResponseType::Ok));
        assert!(f.is_empty(), "2 of 5 acknowledgements: not committed yet");
        assert_eq!(n[a as usize].read().await.cluster.storage.commit, 0);
        let (r, heartbeats) = c29f20_deliver(&n, c29f20_to(&appends, b)).await;
        assert!(matches!(r.result, ResponseType::Ok));
        c29f20_record_commit(&n, a, 1, &mut committed).await;
        for t in [d, b] {
            let (r, _) = c29f20_deliver(&n, c29f20_to(&heartbeats, t)).await; // D, B commit, too
            assert!(matches!(r.result, ResponseType::Ok));
            assert_eq!(n[t as usize].read().await.cluster.storage.commit, 1);
        }

        println!("-- 9. C's Vote(term 2) request reaches E: E has not voted in term 2 and grants");
        let (re, _heartbeats) = c29f20_deliver(&n, c29f20_to(&votes_c, e)).await;
        assert!(matches!(re.result, ResponseType::Ok));
        c29f20_check_new_leader(&n, c, &committed).await;

        Ok(())
    }

    #[tokio::test]
    async fn c29_f20_higher_term_leader_has_conflicting_entry() -> anyhow::Result<()> {
        let cluster = TestCluster::new(5); // NOT started
        let n = cluster.nodes.read().await.clone();
        let (a, b, d, e, c) = (0u64, 1u64, 2u64, 3u64, 4u64);
        let mut committed: Vec<(u64, Log<u8>)> = Vec::new();

        c29f20_a_becomes_leader_by_stale_vote(&n, a, b, d, e).await;
        c29f20_check_new_leader(&n, a, &committed).await;

        let votes_c = c29f20_c_candidate_term_2(&n, b, e, c).await;
        println!("--    Vote(term 2) C->B and C->E: neither has voted in term 2, both grant");
        let (rb, f) = c29f20_deliver(&n, c29f20_to(&votes_c, b)).await;
        assert!(matches!(rb.result, ResponseType::Ok));
        assert!(f.is_empty());
        let (re, _heartbeats_lost) = c29f20_deliver(&n, c29f20_to(&votes_c, e)).await;
        assert!(matches!(re.result, ResponseType::Ok));
        c29f20_check_new_leader(&n, c, &committed).await; // nothing committed yet: passes
        assert_eq!(n[a as usize].read().await.cluster.term, 2);
        assert_eq!(n[c as usize].read().await.cluster.term, 2);

        println!("-- 8. client write 9 on Leader A; its Append messages are lost (NOT committed)");
        let _appends_lost = n[a as usize]
            .write()
            .await
            .cluster
            .append(9, None)
            .await
            .map_err(|e| anyhow!(e.description))?;
        assert_eq!(n[a as usize].read().await.cluster.storage.commit, 0);

        println!("-- 9. client write 7 on Leader C; Append reaches B and E; C commits index 1");
        let appends = n[c as usize]
            .write()
            .await
            .cluster
            .append(7, None)
            .await
            .map_err(|e| anyhow!(e.description))?;
        let (r, f) = c29f20_deliver(&n, c29f20_to(&appends, b)).await;
        assert!(matches!(r.result, ResponseType::Ok));
        assert!(f.is_empty(), "2 of 5 acknowledgements: not committed yet");
        let (r, heartbeats) = c29f20_deliver(&n, c29f20_to(&appends, e)).await;
        assert!(matches!(r.result, ResponseType::Ok));
        c29f20_record_commit(&n, c, 1, &mut committed).await;

        println!("-- 10. partition heals: Leader C's heartbeats (commit 1) reach B, E and A");
        for t in [b, e] {
            let (r, _) = c29f20_deliver(&n, c29f20_to(&heartbeats, t)).await;
            assert!(matches!(r.result, ResponseType::Ok));
            assert_eq!(n[t as usize].read().await.cluster.storage.commit, 1);
        }
        let (r, _) = c29f20_deliver(&n, c29f20_to(&heartbeats, a)).await;
        assert!(matches!(r.result, ResponseType::Ok)); // validate_log: (1,2) == (1,2)
        assert!(matches!(
            n[a as usize].read().await.cluster.state,
            ClusterState::Follower(4)
        ));
        c29f20_dump(&n).await;
        println!(
            "     (A stepped down and committed ITS OWN entry at index 1: commit={} data={})",
            n[a as usize].read().await.cluster.storage.commit,
            n[a as usize].read().await.cluster.storage.logs[0].data
        );

        println!("-- 11. C crashes; A, B, E time out; A campaigns for term 3 with B and E");
        for t in [a, b, e] {
            n[t as usize].write().await.cluster.local_mut().timer =
                c29f20_past(Duration::from_secs(4));
            assert!(n[t as usize].write().await.cluster.process().is_none());
            assert!(matches!(
                n[t as usize].read().await.cluster.state,
                ClusterState::Election
            ));
        }
        let pre = n[a as usize]
            .write()
            .await
            .cluster
            .process()
            .expect("pre votes term 3");
        let (r, f) = c29f20_deliver(&n, c29f20_to(&pre, b)).await;
        assert!(matches!(r.result, ResponseType::Ok)); // validate_log_for_vote passes
        assert!(f.is_empty());
        let (r, votes) = c29f20_deliver(&n, c29f20_to(&pre, e)).await;
        assert!(matches!(r.result, ResponseType::Ok));
        let (r, f) = c29f20_deliver(&n, c29f20_to(&votes, b)).await;
        assert!(matches!(r.result, ResponseType::Ok));
        assert!(f.is_empty());
        let (r, _heartbeats) = c29f20_deliver(&n, c29f20_to(&votes, e)).await;
        assert!(matches!(r.result, ResponseType::Ok));
        assert_eq!(n[a as usize].read().await.cluster.term, 3);
        c29f20_check_new_leader(&n, a, &committed).await;

        Ok(())
    }
