// F17 demo: a node grants two votes in the same term -> two leaders with equal term.
//
// WHERE TO PLACE
//   Paste the function below into agdb_server/src/raft.rs, inside `mod test { ... }`
//   (the in-file harness; e.g. right after `const TIMEOUT`). It uses only items already
//   imported there (TestCluster, Request, ClusterState, Instant, Duration ...).
//   The cluster is NOT `start()`ed: no background tasks, every message is delivered by hand
//   so the schedule is fully deterministic. "Waiting" for a timeout is simulated by moving the
//   node's local timer into the past (equivalent to sleeping; no other state is touched).
//
// HOW TO RUN
//   CARGO_NET_OFFLINE=true cargo test --offline -p agdb_server --bin agdb_server raft::test::f17_ -- --nocapture
//
// Helper `f_deliver` is shared with F18_demo.rs (paste it once).

    /// Delivers `req` to its target (`Cluster::request`) and hands the response back to the
    /// sender (`Cluster::response`). Returns the response and the sender's follow-up requests.
    async fn f_deliver(c: &TestCluster, req: &Request<u8>) -> (Response, Vec<Request<u8>>) {
        let target = c.nodes.read().await[req.target as usize].clone();
        let response = target.write().await.cluster.request(req).await;
        let origin = c.nodes.read().await[response.target as usize].clone();
        let follow_up = origin
            .write()
            .await
            .cluster
            .response(req, &response)
            .await
            .map_err(|e| anyhow!(e.description))
            .unwrap()
            .unwrap_or_default();
        println!("  {req:?}\n      -> {response:?}");
        (response, follow_up)
    }

    fn f_past(d: Duration) -> Instant {
        Instant::now().checked_sub(d).expect("uptime too short")
    }

    fn f_to(reqs: Vec<Request<u8>>, target: u64) -> Request<u8> {
        reqs.into_iter()
            .find(|r| r.target == target)
            .expect("request for target")
    }

    #[tokio::test]
    async fn f17_double_vote_two_leaders_same_term() -> anyhow::Result<()> {
        let cluster = TestCluster::new(3); // NOT started
        let n = cluster.nodes.read().await.clone();

        // 1. node 1: election timeout (index*1000ms) elapses -> PreVote(term 1)
        n[1].write().await.cluster.local_mut().timer = f_past(Duration::from_secs(2));
        let prevotes = n[1].write().await.cluster.process().expect("pre votes");
        // only node 2 is reachable from node 1 (messages 1->0 are lost)
        let (_, votes) = f_deliver(&cluster, &f_to(prevotes, 2)).await; // -> Ok, node 1 starts election term 1
        let (r, _heartbeats_lost) = f_deliver(&cluster, &f_to(votes, 2)).await; // node 2 GRANTS vote for term 1
        assert!(matches!(r.result, ResponseType::Ok));
        {
            let n1 = n[1].read().await;
            let n2 = n[2].read().await;
            println!(
                "node1: state={:?} term={} | node2: state={:?} term={}",
                n1.cluster.state, n1.cluster.term, n2.cluster.state, n2.cluster.term
            );
            assert!(matches!(n1.cluster.state, ClusterState::Leader));
            assert_eq!(n1.cluster.term, 1);
            // on the unchanged code the vote is remembered ONLY in `state`; node2.term is still 0
            assert!(matches!(n2.cluster.state, ClusterState::Voted(1)));
        }

        // 2. node 1 (leader, term 1) is partitioned away: its heartbeats never reach node 2.
        //    node 2 hears nothing for > term_timeout (3s): process() forgets the vote.
        n[2].write().await.cluster.local_mut().timer = f_past(Duration::from_secs(4));
        assert!(n[2].write().await.cluster.process().is_none());
        {
            let n2 = n[2].read().await;
            println!(
                "node2 after term_timeout: state={:?} term={}",
                n2.cluster.state, n2.cluster.term
            );
        }

        // 3. node 0 (never heard of node 1's election) times out (election timeout 0ms) -> PreVote(term 1)
        let prevotes = n[0].write().await.cluster.process().expect("pre votes");
        let (_, votes) = f_deliver(&cluster, &f_to(prevotes, 2)).await;
        // 4. Vote(term 1) from node 0 to node 2 which has ALREADY voted for node 1 in term 1
        let (second_vote, _) = f_deliver(&cluster, &f_to(votes, 2)).await;

        let mut leaders = vec![];
        for (i, node) in n.iter().enumerate() {
            let node = node.read().await;
            println!(
                "node{i}: state={:?} term={}",
                node.cluster.state, node.cluster.term
            );
            if let ClusterState::Leader = node.cluster.state {
                leaders.push((i, node.cluster.term));
            }
        }

        assert!(
            !matches!(second_vote.result, ResponseType::Ok),
            "F17: node 2 granted a SECOND vote in term 1 (first to node 1, now to node 0): {second_vote:?}; leaders (node, term) = {leaders:?}"
        );
        Ok(())
    }
