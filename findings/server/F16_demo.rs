// F16 demo: database names are not validated before being joined into file system paths.
//
// WHERE TO PLACE
//   Copy to   agdb_server/tests/routes/f16_demo.rs
//   and add   `mod f16_demo;`   to agdb_server/tests/routes/mod.rs
//
// HOW TO RUN (from the workspace root; the integration tests spawn the real
// `agdb_server` binary via agdb_api::test_server::TestServer, cargo builds it automatically):
//   CARGO_NET_OFFLINE=true cargo test --offline -p agdb_server --test tests f16_ -- --test-threads=1 --nocapture
//
// Every test below states (in the assertion message) the HTTP request and the
// resulting path. All six FAIL on the unchanged code.
//
// Notes on the URL: the client (agdb_api::AgdbApi) builds the URL with
// format!("/db/{owner}/{db}/add") without encoding, so passing "%2F" in `db`
// puts a literal %2F in the request path; axum's `Path` extractor percent-decodes
// it to '/' *after* routing, so the decoded name "../../x" reaches
// DbPool::add_db -> Path::new(data_dir).join(owner).join(db).

use agdb::QueryBuilder;
use agdb_api::DbKind;
use agdb_api::test_server::ADMIN;
use agdb_api::test_server::TestServer;
use agdb_api::test_server::next_user_name;
use agdb_api::test_server::test_error::TestError;
use std::path::Path;

async fn new_user(server: &mut TestServer) -> Result<String, TestError> {
    let owner = next_user_name();
    server.api.user_login(ADMIN, ADMIN).await?;
    server.api.admin_user_add(&owner, &owner).await?;
    server.api.user_login(&owner, &owner).await?;
    Ok(owner)
}

fn status_of<T>(r: Result<T, agdb_api::AgdbApiError>, ok: impl Fn(&T) -> u16) -> (u16, String) {
    match r {
        Ok(v) => (ok(&v), String::new()),
        Err(e) => (e.status, e.description),
    }
}

// (i) escape from <data_dir>/<owner>/ (and from <data_dir> altogether)
#[tokio::test]
async fn f16_escape_outside_data_dir() -> Result<(), TestError> {
    let mut server = TestServer::new().await?;
    let owner = new_user(&mut server).await?;
    let file = format!("f16_escaped_{owner}");
    let db = format!("..%2F..%2F{file}");

    let (status, desc) = status_of(server.api.db_add(&owner, &db, DbKind::File).await, |s| *s);
    // <dir>/agdb_server_data/<owner>/../../<file>  ==  <dir>/<file>
    let escaped = Path::new(&server.dir).join(&file);
    let escaped_wal = Path::new(&server.dir).join(format!(".{file}"));
    println!(
        "POST /api/v1/db/{owner}/{db}/add?db_type=file -> {status} {desc}; exists({}) = {}; exists({}) = {}",
        escaped.display(),
        escaped.exists(),
        escaped_wal.display(),
        escaped_wal.exists()
    );
    assert!(
        !(200..300).contains(&status) && !escaped.exists(),
        "F16(i): POST /api/v1/db/{owner}/{db}/add returned {status} and created '{}' (+ WAL '{}') which is OUTSIDE the data dir '{}'",
        escaped.display(),
        escaped_wal.display(),
        server.data_dir
    );
    Ok(())
}

// (i-b) one user opens, reads and deletes ANOTHER user's database file
#[tokio::test]
async fn f16_cross_owner_file_sharing() -> Result<(), TestError> {
    let mut server = TestServer::new().await?;
    let victim = new_user(&mut server).await?;
    server.api.db_add(&victim, "secret", DbKind::File).await?;
    server
        .api
        .db_exec_mut(
            &victim,
            "secret",
            &[QueryBuilder::insert()
                .nodes()
                .aliases("pin")
                .values([[("pin", 1234).into()]])
                .query()
                .into()],
        )
        .await?;
    let victim_file = Path::new(&server.data_dir).join(&victim).join("secret");
    assert!(victim_file.exists());

    let attacker = new_user(&mut server).await?; // now logged in as attacker
    let db = format!("..%2F{victim}%2Fsecret");
    let (status, desc) = status_of(
        server.api.db_add(&attacker, &db, DbKind::File).await,
        |s| *s,
    );
    println!("attacker: POST /api/v1/db/{attacker}/{db}/add?db_type=file -> {status} {desc}");

    let mut leaked = String::new();
    if (200..300).contains(&status) {
        let r = server
            .api
            .db_exec(
                &attacker,
                &db,
                &[QueryBuilder::select().ids("pin").query().into()],
            )
            .await;
        leaked = format!("{:?}", r.map(|r| r.1));
        println!("attacker: POST /api/v1/db/{attacker}/{db}/exec [select ids 'pin'] -> {leaked}");
        let del = server.api.db_delete(&attacker, &db).await;
        println!(
            "attacker: DELETE /api/v1/db/{attacker}/{db}/delete -> {:?}; victim file exists = {}",
            del.map_err(|e| e.description),
            victim_file.exists()
        );
    }

    assert!(
        !(200..300).contains(&status) && victim_file.exists(),
        "F16(i-b): user '{attacker}' db '{db}' (decoded '../{victim}/secret') was accepted ({status}) and resolves to the file of db '{victim}/secret' = '{}'. \
         Attacker read: {leaked}. After attacker's db_delete the victim's file exists = {}",
        victim_file.display(),
        victim_file.exists()
    );
    Ok(())
}

// (ii) reserved name `backups`: db file <data_dir>/<owner>/backups occupies the path of the backups directory
#[tokio::test]
async fn f16_reserved_name_backups() -> Result<(), TestError> {
    let mut server = TestServer::new().await?;
    let owner = new_user(&mut server).await?;
    let (status, desc) = status_of(
        server.api.db_add(&owner, "backups", DbKind::File).await,
        |s| *s,
    );
    let p = Path::new(&server.data_dir).join(&owner).join("backups");
    let listed = server.api.db_list().await?.1.len();
    println!(
        "POST /api/v1/db/{owner}/backups/add?db_type=file -> {status} {desc}; '{}' is_file = {}; dbs listed for owner = {listed}",
        p.display(),
        p.is_file()
    );
    // any further db of this owner
    let (astatus, adesc) = status_of(
        server.api.db_add(&owner, "data", DbKind::Mapped).await,
        |s| *s,
    );
    println!("POST /api/v1/db/{owner}/data/add?db_type=mapped -> {astatus} {adesc}");
    assert!(
        !p.exists() && (200..300).contains(&astatus),
        "F16(ii): POST /api/v1/db/{owner}/backups/add -> {status} '{desc}' but the FILE '{}' (is_file={}) was created where the backup DIRECTORY of every db of '{owner}' must be (dbs registered: {listed}); \
         afterwards POST /api/v1/db/{owner}/data/add -> {astatus} '{adesc}'",
        p.display(),
        p.is_file()
    );
    Ok(())
}

// (ii-b) db name with a separator aliases another database's backup file
#[tokio::test]
async fn f16_db_aliases_other_dbs_backup_file() -> Result<(), TestError> {
    let mut server = TestServer::new().await?;
    let owner = new_user(&mut server).await?;
    server.api.db_add(&owner, "data", DbKind::Mapped).await?;
    server.api.db_backup(&owner, "data").await?;
    let bak = Path::new(&server.data_dir)
        .join(&owner)
        .join("backups")
        .join("data.bak");
    assert!(bak.exists());
    let db = "backups%2Fdata.bak";
    let (status, desc) = status_of(server.api.db_add(&owner, db, DbKind::File).await, |s| *s);
    println!("POST /api/v1/db/{owner}/{db}/add?db_type=file -> {status} {desc}");
    if (200..300).contains(&status) {
        let del = server.api.db_delete(&owner, db).await;
        println!(
            "DELETE /api/v1/db/{owner}/{db}/delete -> {:?}; '{}' exists = {}",
            del.map_err(|e| e.description),
            bak.display(),
            bak.exists()
        );
    }
    assert!(
        !(200..300).contains(&status) && bak.exists(),
        "F16(ii-b): db '{owner}/backups/data.bak' accepted ({status}); its main file IS the backup file of db '{owner}/data' ('{}'); after deleting it the backup of 'data' exists = {}",
        bak.display(),
        bak.exists()
    );
    Ok(())
}

// (iii) db `.x` is the WAL (recovery log) of db `x`
#[tokio::test]
async fn f16_dot_name_collides_with_wal() -> Result<(), TestError> {
    let mut server = TestServer::new().await?;
    let owner = new_user(&mut server).await?;
    server.api.db_add(&owner, "x", DbKind::File).await?;
    let wal_of_x = Path::new(&server.data_dir).join(&owner).join(".x");
    assert!(wal_of_x.exists(), "WAL of x is <owner>/.x");
    let wal_len_before = std::fs::metadata(&wal_of_x)?.len();

    let (status, desc) = status_of(server.api.db_add(&owner, ".x", DbKind::File).await, |s| *s);
    let len_after_add = std::fs::metadata(&wal_of_x)?.len();
    println!(
        "POST /api/v1/db/{owner}/.x/add?db_type=file -> {status} {desc}; len('{}') before = {wal_len_before}, after = {len_after_add}",
        wal_of_x.display()
    );

    let mut after_x_mut = 0;
    let mut dotx_query = String::new();
    if (200..300).contains(&status) {
        server
            .api
            .db_exec_mut(
                &owner,
                ".x",
                &[QueryBuilder::insert()
                    .nodes()
                    .aliases("n")
                    .values([[("k", 1).into()]])
                    .query()
                    .into()],
            )
            .await?;
        let len_dotx = std::fs::metadata(&wal_of_x)?.len();
        // any committed mutation of `x` clears x's WAL == truncates db `.x`
        let r = server
            .api
            .db_exec_mut(
                &owner,
                "x",
                &[QueryBuilder::insert().nodes().count(1).query().into()],
            )
            .await;
        after_x_mut = std::fs::metadata(&wal_of_x)?.len();
        println!(
            "POST /api/v1/db/{owner}/x/exec_mut [insert node] -> {:?}; len('.x') {len_dotx} -> {after_x_mut}",
            r.map(|r| r.0).map_err(|e| e.description)
        );
        let r = server
            .api
            .db_exec(
                &owner,
                ".x",
                &[QueryBuilder::select().ids("n").query().into()],
            )
            .await;
        dotx_query = format!("{:?}", r.map(|r| r.1).map_err(|e| e.description));
        println!("POST /api/v1/db/{owner}/.x/exec [select 'n'] -> {dotx_query}");
        let del = server.api.db_delete(&owner, "x").await;
        println!(
            "DELETE /api/v1/db/{owner}/x/delete -> {:?}; file of db '.x' exists = {}",
            del.map_err(|e| e.description),
            wal_of_x.exists()
        );
    }

    assert!(
        !(200..300).contains(&status) && wal_of_x.exists(),
        "F16(iii): db '.x' accepted ({status}); its main file '{}' IS the WAL of db 'x' (len {wal_len_before} -> {len_after_add} on add). \
         A mutation of 'x' changed the length of db '.x' file to {after_x_mut}; select from '.x' afterwards: {dotx_query}; \
         after DELETE of db 'x' the file of db '.x' exists = {}",
        wal_of_x.display(),
        wal_of_x.exists()
    );
    Ok(())
}

// (iv) even names without separators / leading dots collide: DbPool::do_rollback uses
//      <owner>/backups/<db> as a temp file, which for db `a.bak` IS the backup file of db `a`.
#[tokio::test]
async fn f16_plain_name_collides_with_other_dbs_backup() -> Result<(), TestError> {
    let mut server = TestServer::new().await?;
    let owner = new_user(&mut server).await?;
    server.api.db_add(&owner, "a", DbKind::Mapped).await?;
    server.api.db_backup(&owner, "a").await?;
    let bak_a = Path::new(&server.data_dir)
        .join(&owner)
        .join("backups")
        .join("a.bak");
    assert!(bak_a.exists());
    server.api.db_add(&owner, "a.bak", DbKind::Mapped).await?;
    server.api.db_backup(&owner, "a.bak").await?;
    let r = server.api.db_rollback(&owner, "a.bak").await;
    println!(
        "POST /api/v1/db/{owner}/a.bak/rollback -> {:?}; backup of db 'a' ('{}') exists = {}",
        r.map_err(|e| e.description),
        bak_a.display(),
        bak_a.exists()
    );
    let (rstatus, rdesc) = status_of(server.api.db_restore(&owner, "a").await, |s| *s);
    println!("POST /api/v1/db/{owner}/a/restore -> {rstatus} {rdesc}");
    assert!(
        bak_a.exists() && (200..300).contains(&rstatus),
        "F16(iv): rollback of db '{owner}/a.bak' used '{}' as its temp file and thereby destroyed the backup of db '{owner}/a' (exists = {}); POST /api/v1/db/{owner}/a/restore -> {rstatus} '{rdesc}'",
        bak_a.display(),
        bak_a.exists()
    );
    Ok(())
}
